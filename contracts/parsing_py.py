"""Contracts for depccg/parsing.py (C11: _chunks; C17: _binarize)."""
import z3

from vc.engine import Contract, Case
from vc.pyvc import Z, PyRaise, Env, Foreign, is_native
from vc.sorts import CheckerError

REL = 'depccg/parsing.py'


# ------------------------------------------------------------------------------ symbolic list / slices / range (for _chunks)
class SymListN:
    """a list of symbolic length n (elements opaque)"""
    def __init__(self, n):
        self.n = n

    def length(self, I, node):
        return Z(self.n)

    def slice(self, I, lo, hi, node):
        lo_e = z3.IntVal(0) if lo is None else I.ex(lo)
        hi_e = self.n if hi is None else I.ex(hi)
        # python slice clipping for non-negative bounds (negative bounds are excluded by an obligation)
        I.oblige('slice-nonneg', z3.And(lo_e >= 0, hi_e >= 0), node, extra='slice bounds are not negative (no wrap-around indexing)')
        clip = lambda e: z3.If(e > self.n, self.n, e)
        return SliceOf(self, clip(lo_e), clip(hi_e))


class SliceOf:
    def __init__(self, base, lo, hi):
        self.base, self.lo, self.hi = base, lo, hi


class CeilDiv:
    """a / b kept abstract until math.ceil is applied"""
    def __init__(self, a, b):
        self.a, self.b = a, b


class SymRange:
    """range(start, stop, step) with symbolic arguments; iterated by the loop rule `one arbitrary iteration`"""
    def __init__(self, I, args, node):
        a = [I.ex(x) for x in args]
        if len(a) == 1:
            self.start, self.stop, self.step = z3.IntVal(0), a[0], z3.IntVal(1)
        elif len(a) == 2:
            self.start, self.stop, self.step = a[0], a[1], z3.IntVal(1)
        else:
            self.start, self.stop, self.step = a
        I.oblige('range-step', self.step != 0, node, extra='range() step is not zero (ValueError otherwise)')
        self.iterations = []

    def for_loop(self, I, st, env, module, qual):
        if st.orelse:
            raise CheckerError('for/else over a symbolic range')
        # assume step > 0 was established (obligation below); an arbitrary iteration: i = start + j*step, start <= i < stop
        I.oblige('range-step-positive', self.step > 0, st, extra='the loop is analysed for positive steps')
        i = I.fresh('range_i', z3.IntSort())
        j = I.fresh('range_j', z3.IntSort())
        I.ctx.assume(z3.And(j >= 0, i >= self.start, i < self.stop))
        I.assign(st.target, Z(i), env, module)
        n0 = len(I.yields)
        I.exec_block(st.body, env, module, qual)
        self.iterations.append(dict(i=i, yielded=I.yields[n0:]))


def lib_true_div(I, a, b, node):
    return CeilDiv(I.ex(a), I.ex(b))


class Chunks(Contract):
    rel, qualname = REL, '_chunks'

    def cases(self, I):
        def build(I):
            n, k = z3.Int('n'), z3.Int('num_chunks')
            self._n, self._k = n, k
            self._list = SymListN(n)
            I.yields = []
            self._range = None

            def mk(I2, args, node):
                self._range = SymRange(I2, args, node)
                return self._range
            I.sym_range = mk
            I.sym_truediv = lib_true_div
            I.lib_contracts = dict(I.__dict__.get('lib_contracts', {}))
            I.lib_contracts[('math', 'ceil')] = self.ceil
            return [self._list, Z(k)], {}, [n >= 1], dict(n=n, num_chunks=k)
        yield Case('nonempty-list', build)

    def ceil(self, I, args, kwargs, node):
        v = args[0]
        if not isinstance(v, CeilDiv):
            raise CheckerError('math.ceil of something that is not a quotient')
        c = I.fresh('ceil', z3.IntSort())
        I.oblige('div-nonzero', v.b != 0, node, extra='divisor is not zero')
        # exact ceiling division for b > 0 (float division is exact below 2**53)
        I.ctx.assume(z3.Implies(v.b > 0, z3.And((c - 1) * v.b < v.a, v.a <= c * v.b)))
        return Z(c)

    def post(self, I, case, args, result):
        n = self._n
        r = self._range
        if r is None or len(r.iterations) != 1:
            return z3.BoolVal(False)
        it = r.iterations[0]
        if len(it['yielded']) != 1 or not isinstance(it['yielded'][0], SliceOf) or it['yielded'][0].base is not self._list:
            return z3.BoolVal(False)          # every iteration yields exactly one slice of the input list
        sl = it['yielded'][0]
        i = it['i']
        # the yielded slices are non-empty, contiguous, in order, and cover the list:
        return z3.And(r.start == 0, r.stop == n,                       # first slice starts at 0, iteration covers the whole list
                      sl.lo == i, sl.hi > sl.lo,                       # slice k starts where the range is, and is not empty
                      z3.Implies(i + r.step < n, sl.hi == i + r.step),  # ... and ends where the next iteration starts
                      z3.Implies(i + r.step >= n, sl.hi == n))         # the last slice ends at the end of the list


# ------------------------------------------------------------------------------ _binarize (numpy through assumed contracts)
class NPMask:
    """1-d boolean numpy array as a function index -> Bool"""
    def __init__(self, length, fn):
        self.length, self.fn = length, fn

    def setitem(self, I, k, v, node):
        if isinstance(k, IndexList):
            if v in (0, False):
                val = z3.BoolVal(False)
            elif v in (1, True):
                val = z3.BoolVal(True)
            else:
                raise CheckerError('mask assigned a non-boolean constant')
            old = self.fn
            # numpy contract: a[idx_list] = c writes c at every listed index and nothing else; listed indices must be in range
            j = z3.Int('any_index')
            I.oblige('bounds', z3.Implies(k.member(j), z3.And(j >= -self.length, j < self.length)), node, extra='every listed index is inside the array')
            self.fn = lambda x, old=old, k=k, val=val: z3.If(k.member(x), val, old(x))
            return
        raise CheckerError('mask indexed with an unmodelled key')


class IndexList:
    def __init__(self, name):
        self.p = z3.Function(name, z3.IntSort(), z3.BoolSort())

    def member(self, j):
        return self.p(j)


class Binarize(Contract):
    rel, qualname = REL, '_binarize'

    def cases(self, I):
        def build(I):
            n = z3.Int('length')
            self._n = n
            self._idx = IndexList('listed')
            I.lib_contracts = dict(I.__dict__.get('lib_contracts', {}))
            I.lib_contracts[('numpy', 'ones')] = self.ones
            I.lib_contracts[('numpy', 'zeros')] = self.zeros
            j = z3.Int('any_index')
            return [self._idx, Z(n)], {}, [n >= 0, z3.ForAll([j], z3.Implies(self._idx.member(j), z3.And(j >= 0, j < n)))], dict(length=n)
        yield Case('indices-in-range', build)

    def _mk(self, I, args, kwargs, node, value):
        import numpy
        dt = kwargs.get('dtype', args[1] if len(args) > 1 else None)
        if dt not in (bool, getattr(numpy, 'bool_', None), getattr(numpy, 'bool', None)):
            raise CheckerError('numpy.ones/zeros with a dtype other than bool is not modelled')
        return NPMask(I.ex(args[0]), lambda x: z3.BoolVal(value))

    def ones(self, I, args, kwargs, node):
        return self._mk(I, args, kwargs, node, True)

    def zeros(self, I, args, kwargs, node):
        return self._mk(I, args, kwargs, node, False)

    def post(self, I, case, args, result):
        if not isinstance(result, NPMask):
            return z3.BoolVal(False)
        j = z3.Int('post_j')
        # result[j] is True exactly for the indices that are NOT listed (these are the cells to overwrite)
        return z3.And(result.length == self._n, z3.Implies(z3.And(j >= 0, j < self._n), result.fn(j) == z3.Not(self._idx.member(j))))
