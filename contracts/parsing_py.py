"""Contracts for depccg/parsing.py (C11: _chunks; C17: _binarize)."""
import z3

from vc.engine import Contract, Case
from vc.pyvc import Z, PyRaise, Env, Foreign, is_native, _Continue, _Break
from vc.sorts import CheckerError

REL = 'depccg/parsing.py'


# ------------------------------------------------------------------------------ symbolic list / slices / range (for _chunks)
class SymListN:
    """a list of symbolic length n (elements opaque)"""
    def __init__(self, n):
        self.n = n

    def length(self, I, node):
        return Z(self.n)

    def slice(self, I, lo, hi, node):
        lo_e = z3.IntVal(0) if lo is None else I.ex(lo)
        hi_e = self.n if hi is None else I.ex(hi)
        # python slice clipping for non-negative bounds (negative bounds are excluded by an obligation)
        I.oblige('slice-nonneg', z3.And(lo_e >= 0, hi_e >= 0), node, extra='slice bounds are not negative (no wrap-around indexing)')
        clip = lambda e: z3.If(e > self.n, self.n, e)
        return SliceOf(self, clip(lo_e), clip(hi_e))


    def slice_step(self, I, lo, hi, step, node):
        # an extended slice takes every step-th element: a contiguous piece of the list only for step 1
        sl = self.slice(I, lo, hi, node)
        st = I.ex(step)
        I.oblige('slice-step', st != 0, node, extra='slice step is not zero (ValueError otherwise)')
        I.oblige('slice-step-positive', st > 0, node, extra='extended slices are analysed for positive steps')
        # normal form: a stretch no longer than the step holds at most its first element - that IS the plain slice [lo : lo + 1]
        short = sl.hi - sl.lo <= st
        sl.hi = z3.If(short, z3.If(sl.hi > sl.lo, sl.lo + 1, sl.lo), sl.hi)
        sl.step = z3.If(short, z3.IntVal(1), st)
        return sl


class SliceOf:
    def __init__(self, base, lo, hi):
        self.base, self.lo, self.hi = base, lo, hi
        self.step = z3.IntVal(1)


class CeilDiv:
    """a / b kept abstract until math.ceil is applied"""
    def __init__(self, a, b):
        self.a, self.b = a, b


class SymRange:
    """range(start, stop, step) with symbolic arguments; iterated by the loop rule `one arbitrary iteration`"""
    def __init__(self, I, args, node):
        a = [I.ex(x) for x in args]
        if len(a) == 1:
            self.start, self.stop, self.step = z3.IntVal(0), a[0], z3.IntVal(1)
        elif len(a) == 2:
            self.start, self.stop, self.step = a[0], a[1], z3.IntVal(1)
        else:
            self.start, self.stop, self.step = a
        I.oblige('range-step', self.step != 0, node, extra='range() step is not zero (ValueError otherwise)')
        self.iterations = []

    def for_loop(self, I, st, env, module, qual):
        if st.orelse:
            raise CheckerError('for/else over a symbolic range')
        # assume step > 0 was established (obligation below); an arbitrary iteration: i = start + j*step, start <= i < stop
        I.oblige('range-step-positive', self.step > 0, st, extra='the loop is analysed for positive steps')
        i = I.fresh('range_i', z3.IntSort())
        j = I.fresh('range_j', z3.IntSort())
        I.ctx.assume(z3.And(j >= 0, i >= self.start, i < self.stop))
        I.assign(st.target, Z(i), env, module)
        n0 = len(I.yields)
        I.exec_block(st.body, env, module, qual)
        self.iterations.append(dict(i=i, yielded=I.yields[n0:]))


def lib_true_div(I, a, b, node):
    return CeilDiv(I.ex(a), I.ex(b))


class Chunks(Contract):
    rel, qualname = REL, '_chunks'

    def cases(self, I):
        def build(I):
            n, k = z3.Int('n'), z3.Int('num_chunks')
            self._n, self._k = n, k
            self._list = SymListN(n)
            I.yields = []
            self._range = None

            def mk(I2, args, node):
                self._range = SymRange(I2, args, node)
                return self._range
            I.sym_range = mk
            I.sym_truediv = lib_true_div
            I.lib_contracts = dict(I.__dict__.get('lib_contracts', {}))
            I.lib_contracts[('math', 'ceil')] = self.ceil
            return [self._list, Z(k)], {}, [n >= 1], dict(n=n, num_chunks=k)
        yield Case('nonempty-list', build)

    def ceil(self, I, args, kwargs, node):
        v = args[0]
        if not isinstance(v, CeilDiv):
            raise CheckerError('math.ceil of something that is not a quotient')
        c = I.fresh('ceil', z3.IntSort())
        I.oblige('div-nonzero', v.b != 0, node, extra='divisor is not zero')
        # exact ceiling division for b > 0 (float division is exact below 2**53)
        I.ctx.assume(z3.Implies(v.b > 0, z3.And((c - 1) * v.b < v.a, v.a <= c * v.b)))
        return Z(c)

    def post(self, I, case, args, result):
        n = self._n
        r = self._range
        if r is None or len(r.iterations) != 1:
            return z3.BoolVal(False)
        it = r.iterations[0]
        if len(it['yielded']) != 1 or not isinstance(it['yielded'][0], SliceOf) or it['yielded'][0].base is not self._list:
            return z3.BoolVal(False)          # every iteration yields exactly one slice of the input list
        sl = it['yielded'][0]
        i = it['i']
        # the yielded slices are non-empty, contiguous, in order, and cover the list:
        return z3.And(r.start == 0, r.stop == n,                       # first slice starts at 0, iteration covers the whole list
                      sl.step == 1,                                    # a contiguous piece (not every k-th element of a longer stretch)
                      sl.lo == i, sl.hi > sl.lo,                       # slice k starts where the range is, and is not empty
                      z3.Implies(i + r.step < n, sl.hi == i + r.step),  # ... and ends where the next iteration starts
                      z3.Implies(i + r.step >= n, sl.hi == n))         # the last slice ends at the end of the list


# ------------------------------------------------------------------------------ _binarize (numpy through assumed contracts)
class NPMask:
    """1-d boolean numpy array as a function index -> Bool"""
    def __init__(self, length, fn):
        self.length, self.fn = length, fn

    def setitem(self, I, k, v, node):
        if isinstance(k, IndexList):
            if v in (0, False):
                val = z3.BoolVal(False)
            elif v in (1, True):
                val = z3.BoolVal(True)
            else:
                raise CheckerError('mask assigned a non-boolean constant')
            old = self.fn
            # numpy contract: a[idx_list] = c writes c at every listed index and nothing else; listed indices must be in range
            j = z3.Int('any_index')
            I.oblige('bounds', z3.Implies(k.member(j), z3.And(j >= -self.length, j < self.length)), node, extra='every listed index is inside the array')
            self.fn = lambda x, old=old, k=k, val=val: z3.If(k.member(x), val, old(x))
            return
        raise CheckerError('mask indexed with an unmodelled key')


class IndexList:
    def __init__(self, name):
        self.p = z3.Function(name, z3.IntSort(), z3.BoolSort())

    def member(self, j):
        return self.p(j)


class Binarize(Contract):
    rel, qualname = REL, '_binarize'

    def cases(self, I):
        def build(I):
            n = z3.Int('length')
            self._n = n
            self._idx = IndexList('listed')
            I.lib_contracts = dict(I.__dict__.get('lib_contracts', {}))
            I.lib_contracts[('numpy', 'ones')] = self.ones
            I.lib_contracts[('numpy', 'zeros')] = self.zeros
            j = z3.Int('any_index')
            return [self._idx, Z(n)], {}, [n >= 0, z3.ForAll([j], z3.Implies(self._idx.member(j), z3.And(j >= 0, j < n)))], dict(length=n)
        yield Case('indices-in-range', build)

    def _mk(self, I, args, kwargs, node, value):
        import numpy
        dt = kwargs.get('dtype', args[1] if len(args) > 1 else None)
        if dt not in (bool, getattr(numpy, 'bool_', None), getattr(numpy, 'bool', None)):
            raise CheckerError('numpy.ones/zeros with a dtype other than bool is not modelled')
        return NPMask(I.ex(args[0]), lambda x: z3.BoolVal(value))

    def ones(self, I, args, kwargs, node):
        return self._mk(I, args, kwargs, node, True)

    def zeros(self, I, args, kwargs, node):
        return self._mk(I, args, kwargs, node, False)

    def post(self, I, case, args, result):
        if not isinstance(result, NPMask):
            return z3.BoolVal(False)
        j = z3.Int('post_j')
        # result[j] is True exactly for the indices that are NOT listed (these are the cells to overwrite)
        return z3.And(result.length == self._n, z3.Implies(z3.And(j >= 0, j < self._n), result.fn(j) == z3.Not(self._idx.member(j))))


# ------------------------------------------------------------------------------ apply_category_filters (C17) over symbolic collections
I_, B_, R_ = z3.IntSort(), z3.BoolSort(), z3.RealSort()
WORD = z3.Function('acf_word', I_, I_, I_)              # word (identity) of token i of sentence s
CATAT = z3.Function('acf_category_at', I_, I_)          # category (identity) at position j of `categories`
INDICT = z3.Function('acf_in_dict', I_, B_)             # the word is a key of category_dict
LISTS = z3.Function('acf_lists', I_, I_, B_)            # category c is in category_dict[w]
IDX = z3.Function('acf_category_id', I_, I_)            # category_ids[c]
TS = z3.Function('acf_tag_score', I_, I_, I_, R_)       # tag_scores of sentence s at (row, column), before the call
SLEN = z3.Function('acf_len', I_, I_)


class _M:
    def __init__(self, fn):
        self.fn = fn

    def call(self, I, args, kwargs, node):
        return self.fn(I, args, kwargs, node)


class SymCategories:
    """the list `categories`: NT pairwise different categories CATAT(0..NT-1)"""
    def __init__(self, nt):
        self.nt = nt

    def length(self, I, node):
        return Z(self.nt)

    def enumerate(self, I, start, node):
        if start != 0:
            raise CheckerError('enumerate(categories, start != 0)')
        return SymEnumCategories(self)


class SymEnumCategories:
    def __init__(self, cats):
        self.cats = cats

    def _contract(self, I, node):
        # contract of {cat: index for index, cat in enumerate(categories)} / the equivalent loop (later entries overwrite earlier ones):
        # the category at position j maps to a position >= j holding the same category
        j = z3.Int('j!dc')
        nt = self.cats.nt
        k = IDX(CATAT(j))
        I.ctx.assume(z3.ForAll([j], z3.Implies(z3.And(j >= 0, j < nt), z3.And(k >= j, k < nt, CATAT(k) == CATAT(j))), patterns=[CATAT(j)]))
        inv = z3.ForAll([j], z3.Implies(z3.And(j >= 0, j < nt), IDX(CATAT(j)) == j), patterns=[CATAT(j)])
        I.oblige('lemma', inv, node, extra='idx-inverse: with pairwise different categories, category_ids[categories[j]] = j')
        I.ctx.assume(inv)
        return SymIndexMap(self.cats)

    def for_loop(self, I, st, env, module, qual):
        p = I.fresh('category_position', I_)
        holder = {}

        def bind():
            I.ctx.assume(z3.And(p >= 0, p < self.cats.nt))
            I.assign(st.target, (Z(p), Z(CATAT(p))), env, module)

        def finish(k, v):
            ok = isinstance(k, Z) and isinstance(v, Z) and z3.is_true(z3.simplify(k.e == CATAT(p))) and z3.is_true(z3.simplify(v.e == p))
            if not ok:
                raise CheckerError('loop over enumerate(categories) does not store category -> index')
            return self._contract(I, st)
        _fill_loop(I, st, env, module, qual, bind, finish)

    def dict_comprehension(self, I, e, env, module):
        import ast
        g = e.generators[0]
        # recognised: {cat: index for index, cat in enumerate(categories)}
        ok = (isinstance(g.target, ast.Tuple) and len(g.target.elts) == 2 and all(isinstance(x, ast.Name) for x in g.target.elts) and not g.ifs
              and isinstance(e.key, ast.Name) and isinstance(e.value, ast.Name) and e.key.id == g.target.elts[1].id and e.value.id == g.target.elts[0].id)
        if not ok:
            raise CheckerError('dict comprehension over enumerate(categories) is not {cat: index for index, cat in enumerate(categories)}')
        return self._contract(I, e)


class RecDict:
    """an empty dict that a loop over a symbolic collection fills: the one store of the arbitrary iteration is recorded"""
    def __init__(self):
        self.stores = []

    def setitem(self, I, k, v, node):
        self.stores.append((k, v))

    def getitem(self, I, k, node):
        raise CheckerError('a dictionary being filled by the loop is read inside the loop')

    def contains(self, I, item, node):
        raise CheckerError('a dictionary being filled by the loop is queried inside the loop')


def _empty_dicts(env):
    """names (searched through the enclosing scopes of the function) bound to an empty concrete dict: candidates for being filled by a loop"""
    out = {}
    e = env
    while e is not None and e.parent is not None:
        for k, v in e.vars.items():
            if isinstance(v, dict) and not v and k not in out:
                out[k] = e
        e = e.parent
    return out


def _fill_loop(I, st, env, module, qual, bind, finish):
    """`for <target> in <symbolic collection>: D[key] = value` (D an empty dict before the loop): the body runs once for an ARBITRARY element with local
    assumptions; D becomes the symbolic map finish(key, value) describes.  The comprehension form and the loop form of the same map meet here."""
    if st.orelse:
        raise CheckerError('for/else')
    cands = _empty_dicts(env)
    for name, scope in cands.items():
        scope.vars[name] = RecDict()
    n0 = len(I.ctx.pc)
    bind()
    try:
        I.exec_block(st.body, env, module, qual)
    except _Continue:
        pass
    except _Break:
        raise CheckerError('break in a loop that fills a dictionary')
    del I.ctx.pc[n0:]
    for name, scope in cands.items():
        rd = scope.vars[name]
        if not isinstance(rd, RecDict):
            raise CheckerError('a dictionary candidate was rebound inside the loop')
        if not rd.stores:
            scope.vars[name] = {}
        elif len(rd.stores) == 1:
            scope.vars[name] = finish(*rd.stores[0])
        else:
            raise CheckerError('a loop over a symbolic collection stores twice into one dictionary')


class SymIndexMap:
    """category_ids: a category of the list maps to its (last) position; anything else raises KeyError"""
    def __init__(self, cats):
        self.cats = cats

    def getitem(self, I, k, node):
        c = I.ex(k)
        j = z3.Int('j!im')
        nt = self.cats.nt
        present = z3.Exists([j], z3.And(j >= 0, j < nt, CATAT(j) == c))
        if not I.branch(present, node):
            raise PyRaise('KeyError', 'category not in the inventory', node)
        i = IDX(c)
        I.ctx.assume(z3.And(i >= 0, i < nt, CATAT(i) == c, z3.ForAll([j], z3.Implies(z3.And(j > i, j < nt), CATAT(j) != c))))
        return Z(i)


class SymWordDict:
    """category_dict: word -> list of categories"""
    def getattr(self, I, name, node):
        if name == 'items':
            return _M(lambda I, args, kwargs, node: SymWordItems())
        raise CheckerError(f'category_dict.{name}')


class SymCatsOf:
    """category_dict[w]: the categories listed for the word w"""
    def __init__(self, w):
        self.w = w

    def comprehension(self, I, e, env, module):
        import ast
        g = e.generators[0]
        if g.ifs or not isinstance(g.target, ast.Name):
            raise CheckerError('list comprehension over the categories of a word: unexpected shape')
        # evaluate the element expression once for an ARBITRARY listed category c
        # (the assumptions made for that element are local to its evaluation: obligations raised there keep them, the path after the comprehension does not -
        #  an empty list evaluates no element)
        c = I.fresh('listed_cat', I_)
        n0 = len(I.ctx.pc)
        I.ctx.assume(LISTS(self.w, c))
        sub = Env(env)
        sub.set(g.target.id, Z(c))
        v = I.eval(e.elt, sub, module)
        del I.ctx.pc[n0:]
        return SymIndexListOf(self.w, c, I.ex(v))


class SymIndexListOf:
    """[f(cat) for cat in cats]: member(j) iff some listed category c has f(c) = j; f was evaluated for the arbitrary listed category c0 giving v0"""
    def __init__(self, w, c0, v0):
        self.w, self.c0, self.v0 = w, c0, v0

    def value_for(self, c):
        return z3.substitute(self.v0, (self.c0, c))

    def member(self, j):
        c = z3.Int('c!il')
        return z3.Exists([c], z3.And(LISTS(self.w, c), self.value_for(c) == j))


class SymWordItems:
    def dict_comprehension(self, I, e, env, module):
        import ast
        g = e.generators[0]
        ok = isinstance(g.target, ast.Tuple) and len(g.target.elts) == 2 and all(isinstance(x, ast.Name) for x in g.target.elts) and not g.ifs and isinstance(e.key, ast.Name) and e.key.id == g.target.elts[0].id
        if not ok:
            raise CheckerError('dict comprehension over category_dict.items() is not {word: f(cats) for word, cats in ...}')
        # the value expression is evaluated once for an ARBITRARY key w of the dictionary
        # (local assumptions as above: an empty dictionary evaluates no value)
        w = I.fresh('dict_word', I_)
        n0 = len(I.ctx.pc)
        I.ctx.assume(INDICT(w))
        sub = Env(env)
        sub.set(g.target.elts[0].id, Z(w))
        sub.set(g.target.elts[1].id, SymCatsOf(w))
        v = I.eval(e.value, sub, module)
        del I.ctx.pc[n0:]
        if not isinstance(v, NPMask):
            raise CheckerError('the new dictionary value is not a mask')
        return SymMaskDict(w, v)


def _word_items_for_loop(self, I, st, env, module, qual):
    w = I.fresh('dict_word', I_)

    def bind():
        I.ctx.assume(INDICT(w))
        I.assign(st.target, (Z(w), SymCatsOf(w)), env, module)

    def finish(k, v):
        if not (isinstance(k, Z) and z3.is_true(z3.simplify(k.e == w)) and isinstance(v, NPMask)):
            raise CheckerError('loop over category_dict.items() does not store word -> mask')
        return SymMaskDict(w, v)
    _fill_loop(I, st, env, module, qual, bind, finish)


SymWordItems.for_loop = _word_items_for_loop


class SymMaskDict:
    """the rebuilt category_dict: same keys; the mask of the arbitrary key w0 is known, the mask of any other key is that mask with w0 renamed"""
    def __init__(self, w0, mask0):
        self.w0, self.mask0 = w0, mask0

    def contains(self, I, item, node):
        return Z(INDICT(I.ex(item)))

    def getitem(self, I, k, node):
        w = I.ex(k)
        if not I.branch(INDICT(w), node):
            raise PyRaise('KeyError', 'word', node)
        m0, w0 = self.mask0, self.w0
        return NPMask(m0.length, lambda x: z3.substitute(m0.fn(x), (w0, w)))


class SymDoc:
    def __init__(self, ns):
        self.ns = ns

    def zip_with(self, I, others, node):
        if len(others) != 1 or not isinstance(others[0], SymScores):
            raise CheckerError('zip(doc, ...) with something else than score_results')
        return SymSentenceLoop(self, others[0])


class SymScores:
    def __init__(self, ns, nt):
        self.ns, self.nt = ns, nt
        self.writes = []

    def getitem(self, I, k, node):
        if k == 0:
            return SymScoreResult(self, z3.IntVal(0))
        raise CheckerError('score_results[k] for k != 0')


class SymScoreResult:
    def __init__(self, scores, s):
        self.scores, self.s = scores, s

    def getattr(self, I, name, node):
        if name == 'tag_scores':
            return SymTagMatrix(self.scores, self.s)
        raise CheckerError(f'ScoringResult.{name}')

    def unpack(self, I, n, node):
        if n != 2:
            raise PyRaise('ValueError', 'unpack', node)
        return [SymTagMatrix(self.scores, self.s), 'dep_scores (not touched)']


class SymTagMatrix:
    def __init__(self, scores, s):
        self.scores, self.s = scores, s

    def getattr(self, I, name, node):
        if name == 'shape':
            return (Z(SLEN(self.s)), Z(self.scores.nt))
        raise CheckerError(f'tag_scores.{name}')

    def setitem(self, I, k, v, node):
        # numpy contract: a[i, mask] = v writes v at the masked columns of row i and nothing else
        if not (isinstance(k, tuple) and len(k) == 2 and isinstance(k[1], NPMask)):
            raise CheckerError('tag_scores indexed with something else than [row, mask]')
        row = I.ex(k[0])
        I.oblige('bounds', z3.And(row >= 0, row < SLEN(self.s), k[1].length == self.scores.nt), node, extra='row inside the matrix, mask as long as a row')
        self.scores.writes.append((self.s, row, k[1], I.ex(v) if not isinstance(v, float) else z3.RealVal(v)))


class SymSentenceLoop:
    """for tokens, (tag_scores, _) in zip(doc, score_results): one ARBITRARY sentence (iterations touch different sentences)"""
    def __init__(self, doc, scores):
        self.doc, self.scores = doc, scores

    def for_loop(self, I, st, env, module, qual):
        if st.orelse:
            raise CheckerError('for/else')
        s = I.fresh('sentence', I_)
        I.ctx.assume(z3.And(s >= 0, s < self.doc.ns, SLEN(s) >= 0))
        self.scores.iter_s = s
        I.assign(st.target, (SymSentence(s), SymScoreResult(self.scores, s)), env, module)
        try:
            I.exec_block(st.body, env, module, qual)
        except _Continue:
            pass


class SymSentence:
    def __init__(self, s):
        self.s = s

    def enumerate(self, I, start, node):
        if start != 0:
            raise CheckerError('enumerate(tokens, start != 0)')
        return SymTokenLoop(self.s)


class SymTokenLoop:
    """for index, token in enumerate(tokens): one ARBITRARY token (iteration i touches row i only)"""
    def __init__(self, s):
        self.s = s

    def for_loop(self, I, st, env, module, qual):
        i = I.fresh('token_index', I_)
        I.ctx.assume(z3.And(i >= 0, i < SLEN(self.s)))
        I.ctx.iter_i = i
        I.assign(st.target, (Z(i), SymTok(self.s, i)), env, module)
        try:
            I.exec_block(st.body, env, module, qual)
        except _Continue:
            pass


class SymTok:
    def __init__(self, s, i):
        self.s, self.i = s, i

    def getattr(self, I, name, node):
        if name == 'word':
            return Z(WORD(self.s, self.i))
        raise CheckerError(f'token.{name}')


class TypeCheck(Contract):
    """_type_check for a list of sentences with matching score objects returns its arguments (shape clauses: bounded run)"""
    rel, qualname = REL, '_type_check'

    def apply(self, I, args, kwargs, node):
        return (args[0], args[1])


class BinarizeAt(Binarize):
    """_binarize at a call site: its proved contract"""
    def apply(self, I, args, kwargs, node):
        idx, n = args
        if not hasattr(idx, 'member'):
            raise CheckerError('_binarize called with something that is not an index list')
        n = I.ex(n)
        j = z3.Int('any_index')
        I.oblige('pre', z3.ForAll([j], z3.Implies(idx.member(j), z3.And(j >= 0, j < n))), node, extra='precondition of _binarize: every listed index is inside the array')
        return NPMask(n, lambda x: z3.Not(idx.member(x)))


class ApplyCategoryFilters(Contract):
    rel, qualname = REL, 'apply_category_filters'

    def cases(self, I):
        def build(I):
            ns, nt = z3.Int('n_sentences'), z3.Int('n_tags')
            doc, scores = SymDoc(ns), SymScores(ns, nt)
            self._pre = (doc, scores, ns, nt)
            a, b, w, c = z3.Int('a!d'), z3.Int('b!d'), z3.Int('w!d'), z3.Int('c!d')
            pre = [ns >= 1, nt >= 1,
                   # the inventory lists pairwise different categories
                   z3.ForAll([a, b], z3.Implies(z3.And(a >= 0, a < nt, b >= 0, b < nt, a != b), CATAT(a) != CATAT(b))),
                   # every dictionary category belongs to the inventory (data clause of C17: exhaustive over the shipped files in the bounded part)
                   z3.ForAll([w, c], z3.Implies(z3.And(INDICT(w), LISTS(w, c)), z3.Exists([a], z3.And(a >= 0, a < nt, CATAT(a) == c))))]
            lnv = z3.Real('large_negative_value')
            self._lnv = lnv
            return [doc, scores, SymCategories(nt), SymWordDict(), Z(lnv)], {}, pre, None
        yield Case('many-sentences', build)

    def post(self, I, case, args, result):
        doc, scores, ns, nt = self._pre
        if not (isinstance(result, tuple) and len(result) == 2 and result[0] is doc and result[1] is scores):
            return [('returns-arguments', z3.BoolVal(False))]
        s, i = getattr(scores, 'iter_s', None), getattr(I.ctx, 'iter_i', None)
        if s is None or i is None:
            return [('loops', z3.BoolVal(False))]
        # the arbitrary iteration (s, i) made at most one write, to its own row of its own sentence
        ws = scores.writes
        frame = z3.BoolVal(all(w_[0] is s or z3.is_true(z3.simplify(w_[0] == s)) for w_ in ws) and len(ws) <= 1)
        j, c = z3.Int('j!post'), z3.Int('c!post')
        w = WORD(s, i)
        listed = LISTS(w, CATAT(j))          # "the category of column j is listed for the word"
        want = z3.If(z3.And(INDICT(w), z3.Not(listed)), self._lnv, TS(s, i, j))
        if ws:
            _, row, mask, val = ws[0]
            got = z3.If(z3.And(row == i, mask.fn(j)), val, TS(s, i, j))
            rowok = row == i
        else:
            got, rowok = TS(s, i, j), z3.BoolVal(True)
        return [('returns-arguments', z3.BoolVal(True)), ('frame', z3.And(frame, rowok)),
                ('cell', z3.ForAll([j], z3.Implies(z3.And(j >= 0, j < nt), got == want)))]


# ------------------------------------------------------------------------------ _type_check (C11: shapes are rejected before any parsing)
NTOK = z3.Function('tc_num_tokens', I_, I_)           # len(doc[s])
TROWS = z3.Function('tc_tag_rows', I_, I_)            # tag_scores.shape of score_results[s]
TCOLS = z3.Function('tc_tag_cols', I_, I_)
DROWS = z3.Function('tc_dep_rows', I_, I_)
DCOLS = z3.Function('tc_dep_cols', I_, I_)


class TCDoc:
    """doc: a non-empty list of non-empty lists of Token"""
    def __init__(self, n):
        self.n = n

    def isinstance_of(self, I, t, node):
        return t is list

    def length(self, I, node):
        return Z(self.n)

    def getitem(self, I, k, node):
        if k == 0:
            return TCSentence(z3.IntVal(0))
        raise CheckerError('doc[k] for k != 0')

    def zip_with(self, I, others, node):
        if len(others) != 1 or not isinstance(others[0], TCScores):
            raise CheckerError('zip(doc, ...) with something else than score_results')
        return TCLoop(self, others[0])


class TCSentence:
    def __init__(self, s):
        self.s = s

    def isinstance_of(self, I, t, node):
        return t is list

    def length(self, I, node):
        return Z(NTOK(self.s))

    def getitem(self, I, k, node):
        if k == 0:
            return TCToken()
        raise CheckerError('doc[0][k] for k != 0')


class TCToken:
    def isinstance_of(self, I, t, node):
        return getattr(t, 'name', None) == 'Token'


class TCScores:
    def __init__(self, n):
        self.n = n

    def isinstance_of(self, I, t, node):
        return t is list

    def length(self, I, node):
        return Z(self.n)

    def getitem(self, I, k, node):
        if k == 0:
            return TCScore(z3.IntVal(0))
        raise CheckerError('score_results[k] for k != 0')


class TCScore:
    def __init__(self, s):
        self.s = s

    def isinstance_of(self, I, t, node):
        return getattr(t, 'name', None) == 'ScoringResult'

    def unpack(self, I, n, node):
        if n != 2:
            raise PyRaise('ValueError', 'unpack', node)
        return [TCMatrix(TROWS(self.s), TCOLS(self.s)), TCMatrix(DROWS(self.s), DCOLS(self.s))]


class TCMatrix:
    def __init__(self, rows, cols):
        self.rows, self.cols = rows, cols

    def getattr(self, I, name, node):
        if name == 'shape':
            return (Z(self.rows), Z(self.cols))
        raise CheckerError(f'ndarray.{name}')


class TCLoop:
    """for tokens, (tag_scores, dep_scores) in zip(doc, score_results): one ARBITRARY sentence; a raise in it ends the function, normal completion lets
    the function go on knowing the body completed for every sentence (recorded as the completion condition of the arbitrary one)"""
    def __init__(self, doc, scores):
        self.doc, self.scores = doc, scores

    def for_loop(self, I, st, env, module, qual):
        s = I.fresh('sentence', I_)
        I.ctx.assume(z3.And(s >= 0, s < self.doc.n))
        I.ctx.tc_sentence = s
        I.assign(st.target, (TCSentence(s), TCScore(s)), env, module)
        I.exec_block(st.body, env, module, qual)


def fits(s, ntags):
    return z3.And(TCOLS(s) == ntags, TROWS(s) == NTOK(s), DROWS(s) == NTOK(s), DCOLS(s) == NTOK(s) + 1)


class TypeCheckFull(Contract):
    """_type_check on a list of sentences and a list of score objects: raises RuntimeError iff the counts differ or some sentence does not fit its matrices"""
    rel, qualname = REL, '_type_check'

    def cases(self, I):
        def build(I):
            nd, ns, nt = z3.Int('n_doc'), z3.Int('n_scores'), z3.Int('n_tags')
            doc, scores = TCDoc(nd), TCScores(ns)
            self._pre = (doc, scores, nd, ns, nt)
            return [doc, scores, SymCategories(nt)], {}, [nd >= 1, ns >= 1, nt >= 0, NTOK(z3.IntVal(0)) >= 1], None
        yield Case('lists', build)

    def post(self, I, case, args, result):
        doc, scores, nd, ns, nt = self._pre
        s = getattr(I.ctx, 'tc_sentence', None)
        ok = isinstance(result, tuple) and len(result) == 2 and result[0] is doc and result[1] is scores
        if s is None or not ok:
            return [('returns-arguments', z3.BoolVal(False))]
        # normal return: the counts agree and the arbitrary sentence fits (hence every sentence does)
        return [('returns-arguments', z3.BoolVal(True)), ('accepted-only-if-fitting', z3.And(nd == ns, fits(s, nt)))]

    def raises(self, I, case, args, exc):
        doc, scores, nd, ns, nt = self._pre
        if exc.exc != 'RuntimeError':
            return None
        s = getattr(I.ctx, 'tc_sentence', None)
        # a RuntimeError is raised only for a real mismatch
        return z3.Or(nd != ns, z3.Not(fits(s, nt))) if s is not None else nd != ns


def run_call_order(prop):
    """depccg/parsing.py::run: the shape check happens before anything that parses.  Three-valued, decided on the ast in statement order:
      failed      a parsing action (depccg._parsing.run, a worker pool, _chunks, apply_async) is reached textually before any call of _type_check, or _type_check is
                  never called;
      discharged  the first call of run is _type_check on run's own first three parameters (the arguments as given);
      unknown     anything else (the check may have moved into a helper: not recognised is not a violation)."""
    import ast
    from vc.pyvc import parse_source
    tree = parse_source(REL)
    fn = [n for n in tree.body if isinstance(n, ast.FunctionDef) and n.name == 'run']
    name = f'{prop}/{REL}::run/call-order[_type_check first]'

    def rec(verdict, why):
        return [dict(name=name, kind='call-site', verdict=verdict, backend='ast', ms=0, inputs=None, detail=why, witness=dict(function=f'{REL}::run'))]
    if not fn:
        return rec('unknown', 'run not found')
    fn = fn[0]
    params = [a.arg for a in fn.args.posonlyargs + fn.args.args][:3]
    calls = []
    for st in fn.body:
        if isinstance(st, ast.FunctionDef):
            continue
        for n in ast.walk(st):
            if isinstance(n, ast.Call):
                calls.append((n.lineno, n.col_offset, ast.unparse(n.func), n))
    calls.sort(key=lambda c: (c[0], c[1]))
    PARSING = ('depccg._parsing.run', '_parsing.run', 'Pool', '_chunks', 'pool.apply_async', 'apply_async')
    first_check = next((i for i, c in enumerate(calls) if c[2] == '_type_check'), None)
    first_parse = next((i for i, c in enumerate(calls) if c[2] in PARSING or c[2].endswith('.apply_async')), None)
    if first_check is None:
        helpers = [c[2] for c in calls[:3]]
        return rec('unknown' if first_parse is None or (calls and calls[0][2] not in PARSING) else 'failed',
                   f'run does not call _type_check itself (first calls: {helpers}): not recognised' if first_parse is None or (calls and calls[0][2] not in PARSING)
                   else 'run starts parsing without checking the shapes of its arguments')
    if first_parse is not None and first_parse < first_check:
        return rec('failed', f'run reaches {calls[first_parse][2]} (line {calls[first_parse][0]}) before _type_check (line {calls[first_check][0]})')
    c = calls[first_check][3]
    args_ok = not c.keywords and [ast.unparse(a) for a in c.args] == params
    if first_check == 0 and args_ok:
        return rec('discharged', 'run checks the shapes of its arguments, as given, before anything else (no parsing call, no worker pool before _type_check returns)')
    return rec('unknown', f'_type_check is called after {[x[2] for x in calls[:first_check]]} / with {[ast.unparse(a) for a in c.args]}: not recognised as `the arguments as given, first`')
