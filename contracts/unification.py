"""Contracts for depccg/unification.py (C06; callee contract for the grammars, C03/C04/C14).

Spec (from the statement of C06):
  Match(px, py, x, y)  :=  shape(px, x) /\\ shape(py, y)
                           /\\ every variable stands for sub-categories that are identical up to features
                           /\\ for every variable v shared by the two patterns:  AC(x-binding(v), y-binding(v))
  AC(a, b)             :=  forall i. 0 <= i < nleaves(a) /\\ i < nleaves(b)  ==>  compat(leaf(a, i), leaf(b, i))
  compat(f, g)         :=  unary:  f = g  or one side is absent / 'nb' / the variable 'X'
                           three-part: f = g, or same keys and in one direction every component is equal or a variable
A pattern slash '|' matches every slash, an input slash '|' matches every pattern slash.
"""
import ast
import z3

from vc.engine import Contract, Case, Lemma
from vc.pyvc import Z, Obj, PyRaise, PathDone, Env, explore, PathCtx, _Return, _Continue, _Break, is_native, Foreign
from vc.sorts import CheckerError, parse_source

REL = 'depccg/unification.py'


# ------------------------------------------------------------------------------ spec layer
def isvar(w, f):
    U, T = 'UnaryFeature', 'TernaryFeature'
    X = z3.StringVal('X')
    return z3.If(w.recog(U)(f), w.acc(U, 'value')(f) == w.OptStr.SomeS(X),
                 z3.Or(*[z3.PrefixOf(X, w.acc(T, f'kv{i}_1')(f)) for i in (1, 2, 3)]))


def ignorable(w, f):
    U = 'UnaryFeature'
    v = w.acc(U, 'value')(f)
    return z3.And(w.recog(U)(f), z3.Or(v == w.OptStr.NoneS, v == w.OptStr.SomeS(z3.StringVal('nb'))))


def mixed(w, f, g):
    U = 'UnaryFeature'
    return w.recog(U)(f) != w.recog(U)(g)


def compat(w, f, g):
    U, T = 'UnaryFeature', 'TernaryFeature'
    X = z3.StringVal('X')
    un = z3.Or(f == g, isvar(w, f), ignorable(w, f), isvar(w, g), ignorable(w, g))

    def dom(a, b):
        return z3.And(*[z3.Or(w.acc(T, f'kv{i}_1')(a) == w.acc(T, f'kv{i}_1')(b), z3.PrefixOf(X, w.acc(T, f'kv{i}_1')(a))) for i in (1, 2, 3)])
    keys = z3.And(*[w.acc(T, f'kv{i}_0')(f) == w.acc(T, f'kv{i}_0')(g) for i in (1, 2, 3)])
    te = z3.Or(f == g, z3.And(keys, z3.Or(dom(f, g), dom(g, f))))
    # a unary feature that is absent / nb / X is compatible with anything (mixed systems are outside the precondition)
    mx = z3.Or(z3.And(w.recog(U)(f), z3.Or(isvar(w, f), ignorable(w, f))), z3.And(w.recog(U)(g), z3.Or(isvar(w, g), ignorable(w, g))))
    return z3.If(z3.And(w.recog(U)(f), w.recog(U)(g)), un, z3.If(z3.And(w.recog(T)(f), w.recog(T)(g)), te, mx))


def AC_body(w, a, b, i):
    return z3.Implies(z3.And(i >= 0, i < w.nleaves(a), i < w.nleaves(b)), compat(w, w.leaf(a, i), w.leaf(b, i)))


def AC(w, a, b):
    """uninterpreted at use sites (opaque); its definition AC(a,b) <=> forall i. AC_body is unfolded by hand where needed"""
    return z3.Function('AC', w.Cat, w.Cat, z3.BoolSort())(a, b)


def AC_def_forall(w, a, b):
    i = z3.Int('ac_i')
    return z3.ForAll([i], AC_body(w, a, b, i))


def pattern_py(w, term):
    """concrete pattern term -> ('atom', name) | ('fun', l, slash, r)"""
    t = w.to_py(term)

    def conv(t):
        if t[0] == 'Atom':
            return ('atom', t[1])
        return ('fun', conv(t[1]), t[2], conv(t[3]))
    return conv(t)


def pattern_of_text(text):
    """independent reader for pattern texts (single letters, round brackets, one slash per level)"""
    import re
    toks = [t for t in re.split(r'([()/\\|])', text.replace(' ', '')) if t]
    pos = 0

    def operand():
        nonlocal pos
        if toks[pos] == '(':
            pos += 1
            e = expr()
            if toks[pos] != ')':
                raise CheckerError(f'bad pattern text {text}')
            pos += 1
            return e
        v = toks[pos]
        pos += 1
        return ('atom', v)

    def expr():
        nonlocal pos
        l = operand()
        if pos < len(toks) and toks[pos] in '/\\|':
            s = toks[pos]
            pos += 1
            return ('fun', l, s, operand())
        return l
    e = expr()
    if pos != len(toks):
        raise CheckerError(f'bad pattern text {text}')
    return e


def spec_match(w, p, t):
    """shape condition and the bindings (in scan order) of pattern p against the symbolic category t"""
    if p[0] == 'atom':
        return z3.BoolVal(True), [(p[1], t)]
    _, pl, ps, pr = p
    L, R, SL = w.acc('Functor', 'left'), w.acc('Functor', 'right'), w.acc('Functor', 'slash')
    slash_ok = z3.BoolVal(True) if ps == '|' else z3.Or(SL(t) == z3.StringVal(ps), SL(t) == z3.StringVal('|'))
    cl, bl = spec_match(w, pl, L(t))
    cr, br = spec_match(w, pr, R(t))
    return z3.And(w.recog('Functor')(t), slash_ok, cl, cr), bl + br


def match_spec(w, px, py, x, y, ac=None):
    """returns (Match formula, bindings {var: last bound term}, shared vars [(v, tx, ty)])"""
    ac = ac or (lambda a, b: AC(w, a, b))
    cx, bx = spec_match(w, px, x)
    cy, by = spec_match(w, py, y)
    conj = [cx, cy]
    last = {}
    for v, t in bx + by:
        if v in last:
            conj.append(w.strip(t) == w.strip(last[v]))
        last[v] = t
    lx, ly = {}, {}
    for v, t in bx:
        lx[v] = t
    for v, t in by:
        ly[v] = t
    shared = [(v, lx[v], ly[v]) for v in lx if v in ly]
    for v, tx, ty in shared:
        conj.append(ac(tx, ty))
    return z3.And(*conj), last, shared


def inv_m(w, M, x, y):
    """INV_M(M)(f): an entry of the mapping has a variable feature as key and a feature of x or y as value"""
    def at(f):
        e = M[f]
        return z3.Implies(w.OptFeat.is_SomeF(e), z3.And(isvar(w, f), z3.Or(w.hasfeat(x, w.OptFeat.f(e)), w.hasfeat(y, w.OptFeat.f(e)))))
    return at


def inv_m_forall(w, M, x, y):
    f = z3.Const('invm_f', w.Feat)
    return z3.ForAll([f], inv_m(w, M, x, y)(f))


# ------------------------------------------------------------------------------ symbolic containers
class SymMap:
    """dict keyed by features: z3 array Feat -> OptFeat (sound for dict semantics given C13: hash/eq coherent)"""
    def __init__(self, arr):
        self.arr = arr

    def setitem(self, I, k, v, node):
        if not (isinstance(k, Z) and I.sort_name(k) == 'Feat' and isinstance(v, Z) and I.sort_name(v) == 'Feat'):
            raise CheckerError('mapping: only feature -> feature entries are modelled')
        self.arr = z3.Store(self.arr, k.e, I.w.OptFeat.SomeF(v.e))

    def contains(self, I, item, node):
        if isinstance(item, Z) and I.sort_name(item) == 'Feat':
            return I.wrap(I.w.OptFeat.is_SomeF(self.arr[item.e]))
        return False

    def getitem(self, I, k, node):
        if not (isinstance(k, Z) and I.sort_name(k) == 'Feat'):
            raise PyRaise('KeyError', 'non-feature key', node)
        if not I.branch(I.w.OptFeat.is_SomeF(self.arr[k.e]), node):
            raise PyRaise('KeyError', 'feature not in mapping', node)
        return I.wrap(I.w.OptFeat.f(self.arr[k.e]))


class KeyVal:
    """a dictionary key of x_features / y_features: plain name, or name + position index"""
    def __init__(self, name, idx=None):
        self.name, self.idx = name, idx


class IndexedFamily:
    """the entries  f'{v}{i}' -> feature  of one dict for one fixed prefix v, as a function Int -> OptFeat
    (kept as a python closure over z3 terms: no array/lambda terms reach the solver)"""
    def __init__(self, prefix, sel):
        self.prefix, self.sel = prefix, sel

    def _store(self, I, idx, v):
        old = self.sel
        self.sel = lambda j, old=old, idx=idx, v=v: z3.If(j == idx, I.w.OptFeat.SomeF(v), old(j))

    def setitem(self, I, k, v, node):
        from vc.pyvc import FString, SymIntStr
        if isinstance(k, FString) and len(k.parts) == 2 and isinstance(k.parts[1], SymIntStr) and I._strish(k.parts[0]):
            same = I.py_eq(k.parts[0], self.prefix, node)
            if same is not True and not (isinstance(same, Z) and z3.is_true(z3.simplify(same.e))):
                raise CheckerError('scan_deep writes a key with another prefix')
            self._store(I, k.parts[1].z.e, v.e)
            return
        raise CheckerError(f'key {k!r} is not of the form prefix+index')


class FeatDict:
    """x_features / y_features: plain entries name -> feature, deep families name -> category t (entries name+i -> leaf(t, i))"""
    def __init__(self):
        self.plain = {}
        self.deep = {}

    def setitem(self, I, k, v, node):
        if isinstance(k, str):
            if k in self.deep or k in self.plain:
                raise CheckerError(f'pattern variable {k} occurs twice on one side: not modelled')
            self.plain[k] = v
            return
        raise CheckerError('symbolic key stored outside scan_deep')

    def getitem(self, I, k, node):
        if isinstance(k, KeyVal):
            if k.idx is None:
                return self.plain[k.name]
            t = self.deep[k.name]
            return I.wrap(I.w.leaf(t, k.idx))
        raise CheckerError('feature dictionary read with an unmodelled key')

    def getattr(self, I, name, node):
        if name == 'keys':
            return _Thunk(lambda: KeyView(self))
        raise CheckerError(f'dict.{name} on a feature dictionary is not modelled')


class _Thunk:
    def __init__(self, fn):
        self.fn = fn

    def call(self, I, args, kwargs, node):
        return self.fn()


class KeyView:
    def __init__(self, fd):
        self.fd = fd

    def to_set(self, I, node):
        return self


class MetaVarSet:
    """set(x_features.keys()) & set(y_features.keys())"""
    ordered = False

    def sorted(self, I, node):
        o = MetaVarSet(self.fx, self.fy)
        o.ordered = True          # sorted(...): a deterministic order; the loop rule itself covers every order
        return o

    def __init__(self, fx, fy):
        self.fx, self.fy = fx, fy
        self.names = [('plain', n) for n in fx.plain if n in fy.plain] + [('deep', n) for n in fx.deep if n in fy.deep]

    def length(self, I, node):
        if not self.names:
            return 0
        if all(k == 'plain' for k, _ in self.names):
            return len(self.names)
        n = I.fresh('n_meta_vars', z3.IntSort())
        I.ctx.assume(n >= 1)      # a deep family of both sides shares at least index 0 (nleaves >= 1, lemma nleaves_positive)
        return Z(n)

    # --- the loop rule: the body is summarised once over an arbitrary key (features a, b), see loop_summary
    def for_loop(self, I, st, env, module, qual):
        if not self.names:
            I.exec_block(st.orelse, env, module, qual)
            return
        obj = env.lookup('self')
        w = I.w
        x, y = I.unif_inputs
        summ = loop_summary(I, st, env, module, qual)
        summ['unordered_uses'] = summ.get('unordered_uses', 0) + (0 if self.ordered else 1)
        # (1) some iteration leaves the function early (return / raise)
        for gi, g in enumerate(summ['early']):
            for kind, name in self.names:
                if not I.branch(I.fresh(f'early{gi}_{name}', z3.BoolSort()), st):
                    continue
                if kind == 'plain':
                    key = KeyVal(name)
                else:
                    i = I.fresh('key_index', z3.IntSort())
                    I.ctx.assume(z3.And(i >= 0, i < w.nleaves(self.fx.deep[name]), i < w.nleaves(self.fy.deep[name])))
                    key = KeyVal(name, i)
                a = self.fx.getitem(I, key, st)
                b = self.fy.getitem(I, key, st)
                I.ctx.assume(g['cond'](a.e, b.e))
                I.ctx.iter_key = (kind, name, key)
                obj.attrs['success'] = g['success']
                obj.attrs['mapping'] = SymMap(I.fresh('M_early', w.FeatMap))
                if g['kind'] == 'return':
                    raise _Return(g['retval'])
                raise PyRaise(g['exc'], g['msg'], st)
        # (2) every iteration completed normally
        Me = I.fresh('M_exit', w.FeatMap)
        obj.attrs['mapping'] = SymMap(Me)
        I.ctx.facts = getattr(I.ctx, 'facts', [])
        I.ctx.facts.append(dict(kind='inv_m', M=Me))      # invariant at exit: init + preservation are separate obligations
        I.ctx.facts.append(dict(kind='loop-exit', normal=summ['normal'], fx=self.fx, fy=self.fy, names=self.names))
        # the features compared by the loop are features of x resp. y (frame of the mapping invariant)
        for kind, name in self.names:
            if kind == 'plain':
                I.oblige('inv-frame', z3.And(w.hasfeat(x, self.fx.plain[name].e), w.hasfeat(y, self.fy.plain[name].e)), st,
                         extra=f'feature recorded for {name} is a feature of the input')
            else:
                i0 = z3.Int('frame_i')
                tx, ty = self.fx.deep[name], self.fy.deep[name]
                lem = z3.And(z3.Implies(z3.And(i0 >= 0, i0 < w.nleaves(tx)), w.hasfeat(tx, w.leaf(tx, i0))),
                             z3.Implies(z3.And(i0 >= 0, i0 < w.nleaves(ty)), w.hasfeat(ty, w.leaf(ty, i0))))     # lemma leaf_is_feature
                goal = z3.Implies(z3.And(lem, i0 >= 0, i0 < w.nleaves(tx), i0 < w.nleaves(ty)),
                                  z3.And(w.hasfeat(x, w.leaf(tx, i0)), w.hasfeat(y, w.leaf(ty, i0))))
                I.oblige('inv-frame', goal, st, extra=f'features recorded for {name}<i> are features of the inputs (uses lemma leaf_is_feature)')
        I.exec_block(st.orelse, env, module, qual)


_SUMMARIES = {}      # per process; the parent computes it once before the worker pool is forked


class PoisonObj(Obj):
    """`self` inside the loop summary: only the attributes of the summary frame exist"""
    pass


def loop_summary(I, st, env, module, qual):
    """Executes the loop body once, context-free, on fresh features (a, b) of an arbitrary key and a fresh mapping.
    Result: the condition (over a, b) for normal completion, the early exits grouped by outcome, and - recorded as
    obligations - that every normal iteration keeps `success`, keeps the mapping invariant and touches nothing else."""
    cache = _SUMMARIES
    ckey = (module.rel, st.lineno, ast.dump(st))
    if ckey in cache:
        return cache[ckey]
    w = I.w
    a, b = z3.Const('sum_a', w.Feat), z3.Const('sum_b', w.Feat)
    M0 = z3.Const('sum_M', w.FeatMap)
    sx, sy = z3.Const('sum_x', w.Cat), z3.Const('sum_y', w.Cat)
    f0 = z3.Const('sum_f0', w.Feat)
    outer = env.lookup('self')
    saved = (I.ctx, I.depth, I.target)
    allowed = ('x_features', 'y_features', 'mapping', 'success')

    class _One:
        def __init__(self, v):
            self.v = v

        def getitem(self, I2, k, node):
            return Z(self.v)

    def run(ctx):
        obj = PoisonObj(outer.cls)
        obj.attrs = dict(x_features=_One(a), y_features=_One(b), mapping=SymMap(M0), success=outer.attrs.get('success'))
        e2 = Env(env.parent)
        e2.vars = {k: v for k, v in env.vars.items() if k in ('self',)}
        e2.vars['self'] = obj
        I.assign(st.target, KeyVal('k'), e2, module)
        try:
            I.exec_block(st.body, e2, module, qual)
            out = ('normal', None)
        except _Continue:
            out = ('normal', None)            # `continue`: the iteration ends normally
        except _Break:
            raise CheckerError('break inside the loop summarised by the arbitrary-iteration rule')
        except _Return as r:
            out = ('return', r.v)
        except PyRaise as ex:
            out = ('raise', ex)
        extra = set(obj.attrs) - set(allowed)
        if extra:
            raise CheckerError(f'loop body writes self.{sorted(extra)}: outside the summary frame')
        return out[0], (out[1], obj.attrs['mapping'].arr, obj.attrs['success'])
    try:
        outs = explore(I, run)
    finally:
        I.ctx, I.depth, I.target = saved
    normal, early = [], {}
    obligations = []
    for o in outs:
        cond = z3.And(*o['pc']) if o['pc'] else z3.BoolVal(True)
        val, M1, succ = o['value']
        if o['kind'] == 'normal':
            normal.append(cond)
            hyp = [cond, w.hasfeat(sx, a), w.hasfeat(sy, b), inv_m(w, M0, sx, sy)(f0)]
            obligations.append(('inv-step', z3.Implies(z3.And(*hyp), inv_m(w, M1, sx, sy)(f0)), 'mapping invariant preserved by a normal iteration'))
            obligations.append(('inv-step', z3.BoolVal(succ is True), 'a normal iteration leaves success == True'))
            from contracts.grammar import idm_at
            obligations.append(('inv-step', z3.Implies(z3.And(cond, a == b, idm_at(w, M0, f0)), idm_at(w, M1, f0)),
                                'identical compared features keep the mapping an identity'))
        elif o['kind'] == 'return':
            if not (val is True or val is False or val is None):
                raise CheckerError('loop body returns a symbolic value')
            early.setdefault(('return', val, succ), []).append(cond)
        else:
            early.setdefault(('raise', val.exc, val.msg, succ), []).append(cond)
    nf = z3.Or(*normal) if normal else z3.BoolVal(False)
    # commutation of two normal iterations (for loops over unordered collections)
    upd_cases = [(z3.And(*o['pc']) if o['pc'] else z3.BoolVal(True), o['value'][1]) for o in outs if o['kind'] == 'normal']

    def upd(fa, fb, Min):
        res = Min
        for cnd, M1 in reversed(upd_cases):
            res = z3.If(z3.substitute(cnd, (a, fa), (b, fb)), z3.substitute(M1, (a, fa), (b, fb), (M0, Min)), res)
        return res
    a1, b1, a2, b2 = z3.Const('it1_x', w.Feat), z3.Const('it1_y', w.Feat), z3.Const('it2_x', w.Feat), z3.Const('it2_y', w.Feat)
    both = z3.And(z3.substitute(nf, (a, a1), (b, b1)), z3.substitute(nf, (a, a2), (b, b2)))
    commute = z3.Implies(both, upd(a2, b2, upd(a1, b1, M0))[f0] == upd(a1, b1, upd(a2, b2, M0))[f0])
    groups = []
    for k, conds in early.items():
        cf = z3.Or(*conds)
        g = dict(kind=k[0], cond=(lambda fa, fb, cf=cf: z3.substitute(cf, (a, fa), (b, fb))), success=k[-1])
        if k[0] == 'return':
            g['retval'] = k[1]
        else:
            g['exc'], g['msg'] = k[1], k[2]
        groups.append(g)
    for kind, goal, what in obligations:
        I.oblige(kind, goal, st, extra=what, pc=[])
    res = dict(normal=lambda fa, fb: z3.substitute(nf, (a, fa), (b, fb)), early=groups, paths=len(outs), commute=commute,
               commute_inputs=dict(it1_x=a1, it1_y=b1, it2_x=a2, it2_y=b2))
    cache[ckey] = res
    return res


class KeySetAnd:
    pass


def _keyview_binop(self, I, op, other, node):
    if isinstance(op, ast.BitAnd) and isinstance(other, KeyView):
        return MetaVarSet(self.fd, other.fd)
    raise CheckerError('operation on key sets not modelled')


KeyView.binop = _keyview_binop


# ------------------------------------------------------------------------------ harvesting the patterns
def harvest_patterns():
    """every Unification("..", "..") call with literal arguments in depccg/grammar/*.py"""
    out = []
    for rel in ('depccg/grammar/en.py', 'depccg/grammar/ja.py'):
        tree = parse_source(rel)
        for fn in tree.body:
            if not isinstance(fn, ast.FunctionDef):
                continue
            for n in ast.walk(fn):
                if isinstance(n, ast.Call) and isinstance(n.func, ast.Name) and n.func.id == 'Unification':
                    if len(n.args) == 2 and all(isinstance(a, ast.Constant) and isinstance(a.value, str) for a in n.args):
                        out.append((rel, fn.name, n.args[0].value, n.args[1].value))
                    else:
                        raise CheckerError(f'{rel}:{n.lineno}: Unification called with non-literal patterns')
    return out


def pattern_vars(p):
    if p[0] == 'atom':
        return [p[1]]
    return pattern_vars(p[1]) + pattern_vars(p[3])


# ------------------------------------------------------------------------------ contracts
def unification_class(I):
    return I.load_module('depccg.unification').env.lookup('Unification')


def make_uni(I, px, py, node=None):
    """runs the real __init__ on the literal patterns and puts the symbolic containers in place of the empty dicts"""
    cls = unification_class(I)
    obj = I.construct(cls, [px, py], {}, node)
    for attr in ('cats', 'mapping', 'x_features', 'y_features'):
        if obj.attrs.get(attr) != {}:
            raise CheckerError(f'Unification.__init__ no longer initialises {attr} to an empty dict')
    obj.attrs['mapping'] = SymMap(z3.K(I.w.Feat, I.w.OptFeat.NoF))
    obj.attrs['x_features'] = FeatDict()
    obj.attrs['y_features'] = FeatDict()
    for attr in ('meta_x', 'meta_y'):
        v = obj.attrs.get(attr)
        if not (isinstance(v, Z) and I.sort_name(v) == 'Cat'):
            raise CheckerError(f'Unification.{attr} is not a category')
    if obj.attrs.get('success') is not False or obj.attrs.get('done') is not False:
        raise CheckerError('Unification.__init__: success/done are not initialised to False')
    return obj


def nested_helper(method, pred, default):
    """the nested recursive function of Unification.<method> in a given ROLE (a predicate over its ast), whatever it is called"""
    import ast
    from vc.sorts import parse_source
    tree = parse_source(REL)
    for cls in tree.body:
        if isinstance(cls, ast.ClassDef) and cls.name == 'Unification':
            for m in cls.body:
                if isinstance(m, ast.FunctionDef) and m.name == method:
                    hits = [fn.name for fn in m.body if isinstance(fn, ast.FunctionDef)
                            and any(isinstance(c, ast.Call) and isinstance(c.func, ast.Name) and c.func.id == fn.name for c in ast.walk(fn)) and pred(fn)]
                    if len(hits) == 1:
                        return hits[0]
    return default


def _stores_formatted_key(fn):
    import ast
    return any(isinstance(n, ast.Subscript) and isinstance(n.ctx, ast.Store) and isinstance(n.slice, ast.JoinedStr) for n in ast.walk(fn))


class ScanDeep(Contract):
    rel, role = REL, 'Unification.__call__.scan_deep'

    def __init__(self):
        # the nested recursive helper of __call__ that records one feature per leaf under a formatted key (f'{variable}{index}'): found by role
        self.qualname = 'Unification.__call__.' + nested_helper('__call__', _stores_formatted_key, 'scan_deep')

    def closure_env(self, I, f):
        env = Env(I.load_module('depccg.unification').env)
        env.vars[f.node.name] = f
        return env

    def cases(self, I):
        w = I.w

        def build(I):
            s = z3.Const('s', w.Cat)
            v = z3.Const('v', z3.StringSort())
            idx = z3.Const('index', z3.IntSort())
            arr = z3.Const('results0', z3.ArraySort(z3.IntSort(), w.OptFeat))
            self._sel0 = lambda j: arr[j]
            fam = IndexedFamily(Z(v), self._sel0)
            return [Z(s), Z(v), Z(idx), fam], {}, [], dict(s=s, index=idx)
        yield Case('any', build)

    def spec_sel(self, w, sel0, s, idx):
        return lambda j: z3.If(z3.And(j >= idx, j < idx + w.nleaves(s)), w.OptFeat.SomeF(w.leaf(s, j - idx)), sel0(j))

    def post(self, I, case, args, result):
        w = I.w
        s, v, idx, fam = args
        j0 = z3.Int('post_j')
        want = self.spec_sel(w, self._sel0, s.e, idx.e)
        res_ok = (I.ex(result) == idx.e + w.nleaves(s.e)) if (isinstance(result, (Z, int)) and not isinstance(result, bool)) else z3.BoolVal(False)
        # uses lemma nleaves_positive (proved by induction in the same run) at s and its two fields
        L, R = w.acc('Functor', 'left'), w.acc('Functor', 'right')
        lem = z3.And(w.nleaves(s.e) >= 1, w.nleaves(L(s.e)) >= 1, w.nleaves(R(s.e)) >= 1)
        return z3.Implies(lem, z3.And(res_ok, fam.sel(j0) == want(j0)))

    def apply(self, I, args, kwargs, node):
        w = I.w
        s, v, idx, res = args
        if isinstance(res, IndexedFamily):      # recursive call inside scan_deep itself
            res.sel = self.spec_sel(w, res.sel, s.e, I.ex(idx))
            if I.target_contract is self:
                t = I.target_self
                if not _is_strict_subterm(s.e, t):
                    I.oblige('decreases', False, node, extra='recursive call of scan_deep not on a field of its argument')
            return I.wrap(I.ex(idx) + w.nleaves(s.e))
        if isinstance(res, FeatDict):           # call from scan
            if idx != 0 or not isinstance(v, str):
                raise CheckerError('scan_deep called from scan with a non-zero start index or a non-literal variable')
            if v in res.deep or v in res.plain:
                raise CheckerError(f'pattern variable {v} occurs twice on one side: not modelled')
            res.deep[v] = s.e
            return I.wrap(w.nleaves(s.e))
        raise CheckerError('scan_deep called with an unmodelled results container')


def _is_strict_subterm(e, root):
    cur = e
    n = 0
    while z3.is_app(cur) and cur.num_args() == 1 and cur.decl().name() in ('Functor_left', 'Functor_right'):
        cur = cur.arg(0)
        n += 1
    return n > 0 and cur.eq(root)


def self_aliases(outer, nested):
    """{name: attr} for the top-level statements `name = self.attr` of `outer` that precede the nested function definition"""
    import ast
    out = {}
    for st in outer.body:
        if st is nested:
            break
        if (isinstance(st, ast.Assign) and len(st.targets) == 1 and isinstance(st.targets[0], ast.Name) and isinstance(st.value, ast.Attribute)
                and isinstance(st.value.value, ast.Name) and st.value.value.id == 'self'):
            out[st.targets[0].id] = st.value.attr
    return out


class Rec(Contract):
    rel, role = REL, 'Unification.__getitem__.rec'

    def __init__(self):
        # the one nested recursive helper of __getitem__ (instantiates the variables of a bound category): found by role
        self.qualname = 'Unification.__getitem__.' + nested_helper('__getitem__', lambda fn: True, 'rec')

    def closure_env(self, I, f):
        env = Env(I.load_module('depccg.unification').env)
        obj = Obj(unification_class(I))
        self._M = z3.Const('mapping', I.w.FeatMap)
        obj.attrs['mapping'] = SymMap(self._M)
        env.vars['self'] = obj
        env.vars[f.node.name] = f
        # local aliases `name = self.attr` made by the enclosing function before the nested def are part of the closure
        self._aliases = self_aliases(I.find_function(REL, 'Unification.__getitem__').node, f.node)
        for name, attr in self._aliases.items():
            env.vars[name] = obj.attrs.get(attr)
        return env

    def cases(self, I):
        def build(I):
            x = z3.Const('x', I.w.Cat)
            f = I.target
            f.env.vars['self'].attrs['mapping'] = SymMap(self._M)
            for name, attr in self._aliases.items():
                f.env.vars[name] = f.env.vars['self'].attrs.get(attr)
            return [Z(x)], {}, [], dict(x=x)
        yield Case('any', build)

    def post(self, I, case, args, result):
        if not (isinstance(result, Z) and I.sort_name(result) == 'Cat'):
            return z3.BoolVal(False)
        return result.e == I.w.subst(args[0].e, self._M)

    def apply(self, I, args, kwargs, node):
        # recursive use inside rec (same mapping), or use from __getitem__ (mapping of that object)
        m = self._current_mapping(I)
        if I.target_contract is self and not _is_strict_subterm(args[0].e, I.target_self):
            I.oblige('decreases', False, node, extra='recursive call of rec not on a field of its argument')
        return I.wrap(I.w.subst(args[0].e, m))

    def _current_mapping(self, I):
        try:
            m = I.callee.env.lookup('self').attrs['mapping']
        except (KeyError, AttributeError):
            raise CheckerError('rec: cannot find self.mapping of the enclosing object')
        if not isinstance(m, SymMap):
            raise CheckerError('rec: self.mapping is not a modelled mapping')
        return m.arr


class GetItem(Contract):
    rel, qualname = REL, 'Unification.__getitem__'

    def cases(self, I):
        w = I.w
        for succ in (True, False):
            for present in (True, False):
                def build(I, succ=succ, present=present):
                    obj = Obj(unification_class(I))
                    M = z3.Const('mapping', w.FeatMap)
                    c = z3.Const('bound', w.Cat)
                    obj.attrs.update(success=succ, mapping=SymMap(M), cats={'a': Z(c)} if present else {}, done=True)
                    I.current_mapping = M
                    self._M, self._c = M, c
                    return [obj, 'a'], {}, [], dict(bound=c)
                yield Case(f'success={succ},bound={present}', build)

    def post(self, I, case, args, result):
        if case.name != 'success=True,bound=True':
            return z3.BoolVal(False)      # must raise
        if not (isinstance(result, Z) and I.sort_name(result) == 'Cat'):
            return z3.BoolVal(False)
        return result.e == I.w.subst(self._c, self._M)

    def raises(self, I, case, args, exc):
        if case.name.startswith('success=False'):
            return z3.BoolVal(exc.exc == 'AssertionError')
        if case.name == 'success=True,bound=False':
            return z3.BoolVal(exc.exc == 'KeyError')
        return None

    def apply(self, I, args, kwargs, node):
        obj, key = args
        if obj.attrs.get('success') is not True:
            raise PyRaise('AssertionError', 'unification has not been successful', node)
        cats = obj.attrs['cats']
        if not isinstance(key, str):
            raise CheckerError('binding lookup with a non-literal key')
        if key not in cats:
            raise PyRaise('KeyError', key, node)
        return I.wrap(I.w.subst(cats[key].e, obj.attrs['mapping'].arr))


class UniCall(Contract):
    """Unification.__call__, verified once per pattern pair that occurs in the grammars"""
    rel, qualname = REL, 'Unification.__call__'

    def __init__(self, pairs=None):
        self.pairs = pairs

    def cases(self, I):
        w = I.w
        pairs = self.pairs if self.pairs is not None else sorted({(a, b) for _, _, a, b in harvest_patterns()})
        for px, py in pairs:
            def build(I, px=px, py=py):
                obj = make_uni(I, px, py)
                x, y = z3.Const('x', w.Cat), z3.Const('y', w.Cat)
                I.unif_inputs = (x, y)
                self._cur = dict(obj=obj, x=x, y=y, px=pattern_py(w, obj.attrs['meta_x'].e), py=pattern_py(w, obj.attrs['meta_y'].e))
                for v in pattern_vars(self._cur['px']) + pattern_vars(self._cur['py']):
                    if any(ch.isdigit() for ch in v):
                        raise CheckerError(f'pattern variable {v} contains a digit: key formatting would not be injective')
                return [obj, Z(x), Z(y)], {}, [], dict(x=x, y=y)
            yield Case(f'{px} , {py}', build)

        def build_done(I):
            obj = make_uni(I, 'a/b', 'b')
            obj.attrs['done'] = True
            x, y = z3.Const('x', w.Cat), z3.Const('y', w.Cat)
            I.unif_inputs = (x, y)
            self._cur = dict(obj=obj, x=x, y=y, done=True)
            return [obj, Z(x), Z(y)], {}, [], dict(x=x, y=y)
        yield Case('second-call', build_done)

    def raises(self, I, case, args, exc):
        cur = self._cur
        if cur.get('done'):
            return z3.BoolVal(exc.exc == 'RuntimeError')
        if exc.exc == 'AttributeError' and getattr(I.ctx, 'iter_key', None) is not None:
            # mixed feature systems at the key being compared (outside the precondition of the grammars)
            kind, name, key = I.ctx.iter_key
            obj = cur['obj']
            a = obj.attrs['x_features'].getitem(I, key, None)
            b = obj.attrs['y_features'].getitem(I, key, None)
            return mixed(I.w, a.e, b.e)
        return None

    def post(self, I, case, args, result):
        w = I.w
        cur = self._cur
        if cur.get('done'):
            return z3.BoolVal(False)
        obj, x, y = cur['obj'], cur['x'], cur['y']
        facts = getattr(I.ctx, 'facts', [])
        skolems = {}

        def ac(a, b):
            i = z3.Int(f'ac_i_{len(skolems)}')
            skolems[i] = (a, b)
            return AC_body(w, a, b, i)
        # Match with AC replaced by its body at fresh skolems: proving Match(skolem) for arbitrary skolems proves the forall
        match_sk, last, shared = match_spec(w, cur['px'], cur['py'], x, y, ac=ac)
        match_q, _, _ = match_spec(w, cur['px'], cur['py'], x, y, ac=lambda a, b: AC_def_forall(w, a, b))
        if result is True:
            hyps = []
            f1 = z3.Const('post_f', w.Feat)
            for fct in facts:
                if fct['kind'] == 'inv_m':
                    hyps.append(inv_m(w, fct['M'], x, y)(f1))
                if fct['kind'] == 'loop-exit':
                    for i, (a, b) in skolems.items():
                        hyps.append(z3.Implies(z3.And(i >= 0, i < w.nleaves(a), i < w.nleaves(b)), fct['normal'](w.leaf(a, i), w.leaf(b, i))))
            state = [obj.attrs.get('success') is True, obj.attrs.get('done') is True]
            cats = obj.attrs['cats']
            ok_cats = [z3.BoolVal(set(cats) == set(last))] + [cats[v].e == last[v] for v in last if v in cats]
            m = obj.attrs['mapping']
            from contracts.grammar import idm_at
            all_eq = z3.And(*[tx == ty for _, tx, ty in shared]) if shared else z3.BoolVal(True)
            for fct in facts:
                if fct['kind'] == 'inv_m':
                    # invariant `all compared pairs equal ==> mapping is an identity` at loop exit (init: empty map; step: summary obligation)
                    hyps.append(z3.Implies(all_eq, idm_at(w, fct['M'], f1)))
            ok_map = z3.And(inv_m(w, m.arr, x, y)(f1), z3.Implies(all_eq, idm_at(w, m.arr, f1)))
            return z3.Implies(z3.And(*hyps) if hyps else z3.BoolVal(True), z3.And(match_sk, z3.BoolVal(all(state)), *ok_cats, ok_map))
        if result is False:
            # not Match: it suffices to refute Match with AC instantiated at one index (Match implies every instance)
            ik = getattr(I.ctx, 'iter_key', None)

            def ac_inst(a, b):
                if ik is not None:
                    kind, name, key = ik
                    fx, fy = obj.attrs['x_features'], obj.attrs['y_features']
                    ta = fx.deep.get(name) if kind == 'deep' else None
                    if kind == 'deep' and ta is not None and ta.eq(a):
                        return AC_body(w, a, b, key.idx)
                    if kind == 'plain' and name in fx.plain and fx.plain[name].e.eq(w.leaf(a, 0)) is False:
                        pass
                    if kind == 'plain':
                        return AC_body(w, a, b, z3.IntVal(0))
                return z3.BoolVal(True)
            match_i, _, _ = match_spec(w, cur['px'], cur['py'], x, y, ac=ac_inst)
            return z3.And(z3.Not(match_i), z3.BoolVal(obj.attrs.get('success') is False and obj.attrs.get('done') is True))
        return z3.BoolVal(False)

    # ---- use at call sites (the grammars)
    def apply(self, I, args, kwargs, node):
        w = I.w
        obj, x, y = args
        if not (isinstance(obj, Obj) and isinstance(x, Z) and isinstance(y, Z) and I.sort_name(x) == 'Cat' and I.sort_name(y) == 'Cat'):
            raise CheckerError('Unification called on non-category arguments')
        if obj.attrs.get('done') is not False:
            raise PyRaise('RuntimeError', 'cannot use the same Unification object more than once.', node)
        obj.attrs['done'] = True
        px, py = pattern_py(w, obj.attrs['meta_x'].e), pattern_py(w, obj.attrs['meta_y'].e)
        key = (w.to_py(obj.attrs['meta_x'].e), w.to_py(obj.attrs['meta_y'].e))
        I.used_patterns = getattr(I, 'used_patterns', set())
        I.used_patterns.add(key)
        m, last, shared = match_spec(w, px, py, x.e, y.e)
        if I.branch(m, node):
            M = I.fresh('M_uni', w.FeatMap)
            obj.attrs['mapping'] = SymMap(M)
            obj.attrs['cats'] = {v: Z(t) for v, t in last.items()}
            obj.attrs['success'] = True
            from contracts.grammar import INVM, IDM
            I.ctx.assume(INVM(w, M, x.e, y.e))        # opaque; its definition (forall f. inv_m(f)) is the postcondition proved in C06
            if shared:
                I.ctx.assume(z3.Implies(z3.And(*[tx == ty for _, tx, ty in shared]), IDM(w, M)))
            else:
                I.ctx.assume(IDM(w, M))               # nothing was compared: the mapping is empty
            I.uni_maps = getattr(I, 'uni_maps', [])
            I.uni_maps.append((M, x.e, y.e, list(last.values())))
            return True
        obj.attrs['success'] = False
        return False


def uni_lemmas(w):
    """induction lemmas used by the C06 obligations and by the grammar proofs"""
    FM = w.FeatMap
    out = [
        Lemma('nleaves_positive', lambda w, c: w.nleaves(c) >= 1),
        Lemma('leaf_is_feature', lambda w, c, i: z3.Implies(z3.And(i >= 0, i < w.nleaves(c)), w.hasfeat(c, w.leaf(c, i))),
              params=[('i', z3.IntSort())],
              ih=lambda w, l, r, i: ([(i,)], [(i - w.nleaves(l),)])),
        Lemma('subst_keeps_skeleton', lambda w, c, M: w.strip(w.subst(c, M)) == w.strip(c), params=[('M', FM)]),
    ]
    return {l.name: l for l in out}
