"""Contracts for the Japanese bank format (C20, Japanese half): depccg/printer/ja.py::ja_of.rec  and  depccg/tools/ja/reader.py::_JaCCGLineReader.

Piece-level specification jtoks(t) of the bank text of a tree view t (blanks are pieces of their own: the reader consumes closing braces one by one):
    leaf      {CAT  _  BODY  }                       BODY = word/word/pos/inflection
    unary     {SYM  _  CAT  _  jtoks(child)  }
    binary    {SYM  _  CAT  _  jtoks(left)  _  jtoks(right)  }
Printer: the text ja_of.rec returns, cut into pieces, is jtoks(node).   Reader: given jtoks(t) at the cursor, parse_leaf / parse_tree (next_node inlined)
return a tree iso to t (shape, category text, rule symbol, word) and leave the cursor behind it; recursive parses are replaced by the contract.
The cursor methods next(target) / check / peek / line.find / line[a:b] are used through ASSUMED piece-level contracts (each with an obligation that the
pieces at the cursor have the shape the contract abstracts), justified by the string lemma next-lemma-ja on the real body of next(target)."""
import ast
import z3

from vc.engine import Contract, Case
from vc.pyvc import Z, PyRaise, Env, Obj, FString
from vc.sorts import CheckerError
from contracts.printers import T, tag, SymTree, SymToken, CAT_OF, OP_SYMBOL, _Method, I_, B_, S_
from contracts.readers import FieldStr, SegStr, CANON, canon_axiom, ct, S, CategoryFactory, NewToken, AppendLog, Cursor, CursorPlus

_P = z3.Datatype('JaPiece')
_P.declare('OpenOp', ('sym', S_))
_P.declare('OpenLeaf', ('lcat', S_))
_P.declare('CatF', ('cs', S_))
_P.declare('Body', ('word', S_), ('rest', S_))
_P.declare('Sp')
_P.declare('CloseB')
P = _P.create()
PARR = z3.ArraySort(I_, P)

JWORD = z3.Function('ja_word_printed', I_, S_)          # normalize(node.word) of the leaf
JREST = z3.Function('ja_body_rest', I_, S_)             # word/pos/inflection part of the leaf body (not compared by C20)
RAWW = z3.Function('tv_word', I_, S_)
jn = z3.RecFunction('ja_npieces', T, I_)
jat = z3.RecFunction('ja_piece_at', T, I_, P)
jiso = z3.RecFunction('ja_iso', T, T, B_)
_t, _u, _j = z3.Const('t', T), z3.Const('u', T), z3.Int('j')
_D = {}


def define(I):
    if _D.get('done'):
        return
    _D['done'] = True
    z3.RecAddDefinition(jn, [_t], z3.If(T.is_Leaf(_t), 4, z3.If(T.is_Un(_t), 5 + jn(T.child(_t)), 6 + jn(T.left(_t)) + jn(T.right(_t)))))
    z3.RecAddDefinition(jat, [_t, _j], jat_body(I, _t, _j))
    z3.RecAddDefinition(jiso, [_t, _u], jiso_body(I, _t, _u))


def jat_body(I, t, j):
    g = tag(t)
    head = z3.If(j == 0, P.OpenOp(OP_SYMBOL(g)), z3.If(j == 2, P.CatF(ct(I, g)), P.Sp))      # j in 0..3
    nl = jn(T.left(t))
    return z3.If(T.is_Leaf(t), z3.If(j == 0, P.OpenLeaf(ct(I, g)), z3.If(j == 1, P.Sp, z3.If(j == 2, P.Body(JWORD(g), JREST(g)), P.CloseB))),
                 z3.If(T.is_Un(t), z3.If(j < 4, head, z3.If(j < 4 + jn(T.child(t)), jat(T.child(t), j - 4), P.CloseB)),
                       z3.If(j < 4, head, z3.If(j < 4 + nl, jat(T.left(t), j - 4), z3.If(j == 4 + nl, P.Sp,
                                                                                            z3.If(j < 5 + nl + jn(T.right(t)), jat(T.right(t), j - 5 - nl), P.CloseB))))))


def jiso_body(I, t, u):
    g, h = tag(t), tag(u)
    return z3.If(T.is_Leaf(t), z3.And(T.is_Leaf(u), ct(I, g) == ct(I, h), JWORD(g) == JWORD(h)),
                 z3.If(T.is_Un(t), z3.And(T.is_Un(u), ct(I, g) == ct(I, h), OP_SYMBOL(g) == OP_SYMBOL(h), jiso(T.child(t), T.child(u))),
                       z3.And(T.is_Bin(u), ct(I, g) == ct(I, h), OP_SYMBOL(g) == OP_SYMBOL(h), jiso(T.left(t), T.left(u)), jiso(T.right(t), T.right(u)))))


def text_of(p):
    return z3.If(P.is_OpenOp(p), z3.Concat(S('{'), P.sym(p)), z3.If(P.is_OpenLeaf(p), z3.Concat(S('{'), P.lcat(p)), z3.If(P.is_CatF(p), P.cs(p),
                 z3.If(P.is_Sp(p), S(' '), z3.If(P.is_CloseB(p), S('}'), z3.Concat(P.word(p), S('/'), P.rest(p)))))))


# ============================================================================ printer side
class JaTree(SymTree):
    def getattr(self, I, name, node):
        if name == 'word':
            if not I.branch(T.is_Leaf(self.e), node):
                raise CheckerError('Tree.word of an inner node is outside the model')
            return Z(RAWW(T.ltag(self.e)))
        if name == 'op_symbol':
            return FieldStr(OP_SYMBOL(tag(self.e)))
        if name == 'cat':
            from contracts.readers import CatField
            return CatField(I, tag(self.e))
        v = SymTree.getattr(self, I, name, node)
        if isinstance(v, SymTree) and not isinstance(v, JaTree):
            return JaTree(v.e)
        if isinstance(v, list):
            return [JaTree(x.e) if isinstance(x, SymTree) else x for x in v]
        if isinstance(v, SymToken):
            return JaToken(v.tag)
        return v


class OpaqueField:
    """token.get(key, '*'): an opaque text; comparing it with '*' forks the path (present / absent)"""
    fstring_part = True

    def __init__(self, e):
        self.e = e

    def py_eq_first(self, I, other, node):
        if isinstance(other, str):
            return Z(self.e == S(other))
        return None

    def py_str(self, I, node):
        return self


class JaToken(SymToken):
    def getattr(self, I, name, node):
        if name == 'get':
            def get(I, args, kwargs, node):
                key = args[0]
                if not isinstance(key, str):
                    raise CheckerError('token.get with a symbolic key')
                return OpaqueField(z3.Function('ja_token_field_' + key, I_, S_)(self.tag))
            return _Method(get)
        return SymToken.getattr(self, I, name, node)


class Normalize(Contract):
    rel, qualname = 'depccg/utils.py', 'normalize'

    def apply(self, I, args, kwargs, node):
        w = args[0]
        if isinstance(w, Z) and z3.is_app(w.e) and w.e.decl().name() == 'tv_word':
            return FieldStr(JWORD(w.e.arg(0)))
        raise CheckerError('normalize of something that is not the word of a leaf')


def ja_pieces(I, fs):
    """cuts the structured text into pieces: literals are cut at blanks and braces; returns python descriptions
    ('openop', sym) ('openleaf', cat) ('catf', cat) ('body', word, parts) 'sp' 'close' ('seg', t)"""
    parts = fs.parts if isinstance(fs, FString) else [fs]
    atoms = []
    for p in parts:
        if isinstance(p, str):
            for ch in p:
                atoms.append(ch)
        else:
            atoms.append(p)
    out, i = [], 0
    sv = lambda x: x.e if isinstance(x, (Z, FieldStr, OpaqueField)) else None
    while i < len(atoms):
        a = atoms[i]
        if a == ' ':
            out.append('sp')
            i += 1
        elif a == '}':
            out.append('close')
            i += 1
        elif isinstance(a, SegStr):
            out.append(('seg', a.t))
            i += 1
        elif a == '{':
            if i + 1 >= len(atoms) or sv(atoms[i + 1]) is None:
                return None
            nxt = atoms[i + 1]
            out.append(('open', sv(nxt), isinstance(nxt, FieldStr)))
            i += 2
        else:
            run = []
            while i < len(atoms) and atoms[i] not in (' ', '}', '{') and not isinstance(atoms[i], SegStr):
                run.append(atoms[i])
                i += 1
            out.append(('run', run))
    return out


JREL = 'depccg/printer/ja.py'


class JaRec(Contract):
    rel, role = JREL, 'ja_of.rec'

    def __init__(self):
        from contracts.printers import find_recursive_helper
        # nested in ja_of or a module-level function it calls: found by role (the recursive function the encoder calls)
        self.qualname = find_recursive_helper(JREL, 'ja_of', 'ja_of.rec')

    def closure_env(self, I, f):
        m = I.load_module('depccg.printer.ja')
        env = Env(m.env)
        env.set(f.node.name, f)
        return env

    def cases(self, I):
        define(I)
        for kind in ('leaf', 'unary', 'binary'):
            def build(I, kind=kind):
                g = z3.Int('g')
                t = {'leaf': T.Leaf(g), 'unary': T.Un(g, z3.Const('c', T)), 'binary': T.Bin(g, z3.Const('l', T), z3.Const('r', T), z3.Bool('h'))}[kind]
                self._pre = (t, kind)
                return [JaTree(t)], {}, [], None
            yield Case(kind, build)

    def post(self, I, case, args, result):
        t, kind = self._pre
        g = tag(t)
        got = ja_pieces(I, result) if isinstance(result, (FString, str)) else None
        if got is None:
            return [('pieces', z3.BoolVal(False))]
        cs = []

        def open_is(p, want):
            return p[1] == want if isinstance(p, tuple) and p[0] == 'open' else z3.BoolVal(False)

        def run_is_field(p, want):
            if isinstance(p, tuple) and p[0] == 'run' and len(p[1]) == 1 and hasattr(p[1][0], 'e'):
                return p[1][0].e == want
            return z3.BoolVal(False)
        if kind == 'leaf':
            ok = len(got) == 4 and got[1] == 'sp' and got[3] == 'close' and isinstance(got[2], tuple) and got[2][0] == 'run'
            if not ok:
                return [('pieces', z3.BoolVal(False))]
            run = got[2][1]
            # body: word / word / ... : the first field is the (normalised) word, followed by '/'
            body_ok = len(run) >= 3 and hasattr(run[0], 'e') and run[1] == '/' and all(x != ' ' for x in run if isinstance(x, str))
            cs = [open_is(got[0], ct(I, g)), z3.BoolVal(body_ok), run[0].e == JWORD(g) if body_ok else z3.BoolVal(False),
                  z3.BoolVal(body_ok and len([x for x in run if x == '/']) == 3)]
            return [('pieces', z3.And(cs))]
        want_n = 6 if kind == 'unary' else 8
        if len(got) != want_n:
            return [('pieces', z3.BoolVal(False))]
        cs = [open_is(got[0], OP_SYMBOL(g)), z3.BoolVal(got[1] == 'sp'), run_is_field(got[2], ct(I, g)), z3.BoolVal(got[3] == 'sp')]
        if kind == 'unary':
            cs += [z3.BoolVal(isinstance(got[4], tuple) and got[4][0] == 'seg') if not (isinstance(got[4], tuple) and got[4][0] == 'seg') else got[4][1] == T.child(t), z3.BoolVal(got[5] == 'close')]
        else:
            segs_ok = all(isinstance(got[k], tuple) and got[k][0] == 'seg' for k in (4, 6))
            cs += [z3.BoolVal(segs_ok), got[4][1] == T.left(t) if segs_ok else z3.BoolVal(False), z3.BoolVal(got[5] == 'sp'), got[6][1] == T.right(t) if segs_ok else z3.BoolVal(False),
                   z3.BoolVal(got[7] == 'close')]
        return [('pieces', z3.And(cs))]

    def apply(self, I, args, kwargs, node):
        if len(args) != 1 or not isinstance(args[0], SymTree):
            raise CheckerError('rec called with something that is not a tree view')
        return SegStr(args[0].e)


# ============================================================================ reader side
class EndOfPiece:
    """line.find(' ', index): the position of the blank that ends the piece at the cursor"""
    def __init__(self, k):
        self.k = k


class BodyText:
    """text of a leaf body  word/rest ; [:-1] and split('/') as the reader uses them"""
    def __init__(self, word, rest, chopped=False):
        self.word, self.rest, self.chopped = word, rest, chopped

    def slice(self, I, lo, hi, node):
        if lo is None and hi == -1:
            return BodyText(self.word, self.rest, True)
        raise CheckerError('slice of the leaf body other than [:-1]')

    def getattr(self, I, name, node):
        if name == 'split':
            def split(I, args, kwargs, node):
                if list(args) != ['/']:
                    raise CheckerError('split of the leaf body on something else than "/"')
                # printed body: word/word/pos/inflection with slash-free fields (precondition of C20): four parts, the first is the word
                return [Z(self.word), Z(I.fresh('base', S_)), Z(I.fresh('pos1', S_)), Z(I.fresh('pos2', S_))]
            return _Method(split)
        raise CheckerError(f'str.{name} on the leaf body')


class JaLine:
    def __init__(self, arr):
        self.arr = arr
        self.known = []          # (position, piece) pairs established as cut facts: read back syntactically, so that path decisions on them need no solver

    def piece(self, k):
        for idx, term in self.known:
            if z3.is_true(z3.simplify(idx == k)):
                return term
        return z3.Select(self.arr, k)

    def char(self, I, k, off, node):
        txt = text_of(self.piece(k))
        I.oblige('abstraction', z3.Length(txt) > off, node, extra=f'character {off} of the piece at the cursor exists')
        return Z(z3.simplify(z3.SubString(txt, off, 1)))

    def getitem(self, I, key, node):
        if isinstance(key, CursorPlus):
            return self.char(I, key.k, key.off, node)
        if isinstance(key, Cursor):
            return self.char(I, key.k, 0, node)
        raise CheckerError('self.line indexed with something that is not the cursor')

    def getattr(self, I, name, node):
        if name == 'find':
            def find(I, args, kwargs, node):
                tgt, start = args
                if tgt != ' ' or not isinstance(start, Cursor):
                    raise CheckerError('line.find other than find(" ", index)')
                p, q = self.piece(start.k), self.piece(start.k + 1)
                I.oblige('abstraction', z3.And(z3.Or(P.is_OpenOp(p), P.is_OpenLeaf(p)), P.is_Sp(q)), node, extra='the piece at the cursor is an opening piece directly followed by a blank')
                return EndOfPiece(start.k)
            return _Method(find)
        raise CheckerError(f'str.{name} on the line')

    def slice(self, I, lo, hi, node):
        if isinstance(lo, CursorPlus) and lo.off == 1 and isinstance(hi, EndOfPiece) and z3.is_true(z3.simplify(lo.k == hi.k)):
            p = self.piece(lo.k)
            return Z(z3.simplify(z3.If(P.is_OpenOp(p), P.sym(p), P.lcat(p))))          # the text after the opening brace
        raise CheckerError('slice of the line other than line[index + 1:end-of-piece]')


RREL = 'depccg/tools/ja/reader.py'


class JaNext(Contract):
    """piece-level contract of next(target) (ASSUMED abstraction; see next-lemma-ja)"""
    rel, qualname = RREL, '_JaCCGLineReader.next'

    def apply(self, I, args, kwargs, node):
        obj, target = args[0], args[1]
        cur, line = obj.attrs['index'], obj.attrs['line']
        p, q = line.piece(cur.k), line.piece(cur.k + 1)
        if target == ' ':
            if I.branch(P.is_Sp(p), node):
                obj.attrs['index'] = Cursor(cur.k + 1)          # the cursor stands on a blank: the empty text before it is returned and the blank skipped
                return ''
            I.oblige('abstraction', z3.And(z3.Not(P.is_Sp(p)), z3.Not(P.is_CloseB(p)), z3.Not(P.is_Body(p)), P.is_Sp(q)), node, extra='next(" "): a blank-free piece directly followed by a blank')
            obj.attrs['index'] = Cursor(cur.k + 2)
            return Z(z3.simplify(text_of(p)))
        if target == '}':
            if I.branch(P.is_CloseB(p), node):
                obj.attrs['index'] = Cursor(cur.k + 1)
                return ''
            I.oblige('abstraction', z3.And(P.is_Body(p), P.is_CloseB(q)), node, extra='next("}"): the leaf body directly followed by its closing brace')
            obj.attrs['index'] = Cursor(cur.k + 2)
            return BodyText(P.word(p), P.rest(p))
        raise CheckerError(f'next({target!r})')


class JaCheck(Contract):
    rel, qualname = RREL, '_JaCCGLineReader.check'

    def apply(self, I, args, kwargs, node):
        obj, text = args[0], args[1]
        off = args[2] if len(args) > 2 else kwargs.get('offset', 0)
        c = obj.attrs['line'].char(I, obj.attrs['index'].k, off, node)
        if I.truth(I.py_eq(c, text, node), node):
            return None
        raise PyRaise('RuntimeError', 'AutoLineReader.check catches parse error', node)


class JaPeek(Contract):
    rel, qualname = RREL, '_JaCCGLineReader.peek'

    def apply(self, I, args, kwargs, node):
        obj = args[0]
        return obj.attrs['line'].char(I, obj.attrs['index'].k, 0, node)


class JaTreeFactory:
    def getattr(self, I, name, node):
        def fresh_tag(cat):
            g = I.fresh('tag', I_)
            I.ctx.assume(CAT_OF(I)(g) == I.ex(cat))
            return g
        if name == 'make_terminal':
            def mk(I, args, kwargs, node):
                surf, cat = args[0], args[1]
                g = fresh_tag(cat)
                I.ctx.assume(JWORD(g) == I.ex(surf))
                return SymTree(T.Leaf(g))
            return _Method(mk)
        if name == 'make_unary':
            def mk(I, args, kwargs, node):
                cat, child, op_string, op_symbol = args[0], args[1], args[2], args[3]
                g = fresh_tag(cat)
                I.ctx.assume(OP_SYMBOL(g) == I.ex(op_symbol))
                return SymTree(T.Un(g, child.e))
            return _Method(mk)
        if name == 'make_binary':
            def mk(I, args, kwargs, node):
                cat, left, right, op_string, op_symbol = args[:5]
                g = fresh_tag(cat)
                I.ctx.assume(OP_SYMBOL(g) == I.ex(op_symbol))
                hl = args[5] if len(args) > 5 else kwargs.get('head_is_left', True)
                return SymTree(T.Bin(g, left.e, right.e, z3.BoolVal(hl) if isinstance(hl, bool) else I.ex(hl)))
            return _Method(mk)
        raise CheckerError(f'Tree.{name}')


class RegexSub:
    """DEPENDENCY.sub('', cat): removes {...} annotations; a text without '{' is returned unchanged (the printed category texts have no braces)"""
    def getattr(self, I, name, node):
        if name == 'sub':
            def sub(I, args, kwargs, node):
                repl, s = args
                if repl != '':
                    raise CheckerError('DEPENDENCY.sub with a replacement')
                e = I.ex(s)
                r = z3.Function('regex_remove_annotations', S_, S_)(e)
                I.ctx.assume(z3.Implies(z3.Not(z3.Contains(e, S('{'))), r == e))
                return Z(r)
            return _Method(sub)
        raise CheckerError(f'DEPENDENCY.{name}')


def install_ja_reader_env(I):
    m = I.load_module('depccg.tools.ja.reader')
    m.env.vars['Tree'] = JaTreeFactory()
    m.env.vars['Category'] = CategoryFactory()
    m.env.vars['Token'] = _Method(lambda I_, args, kwargs, node: NewToken(dict(kwargs)))
    m.env.vars['DEPENDENCY'] = RegexSub()
    return m


COMBINATORS = None


def combinators(I):
    m = I.load_module('depccg.tools.ja.reader')
    c = m.env.lookup('combinators')
    if not isinstance(c, (set, frozenset)) or not all(isinstance(x, str) for x in c):
        raise CheckerError('tools/ja/reader.py: combinators is not a set of strings')
    return sorted(c)


def line_is(line, k0, t):
    j = z3.Int('j!l')
    return z3.ForAll([j], z3.Implies(z3.And(j >= k0, j < k0 + jn(t)), line.piece(j) == jat(t, j - k0)))


def field_facts(I, t, kind):
    """precondition of C20 on the printed fields: category texts are canonical, without braces / blanks / underscores, and are not rule symbols;
    the rule symbols of inner nodes are among the reader's fixed set"""
    g = tag(t)
    c = ct(I, g)
    cs = [canon_axiom(I), z3.Not(z3.Contains(c, S('{'))), z3.Not(z3.Contains(c, S('_'))), z3.Length(c) >= 1]
    syms = combinators(I)
    cs.append(z3.And([c != S(s) for s in syms]))
    if kind != 'leaf':
        cs.append(z3.Or([OP_SYMBOL(g) == S(s) for s in syms]))
    return cs


class JaParseNode(Contract):
    rel = RREL
    kinds = ()

    def cases(self, I):
        define(I)
        for kind in self.kinds:
            def build(I, kind=kind):
                g = z3.Int('g')
                t = {'leaf': T.Leaf(g), 'unary': T.Un(g, z3.Const('c', T)), 'binary': T.Bin(g, z3.Const('l', T), z3.Const('r', T), z3.Bool('h'))}[kind]
                k0 = z3.Int('k0')
                m = I.load_module('depccg.tools.ja.reader')
                cls = m.env.lookup('_JaCCGLineReader')
                line = JaLine(z3.Const('LINE', PARR))
                obj = Obj(cls)
                obj.attrs.update(line=line, index=Cursor(k0), word_id=Z(z3.Int('word_id0')), tokens=AppendLog())
                self._pre = (t, k0, obj, line, kind)
                j = z3.Int('j!uj')
                I.ctx.assume(z3.ForAll([j], jat(t, j) == jat_body(I, t, j)))
                subs = [] if kind == 'leaf' else [T.child(t)] if kind == 'unary' else [T.left(t), T.right(t)]
                ghosts, pos = [], k0 + 4
                for s in subs:
                    I.ctx.assume(jn(s) >= 4)             # lemma jn-positive
                    # first piece of a subtree is an opening piece (unfolding of jat at 0)
                    I.ctx.assume(z3.Or(z3.And(T.is_Leaf(s), jat(s, 0) == P.OpenLeaf(ct(I, tag(s)))), z3.And(z3.Not(T.is_Leaf(s)), jat(s, 0) == P.OpenOp(OP_SYMBOL(tag(s))))))
                    I.ctx.assume(jat(s, 1) == P.Sp)
                    ghosts.append((pos, s))
                    pos = pos + jn(s) + 1
                I.ctx.ghosts = ghosts
                pre = [k0 >= 0, line_is(line, k0, t)] + field_facts(I, t, kind)
                for s in subs:
                    gs = tag(s)
                    syms = combinators(I)
                    pre.append(z3.Implies(T.is_Leaf(s), z3.And([ct(I, gs) != S(x) for x in syms])))
                    pre.append(z3.Implies(z3.Not(T.is_Leaf(s)), z3.Or([OP_SYMBOL(gs) == S(x) for x in syms])))
                # cut facts: the pieces at the positions the parser looks at, as ground consequences of the precondition (each is an obligation, then a fact:
                # the path decisions that follow need no quantifier instantiation)
                for a in pre:
                    I.ctx.assume(a)
                g_ = tag(t)
                if kind == 'leaf':
                    cuts = [(0, P.OpenLeaf(ct(I, g_))), (1, P.Sp), (2, P.Body(JWORD(g_), JREST(g_))), (3, P.CloseB)]
                else:
                    cuts = [(0, P.OpenOp(OP_SYMBOL(g_))), (1, P.Sp), (2, P.CatF(ct(I, g_))), (3, P.Sp)]
                    off = 4
                    for si, s_ in enumerate(subs):
                        cuts += [(off, jat(s_, 0)), (off + 1, P.Sp)]
                        off = off + jn(s_)
                        if si + 1 < len(subs):
                            cuts.append((off, P.Sp))
                            off = off + 1
                    cuts.append((off, P.CloseB))
                for off, want in cuts:
                    fact = z3.Select(line.arr, k0 + off) == want
                    I.oblige('cut', fact, None, extra='piece of the specification at a position the parser inspects')
                    I.ctx.assume(fact)
                    line.known.append((k0 + off, want))
                return [obj], {}, [], None
            yield Case(kind, build)

    def post(self, I, case, args, result):
        t, k0, obj, line, kind = self._pre
        cur = obj.attrs['index']
        if not isinstance(result, SymTree) or not isinstance(cur, Cursor):
            return [('result', z3.BoolVal(False))]
        u = result.e
        g, h = tag(t), tag(u)
        if kind == 'leaf':
            same = z3.And(T.is_Leaf(u), ct(I, g) == ct(I, h), JWORD(g) == JWORD(h))
        elif kind == 'unary':
            same = z3.And(T.is_Un(u), ct(I, g) == ct(I, h), OP_SYMBOL(g) == OP_SYMBOL(h), jiso(T.child(t), T.child(u)))
        else:
            same = z3.And(T.is_Bin(u), ct(I, g) == ct(I, h), OP_SYMBOL(g) == OP_SYMBOL(h), jiso(T.left(t), T.left(u)), jiso(T.right(t), T.right(u)))
        return [('iso', same), ('cursor', cur.k == k0 + jn(t))]

    def apply(self, I, args, kwargs, node):
        obj = args[0]
        cur, line = obj.attrs['index'], obj.attrs['line']
        ghost = None
        for pos, s in getattr(I.ctx, 'ghosts', ()):
            if z3.is_true(z3.simplify(pos == cur.k)):
                ghost = s
        if ghost is None:
            raise CheckerError('a subtree is parsed at a position where the specification has no child')
        want_leaf = isinstance(self, JaParseLeaf)
        I.oblige('pre', T.is_Leaf(ghost) if want_leaf else z3.Not(T.is_Leaf(ghost)), node, extra='parse_leaf is entered for a leaf, parse_tree for an inner node')
        I.oblige('pre', line_is(line, cur.k, ghost), node, extra='the pieces at the cursor are the text of the child')
        u = I.fresh('parsed', T)
        I.ctx.assume(jiso(ghost, u))
        obj.attrs['index'] = Cursor(cur.k + jn(ghost))
        return SymTree(u)


class JaParseLeaf(JaParseNode):
    qualname = '_JaCCGLineReader.parse_leaf'
    kinds = ('leaf',)


class JaParseTree(JaParseNode):
    qualname = '_JaCCGLineReader.parse_tree'
    kinds = ('unary', 'binary')


def ja_lemmas(I, prop):
    from vc.engine import solve
    define(I)
    g, c, l, r, h = z3.Int('g'), z3.Const('c', T), z3.Const('l', T), z3.Const('r', T), z3.Bool('h')
    recs = []
    for kind, goal, hyp in (('lemma-base', jn(T.Leaf(g)) >= 4, []), ('lemma-step[unary]', jn(T.Un(g, c)) >= 4, [jn(c) >= 4]),
                            ('lemma-step[binary]', jn(T.Bin(g, l, r, h)) >= 4, [jn(l) >= 4, jn(r) >= 4])):
        v, b, ms, _ = solve(goal, hyp)
        recs.append(dict(name=f'{prop}/ja-pieces/jn-positive/{kind}', kind=kind.split('[')[0], verdict=v, backend=b, ms=ms, inputs=None, detail='the bank text of a tree has at least four pieces',
                         witness=dict(function='spec function jn')))
    # first pieces of a subtree (used by the parent to decide which parser to enter): by unfolding
    for nm, e, want0 in (('leaf', T.Leaf(g), P.OpenLeaf(ct(I, g))), ('unary', T.Un(g, c), P.OpenOp(OP_SYMBOL(g))), ('binary', T.Bin(g, l, r, h), P.OpenOp(OP_SYMBOL(g)))):
        v, b, ms, _ = solve(z3.And(jat(e, 0) == want0, jat(e, 1) == P.Sp), [jat(e, 0) == jat_body(I, e, z3.IntVal(0)), jat(e, 1) == jat_body(I, e, z3.IntVal(1))])
        recs.append(dict(name=f'{prop}/ja-pieces/first-pieces/{nm}', kind='lemma', verdict=v, backend=b, ms=ms, inputs=None, detail='a subtree starts with its opening piece and a blank',
                         witness=dict(function='spec function jat')))
    return recs


class JaNextLemma(Contract):
    """the real body of next(target) on characters: if the text at the cursor is a piece without the target followed by the target, next returns the piece and moves behind the target"""
    rel, qualname = RREL, '_JaCCGLineReader.next'

    def cases(self, I):
        for tgt in (' ', '}'):
            def build(I, tgt=tgt):
                m = I.load_module('depccg.tools.ja.reader')
                cls = m.env.lookup('_JaCCGLineReader')
                A, tok, B = z3.String('before'), z3.String('piece'), z3.String('after')
                line = z3.Concat(A, tok, S(tgt), B)
                obj = Obj(cls)
                obj.attrs.update(line=Z(line), index=Z(z3.Length(A)))
                self._pre = (obj, A, tok, B)
                return [obj, tgt], {}, [z3.Not(z3.Contains(tok, S(tgt)))], None
            yield Case('target-blank' if tgt == ' ' else 'target-brace', build)

    def post(self, I, case, args, result):
        obj, A, tok, B = self._pre
        return [('returns-piece', I.ex(result) == tok), ('cursor-behind-target', I.ex(obj.attrs['index']) == z3.Length(A) + z3.Length(tok) + 1)]
