"""Contracts for the AUTO round trip (C08): depccg/printer/auto.py::auto_of.rec  and  depccg/tools/reader.py::_AutoLineReader.

Both sides meet at a TOKEN-LEVEL specification of the AUTO text of a tree view t (contracts/printers.py), the sequence toks(t) of blank-separated pieces:
    leaf        (<L  CAT  POS  POS  WORD  CAT>)
    unary       (<T  CAT  0  1>  toks(child)  )
    binary      (<T  CAT  h  2>  toks(left)  toks(right)  )          h = 0 if head_is_left else 1
Printer: the f-strings / joins of auto_of.rec are executed symbolically with the fields kept as structured text; the result, cut at its literal blanks,
must be toks(node) (recursive results stand for toks(child): structural induction).
Reader: the cursor methods next / check / peek and `line[index + k]` are used through token-level contracts (ASSUMED abstraction, justified by the string lemma
`next-lemma` on the real body of next() and by the first characters of the piece kinds); parse_leaf / parse_tree are verified against
    requires  the pieces from the cursor on are toks(t)      ensures  the tree returned is iso to t, the cursor stands behind toks(t)
with the recursive parses replaced by that contract.  iso: same shape, same category text, same head flags, same POS, same (escaped) word.
"""
import ast
import z3

from vc.engine import Contract, Case
from vc.pyvc import Z, PyRaise, Env, Obj, FString
from vc.sorts import CheckerError
from contracts.printers import T, tag, nleaves, SymTree, SymToken, CAT_OF, _Method, I_, B_, S_

_K = z3.Datatype('AutoPiece')
_K.declare('OpenL')
_K.declare('OpenT')
_K.declare('Close')
_K.declare('Field', ('fs', S_))
_K.declare('LeafEnd', ('ls', S_))
K = _K.create()
KARR = z3.ArraySort(I_, K)

POS = z3.Function('tv_pos_printed', I_, S_)        # token.get('pos', 'POS') of the leaf with this tag
WORD = z3.Function('tv_word_printed', I_, S_)      # denormalize(node.word) of the leaf with this tag
RAW_WORD = z3.Function('tv_word', I_, S_)
DN = z3.Function('denormalize', S_, S_)

ntoks = z3.RecFunction('auto_ntoks', T, I_)
tokat = z3.RecFunction('auto_tokat', T, I_, K)
iso = z3.RecFunction('auto_iso', T, T, B_)
_t, _u, _j = z3.Const('t', T), z3.Const('u', T), z3.Int('j')
_W = {}


CANON = z3.Function('is_canonical_category_text', S_, B_)


def canon_axiom(I):
    """every text str(c) is canonical (definition of CANON on the image of str)"""
    c = z3.Const('c!canon', I.w.Cat)
    return z3.ForAll([c], CANON(I.w.str_spec(c)), patterns=[I.w.str_spec(c)])


def ct(I, g):
    return I.w.str_spec(CAT_OF(I)(g))


def S(x):
    return z3.StringVal(x)


def text_of(k):
    """the characters of a piece"""
    return z3.If(K.is_OpenL(k), S('(<L'), z3.If(K.is_OpenT(k), S('(<T'), z3.If(K.is_Close(k), S(')'), z3.If(K.is_Field(k), K.fs(k), z3.Concat(K.ls(k), S('>)'))))))


def define(I):
    """the recursive spec functions need the category sort of the world: defined on first use"""
    if _W.get('done'):
        return
    _W['done'] = True
    z3.RecAddDefinition(ntoks, [_t], z3.If(T.is_Leaf(_t), 6, z3.If(T.is_Un(_t), 5 + ntoks(T.child(_t)), 5 + ntoks(T.left(_t)) + ntoks(T.right(_t)))))
    z3.RecAddDefinition(tokat, [_t, _j], tokat_body(I, _t, _j))
    z3.RecAddDefinition(iso, [_t, _u], iso_body(I, _t, _u))


def tokat_body(I, t, j):
    g = tag(t)
    head = lambda flag, n: z3.If(j == 0, K.OpenT, z3.If(j == 1, K.Field(ct(I, g)), z3.If(j == 2, K.Field(flag), K.Field(S(n)))))
    nl = ntoks(T.left(t))
    return z3.If(T.is_Leaf(t),
                 z3.If(j == 0, K.OpenL, z3.If(j == 1, K.Field(ct(I, g)), z3.If(z3.Or(j == 2, j == 3), K.Field(POS(g)), z3.If(j == 4, K.Field(WORD(g)), K.LeafEnd(ct(I, g)))))),
                 z3.If(T.is_Un(t),
                       z3.If(j < 4, head(S('0'), '1>'), z3.If(j < 4 + ntoks(T.child(t)), tokat(T.child(t), j - 4), K.Close)),
                       z3.If(j < 4, head(z3.If(T.hl(t), S('0'), S('1')), '2>'),
                             z3.If(j < 4 + nl, tokat(T.left(t), j - 4), z3.If(j < 4 + nl + ntoks(T.right(t)), tokat(T.right(t), j - 4 - nl), K.Close)))))


def iso_body(I, t, u):
    g, h = tag(t), tag(u)
    return z3.If(T.is_Leaf(t), z3.And(T.is_Leaf(u), ct(I, g) == ct(I, h), POS(g) == POS(h), WORD(g) == WORD(h)),
                 z3.If(T.is_Un(t), z3.And(T.is_Un(u), ct(I, g) == ct(I, h), iso(T.child(t), T.child(u))),
                       z3.And(T.is_Bin(u), ct(I, g) == ct(I, h), T.hl(t) == T.hl(u), iso(T.left(t), T.left(u)), iso(T.right(t), T.right(u)))))


# ============================================================================ printer side
class FieldStr:
    """a space-free field of the AUTO text, kept apart inside f-strings"""
    fstring_part = True

    def __init__(self, e):
        self.e = e

    def py_str(self, I, node):
        return self


class CatField:
    """node.cat inside a printer: its text is a field of the output (kept apart in f-strings however they are nested or split)"""
    def __init__(self, I, g):
        self.I, self.g = I, g

    def py_str(self, I, node):
        return FieldStr(ct(I, self.g))


class SegStr:
    """the text rec(child) returned: stands for toks(child)"""
    fstring_part = True

    def __init__(self, t):
        self.t = t

    def py_str(self, I, node):
        return self


def pieces(I, fs):
    """cuts structured text at the blanks of its literal parts: list of K terms and ('SEG', subtree); None if a blank-free run has an unknown shape"""
    parts = fs.parts if isinstance(fs, FString) else [fs]
    runs, cur = [], []
    for p in parts:
        if isinstance(p, str):
            chunks = p.split(' ')
            for i, c in enumerate(chunks):
                if i:
                    runs.append(cur)
                    cur = []
                if c:
                    cur.append(c)
        else:
            cur.append(p)
    runs.append(cur)
    out = []
    for r in runs:
        if not r:
            return None                 # two blanks in a row / leading or trailing blank: an empty piece
        merged = []
        for x in r:                      # adjacent literals (text split over several f-strings) are one literal
            if isinstance(x, str) and merged and isinstance(merged[-1], str):
                merged[-1] += x
            else:
                merged.append(x)
        r = merged
        sv = lambda x: x.e if isinstance(x, (Z, FieldStr)) else None
        if r == ['(<L']:
            out.append(K.OpenL)
        elif r == ['(<T']:
            out.append(K.OpenT)
        elif r == [')']:
            out.append(K.Close)
        elif len(r) == 1 and isinstance(r[0], SegStr):
            out.append(('SEG', r[0].t))
        elif len(r) == 1 and isinstance(r[0], str):
            out.append(K.Field(S(r[0])))
        elif len(r) == 1 and sv(r[0]) is not None:
            out.append(K.Field(sv(r[0])))
        elif len(r) == 2 and sv(r[0]) is not None and r[1] == '>)':
            out.append(K.LeafEnd(sv(r[0])))
        elif len(r) == 2 and isinstance(r[0], str) and r[1] == '>)':
            out.append(K.LeafEnd(S(r[0])))
        elif all(isinstance(x, str) for x in r):
            out.append(K.Field(S(''.join(r))))
        else:
            return None
    return out


def desc(I, t, kind):
    """toks(t) for a node of the given constructor, children as segments"""
    g = tag(t)
    if kind == 'leaf':
        return [K.OpenL, K.Field(ct(I, g)), K.Field(POS(g)), K.Field(POS(g)), K.Field(WORD(g)), K.LeafEnd(ct(I, g))]
    if kind == 'unary':
        return [K.OpenT, K.Field(ct(I, g)), K.Field(S('0')), K.Field(S('1>')), ('SEG', T.child(t)), K.Close]
    return [K.OpenT, K.Field(ct(I, g)), K.Field(z3.If(T.hl(t), S('0'), S('1'))), K.Field(S('2>')), ('SEG', T.left(t)), ('SEG', T.right(t)), K.Close]


class AutoTree(SymTree):
    """tree view + the attributes auto_of reads"""
    def getattr(self, I, name, node):
        if name == 'word':
            if not I.branch(T.is_Leaf(self.e), node):
                raise CheckerError('Tree.word of an inner node (a blank-separated phrase) is outside the model')
            return Z(RAW_WORD(T.ltag(self.e)))
        if name == 'cat':
            return CatField(I, tag(self.e))
        v = SymTree.getattr(self, I, name, node)
        if isinstance(v, SymTree) and not isinstance(v, AutoTree):
            return AutoTree(v.e)
        if isinstance(v, list):
            return [AutoTree(x.e) if isinstance(x, SymTree) else x for x in v]
        if isinstance(v, SymToken):
            return AutoToken(v.tag)
        return v


class AutoToken(SymToken):
    def getattr(self, I, name, node):
        if name == 'get':
            def get(I, args, kwargs, node):
                if list(args) == ['pos', 'POS']:
                    return FieldStr(POS(self.tag))
                raise CheckerError(f'token.get{tuple(args)!r} is outside the model')
            return _Method(get)
        return SymToken.getattr(self, I, name, node)


AREL = 'depccg/printer/auto.py'


class Denormalize(Contract):
    """depccg.utils.denormalize: an opaque function of the word; WORD(tag) names denormalize(word of the leaf)"""
    rel, qualname = 'depccg/utils.py', 'denormalize'

    def apply(self, I, args, kwargs, node):
        w = args[0]
        if isinstance(w, Z) and z3.is_app(w.e) and w.e.decl().name() == 'tv_word':
            return FieldStr(WORD(w.e.arg(0)))
        raise CheckerError('denormalize of something that is not the word of a leaf')


class AutoRec(Contract):
    rel, role = AREL, 'auto_of.rec'

    def __init__(self):
        from contracts.printers import find_recursive_helper
        # nested in auto_of or a module-level function it calls: found by role (the recursive function the encoder calls)
        self.qualname = find_recursive_helper(AREL, 'auto_of', 'auto_of.rec')

    def closure_env(self, I, f):
        m = I.load_module('depccg.printer.auto')
        env = Env(m.env)
        env.set(f.node.name, f)
        return env

    def cases(self, I):
        define(I)
        for kind in ('leaf', 'unary', 'binary'):
            def build(I, kind=kind):
                g = z3.Int('g')
                t = {'leaf': T.Leaf(g), 'unary': T.Un(g, z3.Const('c', T)), 'binary': T.Bin(g, z3.Const('l', T), z3.Const('r', T), z3.Bool('h'))}[kind]
                self._pre = (t, kind)
                return [AutoTree(t)], {}, [], None
            yield Case(kind, build)

    def post(self, I, case, args, result):
        t, kind = self._pre
        got = pieces(I, result) if isinstance(result, (FString, str)) else None
        want = desc(I, t, kind)
        if got is None or len(got) != len(want):
            return [('pieces', z3.BoolVal(False))]
        cs = []
        for a, b in zip(got, want):
            if isinstance(a, tuple) or isinstance(b, tuple):
                cs.append(z3.BoolVal(isinstance(a, tuple) and isinstance(b, tuple)) if not (isinstance(a, tuple) and isinstance(b, tuple)) else a[1] == b[1])
            else:
                cs.append(a == b)
        return [('pieces', z3.And(cs))]

    def apply(self, I, args, kwargs, node):
        if len(args) != 1 or not isinstance(args[0], SymTree):
            raise CheckerError('rec called with something that is not a tree view')
        return SegStr(args[0].e)


# ============================================================================ reader side
class Cursor:
    def __init__(self, k):
        self.k = k

    def binop(self, I, op, other, node):
        if isinstance(op, ast.Add) and isinstance(other, int):
            return CursorPlus(self.k, other)
        raise CheckerError('arithmetic on the reader cursor other than index + constant')


class CursorPlus:
    def __init__(self, k, off):
        self.k, self.off = k, off


class TokLine:
    """self.line seen as blank-separated pieces LINE[k]"""
    def __init__(self, arr):
        self.arr = arr
        self.known = []          # (position, piece) cut facts, read back syntactically (path decisions on them need no solver)

    def piece(self, k):
        for idx, term in self.known:
            if z3.is_true(z3.simplify(idx == k)):
                return term
        return z3.Select(self.arr, k)

    def char(self, I, k, off, node):
        txt = text_of(self.piece(k))
        # the abstraction is faithful only inside the piece
        I.oblige('abstraction', z3.Length(txt) > off, node, extra=f'character {off} of the piece at the cursor exists (the contract of line[index + {off}] does not look past the piece)')
        return Z(z3.simplify(z3.SubString(txt, off, 1)))

    def getitem(self, I, key, node):
        if isinstance(key, CursorPlus):
            return self.char(I, key.k, key.off, node)
        if isinstance(key, Cursor):
            return self.char(I, key.k, 0, node)
        raise CheckerError('self.line indexed with something that is not the cursor')


class AppendLog:
    def __init__(self):
        self.items = []

    def getattr(self, I, name, node):
        if name == 'append':
            return _Method(lambda I, args, kwargs, node: self.items.append(args[0]))
        raise CheckerError(f'tokens.{name}')


RREL = 'depccg/tools/reader.py'


def reader_state(I, k0):
    m = I.load_module('depccg.tools.reader')
    cls = m.env.lookup('_AutoLineReader')
    line = TokLine(z3.Const('LINE', KARR))
    obj = Obj(cls)
    obj.attrs.update(line=line, index=Cursor(k0), word_id=Z(z3.Int('word_id0')), tokens=AppendLog(), binary_rules='binary_rules')
    return obj, line


def line_is(line, k0, t):
    j = z3.Int('j!l')
    return z3.ForAll([j], z3.Implies(z3.And(j >= k0, j < k0 + ntoks(t)), line.piece(j) == tokat(t, j - k0)))


def unfold_tokat(I, e):
    j = z3.Int('j!ut')
    I.ctx.assume(z3.ForAll([j], tokat(e, j) == tokat_body(I, e, j)))


class ReaderNext(Contract):
    """token-level contract of next(): returns the text of the piece at the cursor and moves behind it (ASSUMED abstraction; see next-lemma)"""
    rel, qualname = RREL, '_AutoLineReader.next'

    def apply(self, I, args, kwargs, node):
        obj = args[0]
        cur, line = obj.attrs['index'], obj.attrs['line']
        if not isinstance(cur, Cursor):
            raise CheckerError('next() while self.index is not the cursor')
        obj.attrs['index'] = Cursor(cur.k + 1)
        return Z(z3.simplify(text_of(line.piece(cur.k))))


class ReaderCheck(Contract):
    rel, qualname = RREL, '_AutoLineReader.check'

    def apply(self, I, args, kwargs, node):
        obj, text = args[0], args[1]
        off = args[2] if len(args) > 2 else kwargs.get('offset', 0)
        cur, line = obj.attrs['index'], obj.attrs['line']
        c = line.char(I, cur.k, off, node)
        if I.truth(I.py_eq(c, text, node), node):
            return None
        raise PyRaise('RuntimeError', 'failed to parse', node)


class ReaderPeek(Contract):
    rel, qualname = RREL, '_AutoLineReader.peek'

    def apply(self, I, args, kwargs, node):
        obj = args[0]
        return obj.attrs['line'].char(I, obj.attrs['index'].k, 0, node)


class NewToken:
    def __init__(self, fields):
        self.fields = fields


class RuleRec:
    """what guess_combinator_by_triplet returns: opaque label, symbol and head direction (C12 decides them)"""
    def __init__(self, I):
        self.f = dict(op_string=Z(I.fresh('rule_op_string', S_)), op_symbol=Z(I.fresh('rule_op_symbol', S_)), head_is_left=Z(I.fresh('rule_head_is_left', B_)))

    def getattr(self, I, name, node):
        if name in self.f:
            return self.f[name]
        raise PyRaise('AttributeError', name, node)


class TreeFactory:
    """Tree.make_terminal / make_unary / make_binary through the tree view (the view is checked against the real constructors in C07)"""
    def getattr(self, I, name, node):
        def fresh_tag(cat):
            g = I.fresh('tag', I_)
            I.ctx.assume(CAT_OF(I)(g) == I.ex(cat))
            return g
        if name == 'make_terminal':
            def mk(I, args, kwargs, node):
                tok, cat = args[0], args[1]
                if not isinstance(tok, NewToken):
                    raise CheckerError('make_terminal with something that is not the token just built')
                g = fresh_tag(cat)
                I.ctx.assume(z3.And(POS(g) == I.ex(tok.fields['pos']), WORD(g) == I.ex(tok.fields['word'])))
                return SymTree(T.Leaf(g))
            return _Method(mk)
        if name == 'make_unary':
            def mk(I, args, kwargs, node):
                cat, child = args[0], args[1]
                return SymTree(T.Un(fresh_tag(cat), child.e))
            return _Method(mk)
        if name == 'make_binary':
            def mk(I, args, kwargs, node):
                a = list(args) + [None] * (6 - len(args))
                cat, left, right, hl = a[0], a[1], a[2], kwargs.get('head_is_left', a[5])
                hl = z3.BoolVal(True) if hl is None else I.ex(hl) if not isinstance(hl, bool) else z3.BoolVal(hl)
                return SymTree(T.Bin(fresh_tag(cat), left.e, right.e, hl))
            return _Method(mk)
        raise CheckerError(f'Tree.{name}')


class CategoryFactory:
    """Category.parse on a text depccg printed: parse(str(c)) = c (C05)"""
    def getattr(self, I, name, node):
        if name == 'parse':
            def parse(I, args, kwargs, node):
                s = args[0]
                e = I.ex(s) if not isinstance(s, str) else None
                if e is not None and z3.is_app(e) and e.decl().name() == 'str_spec':
                    return Z(e.arg(0))
                # C05: for the canonical text of a category, parse returns a category with that text (parse(str(c)) = c)
                c = I.fresh('parsed_cat', I.w.Cat)
                if e is not None:
                    I.ctx.assume(z3.Implies(CANON(e), I.w.str_spec(c) == e))
                return Z(c)
            return _Method(parse)
        raise CheckerError(f'Category.{name}')


def install_reader_env(I):
    from contracts.printers import install_etree
    install_etree(I)
    m = I.load_module('depccg.tools.reader')
    m.env.vars['Tree'] = TreeFactory()
    m.env.vars['Category'] = CategoryFactory()
    m.env.vars['Token'] = _Method(lambda I_, args, kwargs, node: NewToken(dict(kwargs)))
    m.env.vars['guess_combinator_by_triplet'] = _Method(lambda I_, args, kwargs, node: RuleRec(I_))
    return m


class ParseNode(Contract):
    """shared by parse_leaf / parse_tree: requires the pieces at the cursor to be toks(t); ensures a tree iso to t and the cursor behind toks(t)"""
    rel = RREL
    kinds = ()

    def cases(self, I):
        define(I)
        for kind in self.kinds:
            def build(I, kind=kind):
                g = z3.Int('g')
                t = {'leaf': T.Leaf(g), 'unary': T.Un(g, z3.Const('c', T)), 'binary': T.Bin(g, z3.Const('l', T), z3.Const('r', T), z3.Bool('h'))}[kind]
                k0 = z3.Int('k0')
                obj, line = reader_state(I, k0)
                self._pre = (t, k0, obj, line, kind)
                unfold_tokat(I, t)
                subs = [] if kind == 'leaf' else [T.child(t)] if kind == 'unary' else [T.left(t), T.right(t)]
                for s in subs:
                    I.ctx.assume(ntoks(s) >= 5)          # lemma ntoks-positive (reader_lemmas)
                pos = k0 + 4
                ghosts = []
                for s in subs:
                    ghosts.append((pos, s))
                    pos = pos + ntoks(s)
                I.ctx.ghosts = ghosts
                g_ = tag(t)
                # the printed word field has no backslash (quantifier of C08); CANON: the category fields are texts str(c)
                pre = [k0 >= 0, line_is(line, k0, t), canon_axiom(I), z3.Not(z3.Contains(WORD(g_), S('\\')))]
                for a in pre:
                    I.ctx.assume(a)
                # cut facts: the pieces at the positions the parser inspects, as ground consequences of the precondition (obligation, then fact)
                if kind == 'leaf':
                    cuts = [(0, K.OpenL), (1, K.Field(ct(I, g_))), (2, K.Field(POS(g_))), (3, K.Field(POS(g_))), (4, K.Field(WORD(g_))), (5, K.LeafEnd(ct(I, g_)))]
                else:
                    flag = S('0') if kind == 'unary' else z3.If(T.hl(t), S('0'), S('1'))
                    cuts = [(0, K.OpenT), (1, K.Field(ct(I, g_))), (2, K.Field(flag)), (3, K.Field(S('1>' if kind == 'unary' else '2>')))]
                    off = 4
                    for s_ in subs:
                        cuts.append((off, z3.If(T.is_Leaf(s_), K.OpenL, K.OpenT)))
                        off = off + ntoks(s_)
                    cuts.append((off, K.Close))
                for off, want in cuts:
                    fact = z3.Select(line.arr, k0 + off) == want
                    I.oblige('cut', fact, None, extra='piece of the specification at a position the parser inspects')
                    I.ctx.assume(fact)
                    line.known.append((k0 + off, want))
                return [obj], {}, [], None
            yield Case(kind, build)

    def post(self, I, case, args, result):
        t, k0, obj, line, kind = self._pre
        cur = obj.attrs['index']
        if not isinstance(result, SymTree) or not isinstance(cur, Cursor):
            return [('result', z3.BoolVal(False))]
        u = result.e
        g, h = tag(t), tag(u)
        if kind == 'leaf':
            same = z3.And(T.is_Leaf(u), ct(I, g) == ct(I, h), POS(g) == POS(h), WORD(g) == WORD(h))
        elif kind == 'unary':
            same = z3.And(T.is_Un(u), ct(I, g) == ct(I, h), iso(T.child(t), T.child(u)))
        else:
            same = z3.And(T.is_Bin(u), ct(I, g) == ct(I, h), T.hl(t) == T.hl(u), iso(T.left(t), T.left(u)), iso(T.right(t), T.right(u)))
        return [('iso', same), ('cursor', cur.k == k0 + ntoks(t))]

    def apply(self, I, args, kwargs, node):
        obj = args[0]
        cur, line = obj.attrs['index'], obj.attrs['line']
        ghost = None
        for pos, s in getattr(I.ctx, 'ghosts', ()):
            if z3.is_true(z3.simplify(pos == cur.k)):
                ghost = s
        if ghost is None:
            raise CheckerError('a subtree is parsed at a position where the specification has no child')
        want_leaf = isinstance(self, ParseLeaf)
        # which parser is called is decided by the caller from the third character: the contract is only usable for the matching constructor
        I.oblige('pre', T.is_Leaf(ghost) if want_leaf else z3.Not(T.is_Leaf(ghost)), node, extra='parse_leaf is entered for a leaf, parse_tree for an inner node')
        I.oblige('pre', line_is(line, cur.k, ghost), node, extra='the pieces at the cursor are the text of the child')
        u = I.fresh('parsed', T)
        I.ctx.assume(iso(ghost, u))
        obj.attrs['index'] = Cursor(cur.k + ntoks(ghost))
        return SymTree(u)


class ParseLeaf(ParseNode):
    qualname = '_AutoLineReader.parse_leaf'
    kinds = ('leaf',)


class ParseTree(ParseNode):
    qualname = '_AutoLineReader.parse_tree'
    kinds = ('unary', 'binary')


def reader_lemmas(I, prop):
    """ntoks-positive (structural induction); iso is reflexive on the data the printer prints is not needed; next-lemma: the real body of next() on characters"""
    from vc.engine import solve
    define(I)
    g, c, l, r, h = z3.Int('g'), z3.Const('c', T), z3.Const('l', T), z3.Const('r', T), z3.Bool('h')
    recs = []
    for kind, goal, hyp in (('lemma-base', ntoks(T.Leaf(g)) >= 5, []), ('lemma-step[unary]', ntoks(T.Un(g, c)) >= 5, [ntoks(c) >= 5]),
                            ('lemma-step[binary]', ntoks(T.Bin(g, l, r, h)) >= 5, [ntoks(l) >= 5, ntoks(r) >= 5])):
        v, b, ms, _ = solve(goal, hyp)
        recs.append(dict(name=f'{prop}/auto-pieces/ntoks-positive/{kind}', kind=kind.split('[')[0], verdict=v, backend=b, ms=ms, inputs=None, detail='the AUTO text of a tree has at least five pieces',
                         witness=dict(function='spec function ntoks')))
    # lemma reprint: iso trees have the same pieces (so printing the tree read back reproduces the line): structural induction, instantiated at one position j
    j = z3.Int('j')
    g2, c2, l2, r2, h2 = z3.Int('g2'), z3.Const('c2', T), z3.Const('l2', T), z3.Const('r2', T), z3.Bool('h2')

    def inst(e, j_):
        return z3.And(tokat(e, j_) == tokat_body(I, e, j_), iso_inst(e))

    def same(a, b, j_):
        return z3.And(ntoks(a) == ntoks(b), tokat(a, j_) == tokat(b, j_))
    iso_inst = lambda e: z3.BoolVal(True)
    pairs = [('lemma-base', T.Leaf(g), T.Leaf(g2), []),
             ('lemma-step[unary]', T.Un(g, c), T.Un(g2, c2), [z3.Implies(iso(c, c2), same(c, c2, j - 4))]),
             ('lemma-step[binary]', T.Bin(g, l, r, h), T.Bin(g2, l2, r2, h2),
              [z3.Implies(iso(l, l2), same(l, l2, j - 4)), z3.Implies(iso(r, r2), same(r, r2, j - 4 - ntoks(l))), ntoks(l) >= 5, ntoks(r) >= 5, ntoks(l2) >= 5, ntoks(r2) >= 5])]
    for kind, a, b, hyp in pairs:
        hyps = [iso(a, b), iso(a, b) == iso_body(I, a, b), tokat(a, j) == tokat_body(I, a, j), tokat(b, j) == tokat_body(I, b, j)] + hyp
        v, bk, ms, _ = solve(same(a, b, j), hyps, timeout_ms=30000)
        recs.append(dict(name=f'{prop}/auto-pieces/reprint/{kind}', kind=kind.split('[')[0], verdict=v, backend=bk, ms=ms, inputs=None,
                         detail='trees that are iso (shape, category text, head flags, POS, escaped word) have the same AUTO pieces: printing the tree read back reproduces the line',
                         witness=dict(function='spec functions tokat / iso')))
    return recs


class NextLemma(Contract):
    """the real body of next() on characters: if the text at the cursor is a blank-free piece followed by a blank, next() returns the piece and moves behind the blank.
    This is what the token-level contract ReaderNext abstracts."""
    rel, qualname = RREL, '_AutoLineReader.next'

    def cases(self, I):
        def build(I):
            m = I.load_module('depccg.tools.reader')
            cls = m.env.lookup('_AutoLineReader')
            A, tok, B = z3.String('before'), z3.String('piece'), z3.String('after')
            line = z3.Concat(A, tok, S(' '), B)
            obj = Obj(cls)
            obj.attrs.update(line=Z(line), index=Z(z3.Length(A)))
            self._pre = (obj, A, tok, B)
            return [obj], {}, [z3.Not(z3.Contains(tok, S(' ')))], None
        yield Case('piece-then-blank', build)

    def post(self, I, case, args, result):
        obj, A, tok, B = self._pre
        return [('returns-piece', I.ex(result) == tok), ('cursor-behind-blank', I.ex(obj.attrs['index']) == z3.Length(A) + z3.Length(tok) + 1)]
