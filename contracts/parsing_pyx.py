"""Contracts for depccg/parsing.pyx, verified on the DePyx text of the file (vc/depyx.py: mechanical .pyx -> .py extraction, re-done on every run; what it
drops - C types, pointer-ness, exception specifications - is listed in its docstring).

retrieve_tree (C02 / C12, Python half): by structural induction over the item the search hands to the finaliser,

    Item = ILeaf(cat) | IUn(cat, child, rule) | IBin(cat, left, right, rule) | IFin(child, score)

the call pushes exactly one tree, tree_of(item, k0), on the result stack, advances the token counter by the number of leaves, appends the score of a final item
and returns the category id of the item (of the child for a final item), where

    tree_of(ILeaf(c), k)          = terminal(tokens[k], categories[c])
    tree_of(IUn(c, ch, r), k)     = unary(categories[c], tree_of(ch, k), label of cache[(icat(ch), UINT_MAX)][r])
    tree_of(IBin(c, l, rr, r), k) = binary(categories[c], tree_of(l, k), tree_of(rr, k + nl(l)), label and head flag of cache[(icat(l), icat(rr))][r])

i.e. leaves carry the tokens in order, every node carries the category its id stands for, and the label / head flag of a node are those of the very cache
entry (children categories, rule index) that created it.  The recursive calls are replaced by the contract; the stack entries below the entry height are never
touched (frame).

scaffold (C12): every element (cat_id, rule_id, result) of the callback's answer is appended to the C++ vector exactly once, in order, as a record with these
ids, result.head_is_left and the utf-8 encodings of result.op_string / op_symbol; 0 is returned.

Assumed: Tree.make_terminal / make_unary / make_binary build the node they are told to (checked against depccg/tree.py by `constructor_records`);
bytes.decode('utf-8') inverts str.encode('utf-8'); the C++ side stores pair.second = -1 as UINT_MAX (unsigned)."""
import z3

from vc.engine import Contract, Case
from vc.pyvc import Z, PyRaise, Env, Obj
from vc.sorts import CheckerError

REL = 'depccg/parsing.pyx'
DOTTED = 'depccg._parsing_depyx'
I_ = z3.IntSort()
S_ = z3.StringSort()
U32 = 2 ** 32

_D = {}


def sorts(I):
    if 'Item' in _D:
        return _D
    w = I.w
    Item = z3.Datatype('PyxItem')
    Item.declare('ILeaf', ('lcat', I_))
    Item.declare('IUn', ('ucat', I_), ('uchild', Item), ('urule', I_))
    Item.declare('IBin', ('bcat', I_), ('bleft', Item), ('bright', Item), ('brule', I_))
    Item.declare('IFin', ('fchild', Item), ('fscore', z3.RealSort()))
    Item = Item.create()
    PT = z3.Datatype('PyxTree')
    PT.declare('PLeaf', ('tok', I_), ('pcat', w.Cat))
    PT.declare('PUn', ('pucat', w.Cat), ('puchild', PT), ('pustr', S_), ('pusym', S_))
    PT.declare('PBin', ('pbcat', w.Cat), ('pbleft', PT), ('pbright', PT), ('pbstr', S_), ('pbsym', S_), ('pbhead', z3.BoolSort()))
    PT = PT.create()
    CATS = z3.Function('pyx_categories', I_, w.Cat)                       # kwargs['categories'][i]
    OPSTR = z3.Function('pyx_cache_op_string', I_, I_, I_, S_)            # decoded op_string of cache[(x, y)][k]
    OPSYM = z3.Function('pyx_cache_op_symbol', I_, I_, I_, S_)
    HEAD = z3.Function('pyx_cache_head', I_, I_, I_, z3.BoolSort())
    icat = z3.RecFunction('pyx_icat', Item, I_)
    nl = z3.RecFunction('pyx_nleaves', Item, I_)
    tree_of = z3.RecFunction('pyx_tree_of', Item, I_, PT)
    e, k = z3.Const('e!pyx', Item), z3.Int('k!pyx')
    z3.RecAddDefinition(icat, [e], z3.If(Item.is_ILeaf(e), Item.lcat(e), z3.If(Item.is_IUn(e), Item.ucat(e), z3.If(Item.is_IBin(e), Item.bcat(e), icat(Item.fchild(e))))))
    z3.RecAddDefinition(nl, [e], z3.If(Item.is_ILeaf(e), 1, z3.If(Item.is_IUn(e), nl(Item.uchild(e)), z3.If(Item.is_IBin(e), nl(Item.bleft(e)) + nl(Item.bright(e)), nl(Item.fchild(e))))))
    UMAX = z3.IntVal(U32 - 1)
    z3.RecAddDefinition(tree_of, [e, k], tree_body(dict(Item=Item, PT=PT, CATS=CATS, OPSTR=OPSTR, OPSYM=OPSYM, HEAD=HEAD, icat=icat, nl=nl, tree_of=tree_of, UMAX=UMAX), e, k))
    nofin = z3.RecFunction('pyx_nofin', Item, z3.BoolSort())
    z3.RecAddDefinition(nofin, [e], nofin_body(Item, nofin, e))
    _D.update(Item=Item, PT=PT, CATS=CATS, OPSTR=OPSTR, OPSYM=OPSYM, HEAD=HEAD, icat=icat, nl=nl, tree_of=tree_of, UMAX=UMAX, nofin=nofin)
    return _D


def nofin_body(Item, nofin, e):
    return z3.If(Item.is_ILeaf(e), z3.BoolVal(True), z3.If(Item.is_IUn(e), nofin(Item.uchild(e)), z3.If(Item.is_IBin(e), z3.And(nofin(Item.bleft(e)), nofin(Item.bright(e))), z3.BoolVal(False))))


def pre_item(D, e):
    """items the search hands over: a final item wraps an item without final items below it; anything else contains no final item
    (CxxVC: only the goal site creates final items, over a chart item - obligations `not-final`, `licensed@goal`)"""
    Item = D['Item']
    return z3.If(Item.is_IFin(e), D['nofin'](Item.fchild(e)), D['nofin'](e))


def tree_body(D, e, k):
    Item, PT = D['Item'], D['PT']
    ch, l, r = Item.uchild(e), Item.bleft(e), Item.bright(e)
    un = PT.PUn(D['CATS'](Item.ucat(e)), D['tree_of'](ch, k), D['OPSTR'](D['icat'](ch), D['UMAX'], Item.urule(e)), D['OPSYM'](D['icat'](ch), D['UMAX'], Item.urule(e)))
    bi = PT.PBin(D['CATS'](Item.bcat(e)), D['tree_of'](l, k), D['tree_of'](r, k + D['nl'](l)),
                 D['OPSTR'](D['icat'](l), D['icat'](r), Item.brule(e)), D['OPSYM'](D['icat'](l), D['icat'](r), Item.brule(e)), D['HEAD'](D['icat'](l), D['icat'](r), Item.brule(e)))
    return z3.If(Item.is_ILeaf(e), PT.PLeaf(k, D['CATS'](Item.lcat(e))), z3.If(Item.is_IUn(e), un, z3.If(Item.is_IBin(e), bi, D['tree_of'](Item.fchild(e), k))))


def unfold(I, e, k):
    """the definitions of the spec functions at the root term (z3 unfolds recursive functions lazily; the instance at the root is what every path needs)"""
    D = sorts(I)
    Item = D['Item']
    I.ctx.assume(D['tree_of'](e, k) == tree_body(D, e, k))
    I.ctx.assume(D['icat'](e) == z3.If(Item.is_ILeaf(e), Item.lcat(e), z3.If(Item.is_IUn(e), Item.ucat(e), z3.If(Item.is_IBin(e), Item.bcat(e), D['icat'](Item.fchild(e))))))
    I.ctx.assume(D['nofin'](e) == nofin_body(Item, D['nofin'], e))
    I.ctx.assume(D['nl'](e) == z3.If(Item.is_ILeaf(e), 1, z3.If(Item.is_IUn(e), D['nl'](Item.uchild(e)),
                                     z3.If(Item.is_IBin(e), D['nl'](Item.bleft(e)) + D['nl'](Item.bright(e)), D['nl'](Item.fchild(e))))))


# ------------------------------------------------------------------------------ symbolic values
class _M:
    def __init__(self, fn):
        self.fn = fn

    def call(self, I, args, kwargs, node):
        return self.fn(I, args, kwargs, node)


class SymItem:
    """cell_item* seen through the Item view"""
    def __init__(self, D, e):
        self.D, self.e = D, e

    def py_eq_first(self, I, other, node):
        return other is self          # compared with None (NULL) only

    def getattr(self, I, name, node):
        D, e = self.D, self.e
        Item = D['Item']
        if name == 'fin':
            return Z(Item.is_IFin(e))
        if name == 'left':
            if I.branch(Item.is_ILeaf(e), node):
                return None
            if I.branch(Item.is_IUn(e), node):
                return SymItem(D, Item.uchild(e))
            if I.branch(Item.is_IBin(e), node):
                return SymItem(D, Item.bleft(e))
            return SymItem(D, Item.fchild(e))
        if name == 'right':
            if I.branch(Item.is_IBin(e), node):
                return SymItem(D, Item.bright(e))
            return None                 # leaf, unary and final items have no right child
        if name == 'cat':
            if I.branch(Item.is_IFin(e), node):
                return Z(I.fresh('fin_cat', I_))         # the category field of a final item is not part of the view
            return Z(z3.If(Item.is_ILeaf(e), Item.lcat(e), z3.If(Item.is_IUn(e), Item.ucat(e), Item.bcat(e))))
        if name == 'rule_id':
            if I.branch(Item.is_IUn(e), node):
                return Z(Item.urule(e))
            if I.branch(Item.is_IBin(e), node):
                return Z(Item.brule(e))
            return Z(I.fresh('rule_id', I_))
        if name == 'score':
            return _M(lambda I_, a, k, n: Z(z3.If(Item.is_IFin(e), Item.fscore(e), I_.fresh('score', z3.RealSort()))))
        raise CheckerError(f'cell_item.{name} is outside the item view')


class SymCounter1:
    """unsigned *token_id: one cell"""
    def __init__(self, k):
        self.k = k

    def getitem(self, I, idx, node):
        if idx != 0:
            raise CheckerError('token_id[i] with i != 0')
        return Z(self.k)

    def setitem(self, I, idx, v, node):
        if idx != 0:
            raise CheckerError('token_id[i] with i != 0')
        self.k = I.ex(v)


class SymPT:
    """a Tree object built by this call, as a term of the tree datatype"""
    def __init__(self, term):
        self.term = term


class SymStack:
    """kwargs['stack']: the entries present at entry are opaque and must not be touched; `pushed` are the entries above them"""
    def __init__(self):
        self.pushed = []
        self.underflow = False

    def getattr(self, I, name, node):
        if name == 'append':
            def app(I_, a, k, n):
                if not isinstance(a[0], SymPT):
                    raise CheckerError('something that is not a tree built here is pushed on the result stack')
                self.pushed.append(a[0].term)
                return None
            return _M(app)
        if name == 'pop':
            def pop(I_, a, k, n):
                if a:
                    raise CheckerError('stack.pop(i)')
                if not self.pushed:
                    self.underflow = True
                    I_.oblige('frame', z3.BoolVal(False), n, extra='the result stack is popped below its height at entry (entries of other calls would be consumed)')
                    raise PyRaise('IndexError', 'pop from empty list', n)
                return SymPT(self.pushed.pop())
            return _M(pop)
        raise CheckerError(f'list.{name} on the result stack')


class SymScores:
    def __init__(self):
        self.appended = []

    def getattr(self, I, name, node):
        if name == 'append':
            return _M(lambda I_, a, k, n: self.appended.append(I_.ex(a[0])))
        raise CheckerError(f'list.{name} on the score list')


class SymCats:
    def __init__(self, D):
        self.D = D

    def getitem(self, I, i, node):
        return Z(self.D['CATS'](I.ex(i)))


class SymToks:
    def getitem(self, I, i, node):
        return SymTok(I.ex(i))


class SymTok:
    def __init__(self, idx):
        self.idx = idx


class SymPair:
    """pair[unsigned, unsigned]: assigning -1 stores UINT_MAX"""
    def __init__(self):
        self.first, self.second = z3.IntVal(0), z3.IntVal(0)

    def setattr(self, I, name, v, node=None):
        if name not in ('first', 'second'):
            raise CheckerError(f'pair.{name}')
        x = I.ex(v)
        setattr(self, name, z3.simplify(z3.If(x < 0, x + U32, x)))

    def getattr(self, I, name, node):
        if name in ('first', 'second'):
            return Z(getattr(self, name))
        raise CheckerError(f'pair.{name}')


class SymBytes:
    def __init__(self, s):
        self.s = s

    def getattr(self, I, name, node):
        if name == 'decode':
            def dec(I_, a, k, n):
                if list(a) != ['utf-8'] or k:
                    raise CheckerError('decode with another codec')
                return Z(self.s)
            return _M(dec)
        raise CheckerError(f'bytes.{name}')


class SymCacheEntry:
    def __init__(self, D, x, y, k):
        self.D, self.x, self.y, self.k = D, x, y, k

    def getattr(self, I, name, node):
        D = self.D
        if name == 'op_string':
            return SymBytes(D['OPSTR'](self.x, self.y, self.k))
        if name == 'op_symbol':
            return SymBytes(D['OPSYM'](self.x, self.y, self.k))
        if name == 'head_is_left':
            return Z(D['HEAD'](self.x, self.y, self.k))
        raise CheckerError(f'combinator_result.{name}')


class SymCache:
    """cache_type*: cache[0][key][k]"""
    def __init__(self, D, level=0, key=None):
        self.D, self.level, self.key = D, level, key

    def getitem(self, I, i, node):
        if self.level == 0:
            if i != 0:
                raise CheckerError('cache[i] with i != 0')
            return SymCache(self.D, 1)
        if self.level == 1:
            if not isinstance(i, SymPair):
                raise CheckerError('the cache is indexed with something that is not the pair')
            return SymCache(self.D, 2, (i.first, i.second))
        return SymCacheEntry(self.D, self.key[0], self.key[1], I.ex(i))


def c_default(I, args, kwargs, node):
    ty = args[0]
    if ty.startswith('pair['):
        return SymPair()
    if ty == 'combinator_result':
        return SymRecord()
    return None


class SymRecord:
    """a C struct local: plain attribute store"""
    def __init__(self):
        self.f = {}

    def setattr(self, I, name, v, node=None):
        self.f[name] = v

    def getattr(self, I, name, node):
        if name in self.f:
            return self.f[name]
        raise PyRaise('AttributeError', name, node)


# ------------------------------------------------------------------------------ module set-up
def install(I):
    """loads the DePyx text as a virtual module; Tree constructors through their contracts; tqdm as the identity"""
    import types
    from vc import depyx
    if DOTTED in I.modules:
        return I.modules[DOTTED]
    D = sorts(I)
    tq = types.ModuleType('tqdm')
    tq.tqdm = _M(lambda I_, a, k, n: a[0])
    I.modules['tqdm'] = tq
    src, dropped = depyx.load()
    I.pyx_dropped = dropped
    m = I.load_virtual(DOTTED, REL, src, predefined=dict(__c_default__=_M(c_default), UINT_MAX=U32 - 1))
    # the tree constructors, through their contracts
    treecls = m.env.lookup('Tree')
    I.pyx_tree_ctor = dict(make_terminal=_M(lambda I_, a, k, n: make_terminal(I_, D, a, k, n)), make_unary=_M(lambda I_, a, k, n: make_unary(I_, D, a, k, n)),
                           make_binary=_M(lambda I_, a, k, n: make_binary(I_, D, a, k, n)))
    m.env.vars['Tree'] = TreeFacade(I.pyx_tree_ctor)
    return m


class TreeFacade:
    def __init__(self, ctors):
        self.ctors = ctors

    def getattr(self, I, name, node):
        if name in self.ctors:
            return self.ctors[name]
        raise CheckerError(f'Tree.{name} is used by parsing.pyx: outside the constructor contracts')


def make_terminal(I, D, a, k, node):
    if k or len(a) != 2 or not isinstance(a[0], SymTok):
        raise CheckerError('Tree.make_terminal is not called with (token of the sentence, category)')
    return SymPT(D['PT'].PLeaf(a[0].idx, I.ex(a[1])))


def make_unary(I, D, a, k, node):
    if k or len(a) != 4 or not isinstance(a[1], SymPT):
        raise CheckerError('Tree.make_unary is not called with (category, tree, op_string, op_symbol)')
    return SymPT(D['PT'].PUn(I.ex(a[0]), a[1].term, I.ex(a[2]), I.ex(a[3])))


def make_binary(I, D, a, k, node):
    if k or len(a) != 6 or not isinstance(a[1], SymPT) or not isinstance(a[2], SymPT):
        raise CheckerError('Tree.make_binary is not called with (category, left, right, op_string, op_symbol, head_is_left)')
    h = a[5]
    return SymPT(D['PT'].PBin(I.ex(a[0]), a[1].term, a[2].term, I.ex(a[3]), I.ex(a[4]), I.ex(h) if not isinstance(h, bool) else z3.BoolVal(h)))


# ------------------------------------------------------------------------------ retrieve_tree
class RetrieveTree(Contract):
    rel, qualname = REL, 'retrieve_tree'

    def cases(self, I):
        D = sorts(I)

        def build(I):
            install(I)
            e = z3.Const('item', D['Item'])
            k0 = z3.Int('token_id0')
            st, sc, tok = SymStack(), SymScores(), SymCounter1(k0)
            kwargs = dict(categories=SymCats(D), tokens=SymToks(), stack=st, scores=sc)
            self._pre = dict(e=e, k0=k0, st=st, sc=sc, tok=tok)
            unfold(I, e, k0)
            return [SymItem(D, e), tok, SymCache(D), kwargs], {}, [k0 >= 0, pre_item(D, e)], None
        yield Case('any-item', build)

    def post(self, I, case, args, result):
        D = sorts(I)
        p = self._pre
        e, k0, st, sc, tok = p['e'], p['k0'], p['st'], p['sc'], p['tok']
        Item = D['Item']
        out = [('returns-category-id', I.ex(result) == D['icat'](e) if result is not None else z3.BoolVal(False)),
               ('token-counter', tok.k == k0 + D['nl'](e)),
               ('one-tree-pushed', z3.BoolVal(len(st.pushed) == 1 and not st.underflow)),
               ('tree', st.pushed[0] == D['tree_of'](e, k0) if len(st.pushed) == 1 else z3.BoolVal(False)),
               ('scores', z3.If(Item.is_IFin(e), z3.BoolVal(len(sc.appended) == 1) if len(sc.appended) != 1 else sc.appended[0] == Item.fscore(e), z3.BoolVal(len(sc.appended) == 0)))]
        return out

    def apply(self, I, args, kwargs, node):
        D = sorts(I)
        if kwargs or len(args) != 4 or not isinstance(args[0], SymItem) or not isinstance(args[1], SymCounter1) or not isinstance(args[3], dict):
            raise CheckerError('retrieve_tree is called recursively with something other than (child item, token counter, cache, kwargs)')
        e, tok = args[0].e, args[1]
        st, sc = args[3].get('stack'), args[3].get('scores')
        if not isinstance(st, SymStack) or not isinstance(sc, SymScores):
            raise CheckerError('retrieve_tree is called with another stack / score list')
        Item = D['Item']
        # precondition of the recursive call: the child contains no final item (follows from the precondition of this call)
        I.oblige('pre', D['nofin'](e), node, extra='the item handed to the recursive call contains no final item')
        k = tok.k
        st.pushed.append(D['tree_of'](e, k))
        tok.k = k + D['nl'](e)
        I.ctx.assume(D['nl'](e) >= 1)                       # lemma nleaves-positive (structural induction; pyx_lemmas)
        I.ctx.assume(z3.And(D['icat'](e) >= 0, D['icat'](e) < U32))    # type invariant of the view: the cat field of a cell_item is an `unsigned`
        return Z(D['icat'](e))                              # (a non-final item appends no score)


def pyx_lemmas(I, prop):
    """nl(item) >= 1, by structural induction (base / step obligations)"""
    from vc import engine
    D = sorts(I)
    Item, nl = D['Item'], D['nl']
    a, b = z3.Const('a', Item), z3.Const('b', Item)
    c, r = z3.Ints('c r')
    s = z3.Real('s')
    goals = [('base', nl(Item.ILeaf(c)) >= 1, []), ('unary', nl(Item.IUn(c, a, r)) >= 1, [nl(a) >= 1]), ('binary', nl(Item.IBin(c, a, b, r)) >= 1, [nl(a) >= 1, nl(b) >= 1]),
             ('final', nl(Item.IFin(a, s)) >= 1, [nl(a) >= 1])]
    recs = []
    for name, goal, hyps in goals:
        v, bk, ms, _ = engine.solve(goal, hyps)
        recs.append(dict(name=f'{prop}/{REL}::lemma nleaves-positive[{name}]', kind='lemma', verdict=v, backend=bk, ms=ms, inputs=None, detail='number of leaves of an item is at least 1'))
    return recs


# ------------------------------------------------------------------------------ scaffold
class SymResult:
    """the k-th grammar result of the callback's answer"""
    def __init__(self, k):
        self.k = k
        self.head = z3.Bool(f'res_head_{k}')
        self.ops = z3.String(f'res_op_string_{k}')
        self.sym = z3.String(f'res_op_symbol_{k}')

    def getattr(self, I, name, node):
        if name == 'head_is_left':
            return Z(self.head)
        if name in ('op_string', 'op_symbol'):
            s = self.ops if name == 'op_string' else self.sym
            return SymStr(s)
        raise CheckerError(f'CombinatorResult.{name}')


class SymStr:
    def __init__(self, s):
        self.s = s

    def getattr(self, I, name, node):
        if name == 'encode':
            def enc(I_, a, k, n):
                if list(a) != ['utf-8'] or k:
                    raise CheckerError('encode with another codec')
                return SymBytes(self.s)
            return _M(enc)
        raise CheckerError(f'str.{name}')


class SymAnswer:
    """what the Python callback returns: a list of unknown length of triples (cat_id, rule_id, result); iterated by the map loop rule"""
    def __init__(self):
        self.iterations = []

    def for_loop(self, I, st, env, module, qual):
        from vc.pyvc import _Break, _Continue, _Return
        if st.orelse or self.iterations:
            raise CheckerError('the answer of the callback is iterated twice / for-else')
        cid, rid = I.fresh('cat_id', I_), I.fresh('rule_id', I_)
        res = SymResult(len(self.iterations))
        I.assign(st.target, (Z(cid), Z(rid), res), env, module)
        vec = self.vec
        n0 = len(vec.pushed)
        ended = 'normal'
        try:
            I.exec_block(st.body, env, module, qual)
        except _Break:
            ended = 'break'
        except _Continue:
            ended = 'continue'
        self.iterations.append(dict(cid=cid, rid=rid, res=res, pushed=vec.pushed[n0:], ended=ended))


class SymVec:
    """vector<combinator_result>*: push_back copies the struct"""
    def __init__(self):
        self.pushed = []

    def getattr(self, I, name, node):
        if name == 'push_back':
            def pb(I_, a, k, n):
                if not isinstance(a[0], SymRecord):
                    raise CheckerError('push_back of something that is not the result struct')
                self.pushed.append(dict(a[0].f))
                return None
            return _M(pb)
        raise CheckerError(f'vector.{name}')


class Scaffold(Contract):
    rel, qualname = REL, 'scaffold'

    def cases(self, I):
        def build(I):
            install(I)
            ans, vec = SymAnswer(), SymVec()
            ans.vec = vec
            x, y = z3.Ints('x y')
            self._pre = dict(ans=ans, vec=vec, x=x, y=y, calls=[])

            def cb(I_, a, k, n):
                self._pre['calls'].append(list(a))
                return ans
            return [_M(cb), Z(x), Z(y), vec], {}, [], None
        yield Case('any-answer', build)

    def post(self, I, case, args, result):
        p = self._pre
        its = p['ans'].iterations
        calls = p['calls']
        ok_call = len(calls) == 1 and len(calls[0]) == 2
        out = [('callback', z3.And(z3.BoolVal(ok_call), I.ex(calls[0][0]) == p['x'], I.ex(calls[0][1]) == p['y']) if ok_call else z3.BoolVal(False)),
               ('returns-0', z3.BoolVal(result == 0) if isinstance(result, int) else I.ex(result) == 0)]
        if len(its) != 1:
            return out + [('every-result-copied', z3.BoolVal(False))]
        it = its[0]
        ok = len(it['pushed']) == 1 and it['ended'] == 'normal' and len(p['vec'].pushed) == 1
        if not ok:
            return out + [('every-result-copied', z3.BoolVal(False))]
        f = it['pushed'][0]
        need = ('cat_id', 'rule_id', 'head_is_left', 'op_string', 'op_symbol')
        if any(n not in f for n in need) or not isinstance(f['op_string'], SymBytes) or not isinstance(f['op_symbol'], SymBytes):
            return out + [('every-result-copied', z3.BoolVal(False))]
        res = it['res']
        out.append(('every-result-copied', z3.And(I.ex(f['cat_id']) == it['cid'], I.ex(f['rule_id']) == it['rid'], I.ex(f['head_is_left']) == res.head,
                                                  f['op_string'].s == res.ops, f['op_symbol'].s == res.sym)))
        return out


# ------------------------------------------------------------------------------ the callbacks built by run(): category ids
def _roles(f, kinds):
    """closure variables of a nested function of run() by ROLE: `kinds` maps a role to a predicate over (name, ast of the function)"""
    import ast
    from contracts.printers import closure_names
    names = closure_names(None, f)[0]
    out = {}
    for role, pred in kinds.items():
        hits = sorted(n for n in names if pred(n, f.node))
        if len(hits) != 1:
            raise CheckerError(f'{f.qualname}: expected one closure variable in the role `{role}`, found {hits}')
        out[role] = hits[0]
    return out


def _called_with(name, fn, nargs, inside_enumerate=None):
    import ast
    for n in ast.walk(fn):
        if isinstance(n, ast.Call) and isinstance(n.func, ast.Name) and n.func.id == name and len(n.args) == nargs:
            return True
    return False


def _has_method_call(name, fn, meth):
    import ast
    return any(isinstance(n, ast.Call) and isinstance(n.func, ast.Attribute) and n.func.attr == meth and isinstance(n.func.value, ast.Name) and n.func.value.id == name for n in ast.walk(fn))


def _subscripted(name, fn, store=None):
    import ast
    for n in ast.walk(fn):
        if isinstance(n, ast.Subscript) and isinstance(n.value, ast.Name) and n.value.id == name:
            if store is None or isinstance(n.ctx, ast.Store) == store:
                return True
    return False


class IdTable:
    """categories_ (a list) and category_ids (a dict) of run(): one table, seen through its two objects"""
    def __init__(self, I, tag=''):
        w = I.w
        self.w = w
        self.cats = z3.Const('cats' + tag, z3.ArraySort(I_, w.Cat))
        self.n = z3.Int('n_cats' + tag)
        self.ids = z3.Const('ids' + tag, z3.ArraySort(w.Cat, I_))
        self.dom = z3.Const('dom' + tag, z3.ArraySort(w.Cat, z3.BoolSort()))
        self.m = z3.Int('n_ids' + tag)

    def snapshot(self):
        return (self.cats, self.n, self.ids, self.dom, self.m)

    @staticmethod
    def inv(w, cats, n, ids, dom, m):
        c, i = z3.Const('c!inv', w.Cat), z3.Int('i!inv')
        return z3.And(n == m, n >= 0,
                      z3.ForAll([c], z3.Implies(z3.Select(dom, c), z3.And(z3.Select(ids, c) >= 0, z3.Select(ids, c) < n, z3.Select(cats, z3.Select(ids, c)) == c))),
                      z3.ForAll([i], z3.Implies(z3.And(i >= 0, i < n), z3.And(z3.Select(dom, z3.Select(cats, i)), z3.Select(ids, z3.Select(cats, i)) == i))))


class TableList:
    def __init__(self, t):
        self.t = t

    def getattr(self, I, name, node):
        t = self.t
        if name == 'append':
            def app(I_, a, k, n):
                t.cats = z3.Store(t.cats, t.n, I_.ex(a[0]))
                t.n = t.n + 1
                return None
            return _M(app)
        raise CheckerError(f'list.{name} on the category list')

    def length(self, I, node):
        return Z(self.t.n)

    def getitem(self, I, i, node):
        return Z(z3.Select(self.t.cats, I.ex(i)))


class TableDict:
    def __init__(self, t):
        self.t = t

    def contains(self, I, item, node):
        return I.branch(z3.Select(self.t.dom, I.ex(item)), node)

    def length(self, I, node):
        return Z(self.t.m)

    def getitem(self, I, k, node):
        t = self.t
        if not I.branch(z3.Select(t.dom, I.ex(k)), node):
            raise PyRaise('KeyError', 'category', node)
        return Z(z3.Select(t.ids, I.ex(k)))

    def setitem(self, I, k, v, node):
        t = self.t
        c = I.ex(k)
        t.m = z3.If(z3.Select(t.dom, c), t.m, t.m + 1)
        t.ids = z3.Store(t.ids, c, I.ex(v))
        t.dom = z3.Store(t.dom, c, z3.BoolVal(True))


class MaybeAddAndGet(Contract):
    """run.maybe_add_and_get(cat): returns the id of cat, registering it first when it is new.  The table invariant (ids and list are inverse bijections on
    0..n-1) is preserved, ids handed out earlier keep their meaning (the list only grows: C02 `category ids are positions in a list that only grows`)."""
    rel, qualname = REL, 'run.maybe_add_and_get'

    def closure_env(self, I, f):
        m = install(I)
        env = Env(m.env)
        r = _roles(f, dict(lst=lambda n, fn: _has_method_call(n, fn, 'append'), dct=lambda n, fn: _subscripted(n, fn, store=True)))
        self._r, self._env = r, env
        return env

    def cases(self, I):
        def build(I):
            t = IdTable(I)
            cat = z3.Const('cat', I.w.Cat)
            self._pre = dict(t=t, s0=t.snapshot(), cat=cat)
            self._env.set(self._r['lst'], TableList(t))
            self._env.set(self._r['dct'], TableDict(t))
            return [Z(cat)], {}, [IdTable.inv(I.w, *t.snapshot())], None
        yield Case('any-table', build)

    def post(self, I, case, args, result):
        w = I.w
        p = self._pre
        t, cat = p['t'], p['cat']
        cats0, n0, ids0, dom0, m0 = p['s0']
        c, i = z3.Const('c!p', w.Cat), z3.Int('i!p')
        r = I.ex(result)
        return [('invariant', IdTable.inv(w, *t.snapshot())),
                ('returns-the-id', z3.And(z3.Select(t.dom, cat), r == z3.Select(t.ids, cat), z3.Select(t.cats, r) == cat, r >= 0, r < t.n)),
                ('ids-only-grow', z3.And(t.n >= n0, z3.ForAll([i], z3.Implies(z3.And(i >= 0, i < n0), z3.Select(t.cats, i) == z3.Select(cats0, i))),
                                        z3.ForAll([c], z3.Implies(z3.Select(dom0, c), z3.And(z3.Select(t.dom, c), z3.Select(t.ids, c) == z3.Select(ids0, c)))))),
                ('no-overflow', t.n < U32 - 1)]

    def raises(self, I, case, args, exc):
        # RuntimeError('too many categories') only when the list has reached UINT_MAX entries
        if exc.exc == 'RuntimeError':
            return self._pre['t'].n >= U32 - 1
        return None


class SymRuleResults:
    """apply_binary_rules(x, y) / apply_unary_rules(x): a list of unknown length of CombinatorResult records"""
    def __init__(self, owner):
        self.owner = owner

    def enumerate(self, I, start, node):
        self.start = I.ex(start)
        self.enumerated = True
        return self

    def for_loop(self, I, st, env, module, qual):
        from vc.pyvc import _Break, _Continue
        o = self.owner
        if st.orelse or o['iterations']:
            raise CheckerError('the rule results are iterated twice / for-else')
        k = I.fresh('k_result', I_)
        I.ctx.assume(k >= 0)
        res = SymGrammarResult(I, k)
        I.assign(st.target, (Z(k + self.start), res) if getattr(self, 'enumerated', False) else res, env, module)
        lists = {n: v for n, v in env.vars.items() if isinstance(v, list)}
        before = {n: list(v) for n, v in lists.items()}
        ended = 'normal'
        try:
            I.exec_block(st.body, env, module, qual)
        except _Break:
            ended = 'break'
        except _Continue:
            ended = 'continue'
        grown = {n: v[len(before[n]):] for n, v in lists.items() if v[:len(before[n])] == before[n] and len(v) > len(before[n])}
        o['iterations'].append(dict(k=k, res=res, grown=grown, ended=ended, enumerated=getattr(self, 'enumerated', False), lists=lists))


class SymGrammarResult:
    def __init__(self, I, k):
        self.k = k
        self.cat = z3.Const('result_cat', I.w.Cat)

    def getattr(self, I, name, node):
        if name == 'cat':
            return Z(self.cat)
        raise CheckerError(f'CombinatorResult.{name} is read by the callback')


class RulesCallback(Contract):
    """run.binary_callback(x_id, y_id) / run.unary_callback(x_id, _): the grammar is asked once, for the categories the ids stand for; the answer is the list of
    (maybe_add_and_get(result.cat), k, result) for the k-th result in order - so rule_id = k, the assumption the search-loop contracts make about the callbacks"""
    rel = REL

    def __init__(self, which):
        self.which = which
        self.qualname = f'run.{which}_callback'

    def closure_env(self, I, f):
        m = install(I)
        env = Env(m.env)
        # roles: the list subscripted with the id parameters, the grammar function (called inside enumerate(...)), the id function (the other one called)
        r = _roles(f, dict(lst=lambda n, fn: _subscripted(n, fn, store=False),
                           rules=lambda n, fn: n == r_rules(fn, 0),
                           add=lambda n, fn: n != r_rules(fn, 0) and any(_called_with(n, fn, k) for k in (1, 2, 3)) and not _subscripted(n, fn)))
        self._r, self._env = r, env
        return env

    def cases(self, I):
        def build(I):
            t = IdTable(I)
            o = dict(iterations=[], calls=[], adds=[])
            xid, yid = z3.Ints('x_id y_id')

            def rules(I_, a, k, n):
                o['calls'].append(list(a))
                return SymRuleResults(o)

            def add(I_, a, k, n):
                rid = I_.fresh('new_id', I_sort())
                o['adds'].append((I_.ex(a[0]), rid))
                return Z(rid)
            self._env.set(self._r['lst'], TableList(t))
            self._env.set(self._r['rules'], _M(rules))
            self._env.set(self._r['add'], _M(add))
            self._pre = dict(t=t, o=o, xid=xid, yid=yid)
            return [Z(xid), Z(yid)], {}, [], None
        yield Case('any-answer', build)

    def post(self, I, case, args, result):
        p = self._pre
        t, o = p['t'], p['o']
        n = 2 if self.which == 'binary' else 1
        ok_call = len(o['calls']) == 1 and len(o['calls'][0]) == n
        want = [z3.Select(t.cats, p['xid']), z3.Select(t.cats, p['yid'])][:n]
        out = [('grammar-asked-once', z3.And([z3.BoolVal(bool(ok_call))] + ([I.ex(a) == b for a, b in zip(o['calls'][0], want)] if ok_call else [])))]
        its = o['iterations']
        if len(its) != 1 or not isinstance(result, list):
            return out + [('one-triple-per-result', z3.BoolVal(False))]
        it = its[0]
        mine = [v for v in it['lists'].values() if v is result]
        grown = [g for nme, g in it['grown'].items() if it['lists'][nme] is result]
        ok = bool(mine) and len(grown) == 1 and len(grown[0]) == 1 and it['ended'] == 'normal' and it['enumerated'] and len(result) == 1 \
            and isinstance(grown[0][0], tuple) and len(grown[0][0]) == 3 and len(o['adds']) == 1
        if not ok:
            return out + [('one-triple-per-result', z3.BoolVal(False))]
        cid, rid, res = grown[0][0]
        out.append(('one-triple-per-result', z3.And(z3.BoolVal(res is it['res']), I.ex(rid) == it['k'], I.ex(cid) == o['adds'][0][1], o['adds'][0][0] == it['res'].cat)))
        return out


def I_sort():
    return I_


def r_rules(fn, nargs):
    """name of the closure variable called inside enumerate(...) (the grammar function)"""
    import ast
    for n in ast.walk(fn):
        if isinstance(n, ast.Call) and isinstance(n.func, ast.Name) and n.func.id == 'enumerate' and n.args and isinstance(n.args[0], ast.Call) and isinstance(n.args[0].func, ast.Name):
            return n.args[0].func.id
    return None


# ------------------------------------------------------------------------------ the constructor contracts, checked against depccg/tree.py
def constructor_records(I, prop):
    """Tree.make_terminal / make_unary / make_binary of the real depccg/tree.py, executed on symbolic arguments: the node they return has the category, the
    children (same objects, same order), the label, the symbol and the head flag they were given - what make_terminal / make_unary / make_binary above assume"""
    from vc import engine
    from vc.pyvc import PathCtx
    w = I.w
    m = I.load_module('depccg.tree')
    TreeCls = m.env.lookup('Tree')
    TokenCls = I.load_module('depccg.types').env.lookup('Token')
    saved = I.ctx
    recs = []

    def add(name, goal, what):
        if isinstance(goal, bool):
            goal = z3.BoolVal(goal)
        v, b, ms, _ = engine.solve(goal, [])
        recs.append(dict(name=f'{prop}/depccg/tree.py::Tree.{name}/constructor-contract', kind='post', verdict=v, backend=b, ms=ms, inputs=None, detail=what,
                         witness=dict(function=f'depccg/tree.py::Tree.{name}')))
    try:
        c = Z(z3.Const('c', w.Cat))
        os_, sy, h = Z(z3.String('ctor_op_string')), Z(z3.String('ctor_op_symbol')), Z(z3.Bool('ctor_head'))
        for name in ('make_terminal', 'make_unary', 'make_binary'):
            I.ctx = PathCtx([])
            I.ctx.abstract = w.abstract
            l, r, tok = Obj(TreeCls), Obj(TreeCls), Obj(TokenCls)
            f = I.getattr(TreeCls, name, None)
            try:
                if name == 'make_terminal':
                    res = I.call(f, [tok, c], {}, None)
                    kids, conj = [tok], []
                elif name == 'make_unary':
                    res = I.call(f, [c, l, os_, sy], {}, None)
                    kids, conj = [l], [I.ex(res.attrs.get('op_string')) == os_.e, I.ex(res.attrs.get('op_symbol')) == sy.e]
                else:
                    res = I.call(f, [c, l, r, os_, sy, h], {}, None)
                    hv = res.attrs.get('head_is_left')
                    kids, conj = [l, r], [I.ex(res.attrs.get('op_string')) == os_.e, I.ex(res.attrs.get('op_symbol')) == sy.e,
                                          (I.ex(hv) == h.e) if not isinstance(hv, bool) else z3.BoolVal(False)]
            except CheckerError:
                raise
            except Exception as e:        # noqa  (PyRaise, forks: the constructor is not the straight-line code the contract assumes)
                add(name, False, f'the constructor does not run straight through on well-formed arguments: {type(e).__name__}')
                continue
            ch = res.attrs.get('children') if isinstance(res, Obj) else None
            same_kids = isinstance(ch, list) and len(ch) == len(kids) and all(a is b for a, b in zip(ch, kids))
            catv = res.attrs.get('cat') if isinstance(res, Obj) else None
            add(name, z3.And(z3.BoolVal(bool(isinstance(res, Obj) and res.cls is TreeCls and same_kids)), I.ex(catv) == c.e if catv is not None else z3.BoolVal(False), *conj),
                'the node carries the category, the children (same objects, in order), the label, the symbol and the head flag it was given')
    finally:
        I.ctx = saved
    return recs


# ------------------------------------------------------------------------------ run: one result list per sentence (decided on the ast of the DePyx text)
def sentence_loop_records(prop):
    """C11 at the level of parsing.pyx: the list `run` returns is filled by ONE loop over the sentences, and every path through the body of that loop either raises or
    appends exactly one element to it (a list of scored trees or the failure placeholder) - so the result has one entry per sentence, in input order, whatever was
    parsed before.  Decided by enumerating the paths of the loop body (if / continue / raise / return); loops nested in the body must not touch the list."""
    import ast
    from vc import depyx
    src, _ = depyx.load()
    tree = ast.parse(src)
    run = [n for n in tree.body if isinstance(n, ast.FunctionDef) and n.name == 'run']
    problems = []
    name = f'{prop}/{REL}::run/one-result-per-sentence'

    def rec(verdict, detail):
        return [dict(name=name, kind='ast', verdict=verdict, backend='ast', ms=0, inputs=None, detail=detail, witness=dict(function=f'{REL}::run', sites=detail if isinstance(detail, list) else None))]
    if not run:
        raise CheckerError(f'function under contract not found: {REL}::run')
    run = run[0]
    rets = [n for n in ast.walk(run) if isinstance(n, ast.Return) and n.value is not None and not any(n in ast.walk(f) for f in ast.walk(run) if isinstance(f, ast.FunctionDef) and f is not run)]
    names = {n.value.id for n in rets if isinstance(n.value, ast.Name)}
    if len(rets) != 1 or len(names) != 1:
        raise CheckerError('run does not return one named list: the sentence-loop obligation does not fit')
    out = next(iter(names))

    def appends(node):
        return [c for c in ast.walk(node) if isinstance(c, ast.Call) and isinstance(c.func, ast.Attribute) and c.func.attr in ('append', 'extend', 'insert', 'pop', 'clear', 'remove')
                and isinstance(c.func.value, ast.Name) and c.func.value.id == out]
    loops = [n for n in run.body if isinstance(n, ast.For) and appends(n)]
    others = [c for st in run.body if st not in loops and not isinstance(st, ast.FunctionDef) for c in appends(st)]
    stores = [n for n in ast.walk(run) if isinstance(n, (ast.Assign, ast.AugAssign)) and any(isinstance(t, ast.Name) and t.id == out for t in (n.targets if isinstance(n, ast.Assign) else [n.target]))]
    if len(loops) != 1 or others or len(stores) != 1:
        return rec('failed', [f'the returned list `{out}` is filled outside one top-level loop of run ({len(loops)} loops touch it, {len(others)} other sites, {len(stores)} bindings)'])
    loop = loops[0]

    # paths through a statement list: each path is (number of appends, how it ends: 'next' | 'continue' | 'raise' | 'return' | 'break')
    def paths(stmts):
        acc = [(0, 'next')]
        for st in stmts:
            new = []
            for cnt, end in acc:
                if end != 'next':
                    new.append((cnt, end))
                    continue
                for c2, e2 in one(st):
                    new.append((cnt + c2, e2))
            acc = new
        return acc

    def one(st):
        if isinstance(st, ast.If):
            return paths(st.body) + paths(st.orelse)
        if isinstance(st, ast.Continue):
            return [(0, 'continue')]
        if isinstance(st, ast.Break):
            return [(0, 'break')]
        if isinstance(st, ast.Raise):
            return [(0, 'raise')]
        if isinstance(st, ast.Return):
            return [(0, 'return')]
        if isinstance(st, (ast.For, ast.While, ast.Try, ast.With)):
            if appends(st):
                problems.append(f'parsing.pyx (DePyx line {st.lineno}): a nested {type(st).__name__} statement touches `{out}`')
            return [(0, 'next')]
        k = len([c for c in appends(st) if c.func.attr == 'append'])
        if len(appends(st)) != k:
            problems.append(f'parsing.pyx (DePyx line {st.lineno}): `{out}` is changed by something other than append')
        return [(k, 'next')]
    for cnt, end in paths(loop.body):
        if end in ('raise',):
            continue
        if end in ('break', 'return'):
            problems.append(f'a path through the sentence loop leaves it early ({end}): later sentences get no result')
        elif cnt != 1:
            problems.append(f'a path through the sentence loop appends {cnt} elements to `{out}` (exactly one per sentence is required)')
    if loop.orelse:
        problems.append('for/else on the sentence loop')
    return rec('discharged' if not problems else 'failed', sorted(set(problems)) or f'every path through the sentence loop of run appends exactly one element to `{out}` ({len(paths(loop.body))} paths)')
