"""Frame obligations for "printing is an observation" (C18): no store in an encoder can reach an object that is reachable from its
arguments (trees, tokens, categories, n-best lists).

Decided on the ast by a flow-insensitive points-to abstraction per function (nested functions share the abstraction of the enclosing one):
  P  = an object reachable from a parameter (mutation forbidden)          F = a freshly allocated object (its ELEMENTS may be P)
A variable is P if it is ever bound to: a parameter, an attribute / subscript / method result of a P value, an element obtained by iterating
or unpacking a P value or a fresh container built from P values.  Fresh allocations: list/dict/set/tuple/sorted/enumerate/zip/reversed/
str/len/int/copy.deepcopy/copy.copy(new object)/comprehensions/literals/f-strings/etree.Element/SubElement/StringIO/arithmetic.
A STORE SITE is: assignment / augmented assignment / del through an attribute or subscript of a value, or a call of a mutating method
(pop, append, extend, insert, remove, clear, update, setdefault, sort, reverse, popitem, add, discard, __setitem__, __delitem__) on it.
The obligation of a site holds when its target is not P.  Writing to output streams / fresh XML elements is not a store into the arguments.
"""
import ast

from vc.sorts import parse_source, CheckerError

MUTATORS = {'pop', 'append', 'extend', 'insert', 'remove', 'clear', 'update', 'setdefault', 'sort', 'reverse', 'popitem', 'add', 'discard',
            '__setitem__', '__delitem__', '__setattr__'}
FRESH_CALLS = {'list', 'dict', 'set', 'tuple', 'sorted', 'enumerate', 'zip', 'reversed', 'str', 'len', 'int', 'float', 'bool', 'range', 'max', 'min', 'sum', 'any', 'all',
               'repr', 'isinstance', 'map', 'filter', 'StringIO', 'Element', 'SubElement', 'deepcopy', 'format', 'join', 'escape', 'dumps', 'findall', 'tostring', 'decode',
               'lower', 'replace', 'rstrip', 'strip', 'split', 'startswith', 'getvalue', 'Token', 'Tree', 'ScoredTree', '_cat_multi_valued', '_escape_prolog',
               '_prolog_category_string', 'denormalize', 'normalize', '_mathml_cat', 'get_global_language'}
# calls whose result is a NEW container that may hold argument objects as elements
CONTAINER_OF_ARGS = {'list', 'dict', 'tuple', 'sorted', 'enumerate', 'zip', 'reversed', 'set', 'items', 'values', 'keys', 'copy'}

ENCODERS = [
    ('depccg/printer/auto.py', ['auto_of', 'auto_flattened_of', 'auto_extended_of']),
    ('depccg/printer/conll.py', ['_resolve_dependencies', 'conll_of']),
    ('depccg/printer/ja.py', ['ja_of']),
    ('depccg/printer/deriv.py', ['deriv_of']),
    ('depccg/printer/ptb.py', ['ptb_of']),
    ('depccg/printer/my_json.py', ['_json_of_category', 'json_of']),
    ('depccg/printer/xml.py', ['_process_tree', 'xml_of']),
    ('depccg/printer/jigg_xml.py', ['_cat_multi_valued', '_ConvertToJiggXML.process', 'to_jigg_xml']),
    ('depccg/printer/html.py', ['_mathml_subtree', '_mathml_cat', 'to_mathml']),
    ('depccg/printer/prolog.py', ['_prolog_category_string', '_prolog_string', 'to_prolog_en', 'to_prolog_ja']),
    ('depccg/printer/__init__.py', ['to_string', '_process_xml']),
    ('depccg/tree.py', ['Tree.leaves', 'Tree.tokens', 'Tree.token', 'Tree.child', 'Tree.left_child', 'Tree.right_child', 'Tree.is_leaf', 'Tree.word', 'Tree.is_unary', 'Tree.__len__']),
]


def _find(tree, parts):
    cur = tree
    for p in parts:
        nxt = None
        for n in ast.iter_child_nodes(cur) if not isinstance(cur, ast.Module) else cur.body:
            if isinstance(n, (ast.FunctionDef, ast.ClassDef)) and n.name == p:
                nxt = n
                break
        if nxt is None:
            return None
        cur = nxt
    return cur


DOMAIN_CLASSES = {'Tree', 'Token', 'Category', 'Atom', 'Functor', 'Feature', 'UnaryFeature', 'TernaryFeature', 'ScoredTree'}
ORDER = {'F': 0, 'FP': 1, 'P': 2}


def join(a, b):
    if a is None:
        return b
    if b is None:
        return a
    return a if ORDER[a] >= ORDER[b] else b


class Frame:
    """flow-sensitive abstract interpretation of one function (nested functions are analysed with the environment at their definition,
    their parameters being P); `summaries` maps function names to the kind of what they return"""
    def __init__(self, fn, owner=None, summaries=None, outer_env=None, only_param=None):
        self.fn, self.owner = fn, owner
        self.summaries = summaries if summaries is not None else {}
        self.sites = []
        self.ret = None
        env = dict(outer_env or {})
        a = fn.args
        for x in a.posonlyargs + a.args + a.kwonlyargs:
            if x.arg in ('self', 'cls') and owner is not None and owner not in DOMAIN_CLASSES:
                env[x.arg] = 'F'          # the receiver is a helper object of the encoder (e.g. the Jigg converter), not a parse result
            else:
                env[x.arg] = 'P' if only_param is None or x.arg == only_param else 'F'
        if a.vararg:
            env[a.vararg.arg] = 'P'
        if a.kwarg:
            env[a.kwarg.arg] = 'P'
        self.nested = {}
        self.outer_updates = {}
        self.block(fn.body, env)

    def fn_locals(self):
        return {t.id for n in ast.walk(self.fn) if isinstance(n, ast.Assign) for t in n.targets if isinstance(t, ast.Name)} | {a.arg for a in self.fn.args.args}

    # ---- expressions
    def val(self, e, env):
        if isinstance(e, ast.Name):
            return env.get(e.id, 'F')
        if isinstance(e, (ast.Constant, ast.JoinedStr, ast.BinOp, ast.BoolOp, ast.Compare, ast.UnaryOp, ast.Lambda)):
            return 'F'
        if isinstance(e, ast.Attribute) and e.attr in self.summaries and self.summaries.get('@property:' + e.attr):
            # a property of a domain class (Tree.tokens, Tree.leaves, ...): what its body returns
            return self.summaries[e.attr] if self.val(e.value, env) in ('P', 'FP') else 'F'
        if isinstance(e, (ast.Attribute, ast.Subscript)):
            return 'P' if self.val(e.value, env) in ('P', 'FP') else 'F'
        if isinstance(e, ast.Call):
            name = e.func.id if isinstance(e.func, ast.Name) else (e.func.attr if isinstance(e.func, ast.Attribute) else None)
            argk = [self.val(x, env) for x in e.args] + [self.val(k.value, env) for k in e.keywords]
            recv = self.val(e.func.value, env) if isinstance(e.func, ast.Attribute) else 'F'
            holds = any(k in ('P', 'FP') for k in argk) or recv in ('P', 'FP')
            if name in getattr(self, 'pending_outer', {}):
                for var, k in self.pending_outer[name].items():
                    env[var] = join(env.get(var), k)
            if name in self.nested or name in self.summaries:
                r = self.nested.get(name) or self.summaries.get(name)
                if r is None:
                    return 'F'
                return r if holds else 'F'
            if name in CONTAINER_OF_ARGS:
                return 'FP' if holds else 'F'
            if name in ('get', 'pop'):
                return 'P' if recv in ('P', 'FP') else 'F'
            if name in FRESH_CALLS:
                return 'F'
            return 'P' if holds else 'F'
        if isinstance(e, (ast.List, ast.Tuple, ast.Set)):
            return 'FP' if any(self.val(x, env) in ('P', 'FP') for x in e.elts) else 'F'
        if isinstance(e, ast.Dict):
            return 'FP' if any(self.val(x, env) in ('P', 'FP') for x in e.values if x is not None) else 'F'
        if isinstance(e, (ast.ListComp, ast.SetComp, ast.GeneratorExp, ast.DictComp)):
            env2 = dict(env)
            for g in e.generators:
                self.bind(g.target, self.elem(self.val(g.iter, env2)), env2)
            elt = e.value if isinstance(e, ast.DictComp) else e.elt
            self.scan_calls(elt, env2)
            return 'FP' if self.val(elt, env2) in ('P', 'FP') else 'F'
        if isinstance(e, ast.IfExp):
            return join(self.val(e.body, env), self.val(e.orelse, env))
        if isinstance(e, ast.Starred):
            return self.val(e.value, env)
        return 'P'

    @staticmethod
    def elem(k):
        return 'P' if k in ('P', 'FP') else 'F'

    def bind(self, target, k, env):
        if isinstance(target, ast.Name):
            env[target.id] = k          # strong update: a re-bound name no longer denotes the old object
        elif isinstance(target, (ast.Tuple, ast.List)):
            for t in target.elts:
                self.bind(t, self.elem(k) if k == 'FP' else k, env)
        elif isinstance(target, ast.Starred):
            self.bind(target.value, k, env)

    def scan_calls(self, e, env):
        """store sites inside an expression (mutating method calls)"""
        for n in ast.walk(e):
            if isinstance(n, ast.Call) and isinstance(n.func, ast.Attribute) and n.func.attr in MUTATORS:
                k = self.val(n.func.value, env)
                self.sites.append((n.lineno, ast.unparse(n)[:80], k != 'P', f'{n.func.attr}() on {ast.unparse(n.func.value)} ({k})'))
            if isinstance(n, ast.Call) and isinstance(n.func, ast.Name) and self.summaries.get('@mutator:' + n.func.id):
                # a helper of the module that stores through one of its parameters: harmless on fresh objects, a store into the parse results otherwise
                mut = self.summaries['@mutator:' + n.func.id]          # names of the parameters the helper stores through
                params = self.summaries.get('@params:' + n.func.id, [])
                hit = []
                for i, x in enumerate(n.args):
                    if i < len(params) and params[i] in mut and self.val(x, env) == 'P':
                        hit.append(params[i])
                for k in n.keywords:
                    if k.arg in mut and self.val(k.value, env) == 'P':
                        hit.append(k.arg)
                self.sites.append((n.lineno, ast.unparse(n)[:80], not hit,
                                   f'{n.func.id}() stores through its parameter(s) {sorted(mut)}; reachable from the parse results here: {hit}'))
            if isinstance(n, ast.Call) and isinstance(n.func, ast.Name) and n.func.id in ('setattr', 'delattr') and n.args:
                k = self.val(n.args[0], env)
                self.sites.append((n.lineno, ast.unparse(n)[:80], k != 'P', f'{n.func.id}() on {ast.unparse(n.args[0])} ({k})'))

    def store(self, t, env, lineno):
        for tt in (t.elts if isinstance(t, (ast.Tuple, ast.List)) else [t]):
            if isinstance(tt, (ast.Attribute, ast.Subscript)):
                k = self.val(tt.value, env)
                self.sites.append((lineno, ast.unparse(tt), k != 'P', f'store through {ast.unparse(tt.value)} ({k})'))

    # ---- statements
    def block(self, stmts, env):
        for st in stmts:
            self.stmt(st, env)

    def stmt(self, st, env):
        if isinstance(st, ast.FunctionDef):
            sub = Frame(st, owner=None, summaries=self.summaries, outer_env=env)
            self.sites.extend(sub.sites)
            self.nested[st.name] = sub.ret or 'F'
            # a recursive nested function: analyse again knowing its own summary
            sub2 = Frame(st, owner=None, summaries=dict(self.summaries, **{st.name: self.nested[st.name]}), outer_env=env)
            self.nested[st.name] = join(self.nested[st.name], sub2.ret)
            env[st.name] = 'F'
            self.pending_outer = getattr(self, 'pending_outer', {})
            self.pending_outer[st.name] = dict(sub.outer_updates, **sub2.outer_updates)
            return
        if isinstance(st, ast.Assign):
            self.scan_calls(st.value, env)
            k = self.val(st.value, env)
            for t in st.targets:
                self.store(t, env, st.lineno)
                self.bind(t, k, env)
        elif isinstance(st, ast.AugAssign):
            self.scan_calls(st.value, env)
            self.store(st.target, env, st.lineno)
        elif isinstance(st, ast.AnnAssign):
            if st.value is not None:
                self.scan_calls(st.value, env)
                self.store(st.target, env, st.lineno)
                self.bind(st.target, self.val(st.value, env), env)
        elif isinstance(st, ast.Delete):
            for t in st.targets:
                self.store(t, env, st.lineno)
        elif isinstance(st, ast.Expr):
            self.scan_calls(st.value, env)
            c = st.value
            if isinstance(c, ast.Call) and isinstance(c.func, ast.Attribute) and c.func.attr in ('append', 'extend', 'insert', 'add', 'update') and isinstance(c.func.value, ast.Name):
                # a fresh container that receives argument objects now holds them
                if any(self.val(x, env) in ('P', 'FP') for x in c.args) and env.get(c.func.value.id, 'F') == 'F':
                    env[c.func.value.id] = 'FP'
                    if c.func.value.id not in self.fn_locals():
                        self.outer_updates[c.func.value.id] = 'FP'
        elif isinstance(st, ast.Return):
            if st.value is not None:
                self.scan_calls(st.value, env)
                self.ret = join(self.ret, self.val(st.value, env))
        elif isinstance(st, (ast.For, ast.AsyncFor)):
            self.scan_calls(st.iter, env)
            for _ in range(2):          # two rounds: the loop-carried environment is joined at the head
                e2 = dict(env)
                self.bind(st.target, self.elem(self.val(st.iter, e2)), e2)
                n0 = len(self.sites)
                self.block(st.body, e2)
                if _ == 0:
                    del self.sites[n0:]
                for k_, v in e2.items():
                    env[k_] = join(env.get(k_), v)
            self.block(st.orelse, env)
        elif isinstance(st, ast.While):
            self.scan_calls(st.test, env)
            for _ in range(2):
                e2 = dict(env)
                n0 = len(self.sites)
                self.block(st.body, e2)
                if _ == 0:
                    del self.sites[n0:]
                for k_, v in e2.items():
                    env[k_] = join(env.get(k_), v)
            self.block(st.orelse, env)
        elif isinstance(st, ast.If):
            self.scan_calls(st.test, env)
            e1, e2 = dict(env), dict(env)
            self.block(st.body, e1)
            self.block(st.orelse, e2)
            for k_ in set(e1) | set(e2):
                env[k_] = join(e1.get(k_), e2.get(k_))
        elif isinstance(st, ast.With):
            for it in st.items:
                self.scan_calls(it.context_expr, env)
                if it.optional_vars is not None:
                    self.bind(it.optional_vars, self.val(it.context_expr, env), env)
            self.block(st.body, env)
        elif isinstance(st, ast.Try):
            self.block(st.body, env)
            for h in st.handlers:
                self.block(h.body, env)
            self.block(st.orelse, env)
            self.block(st.finalbody, env)
        elif isinstance(st, (ast.Raise, ast.Assert)):
            for n in ast.iter_child_nodes(st):
                if isinstance(n, ast.expr):
                    self.scan_calls(n, env)
        elif isinstance(st, (ast.Nonlocal, ast.Global, ast.Pass, ast.Break, ast.Continue, ast.Import, ast.ImportFrom)):
            pass
        elif isinstance(st, ast.ClassDef):
            pass
        else:
            raise CheckerError(f'frame analysis: unsupported statement {type(st).__name__} at line {st.lineno}')

    def store_sites(self):
        return self.sites


def frame_obligations(prop):
    recs = []
    # summaries: what each encoder / helper returns (fresh object or something reachable from its arguments); two rounds for mutual use
    summaries = {}
    for _ in range(3):
        for rel, names in ENCODERS:
            tree = parse_source(rel)
            # helpers of the module that are not entry points (a refactoring may extract them at any time): what they return, and whether they store
            # through a parameter (then they are checked at their call sites: harmless on fresh objects)
            for fn in tree.body:
                if isinstance(fn, ast.FunctionDef) and fn.name not in names and not any(fn.name in ns for _, ns in ENCODERS):
                    fr = Frame(fn, owner=None, summaries=summaries)
                    summaries[fn.name] = fr.ret or 'F'
                    pnames = [x.arg for x in fn.args.posonlyargs + fn.args.args]
                    summaries['@params:' + fn.name] = pnames
                    # which parameters the helper stores through: one analysis per parameter, with only that parameter reachable from the parse results
                    summaries['@mutator:' + fn.name] = {pn for pn in pnames + [x.arg for x in fn.args.kwonlyargs]
                                                       if any(not ok for _, _, ok, _ in Frame(fn, owner=None, summaries=summaries, only_param=pn).store_sites())}
            for q in names:
                fn = _find(tree, q.split('.'))
                if fn is not None:
                    owner = q.split('.')[0] if '.' in q else None
                    r = Frame(fn, owner=owner, summaries=summaries).ret
                    summaries[q.split('.')[-1]] = r or 'F'
                    if any(isinstance(d, ast.Name) and d.id == 'property' for d in fn.decorator_list):
                        summaries['@property:' + q.split('.')[-1]] = True
    for rel, names in ENCODERS:
        tree = parse_source(rel)
        for q in names:
            fn = _find(tree, q.split('.'))
            if fn is None:
                recs.append(dict(name=f'{prop}/{rel}::{q}/frame', kind='frame', verdict='unknown', backend='pyvc-frame', ms=0, inputs=None, detail='function under contract not found'))
                continue
            owner = q.split('.')[0] if '.' in q else None
            fr = Frame(fn, owner=owner, summaries=summaries)
            sites = fr.store_sites()
            if not sites:
                recs.append(dict(name=f'{prop}/{rel}::{q}/frame: no store site', kind='frame', verdict='discharged', backend='pyvc-frame', ms=0, inputs=None, detail='no attribute/subscript store and no mutating call'))
            for line, text, ok, why in sites:
                recs.append(dict(name=f'{prop}/{rel}::{q}/frame@{line}: {text}', kind='frame', verdict='discharged' if ok else 'failed', backend='pyvc-frame', ms=0, inputs=None,
                                 detail=why, witness=dict(site=f'{rel}:{line}', store=text, function=q)))
    # module state read by the encoders: only literal tables, never stored to
    for rel, _ in ENCODERS:
        tree = parse_source(rel)
        top = {t.id for st in tree.body if isinstance(st, ast.Assign) for t in st.targets if isinstance(t, ast.Name)}
        bad = []
        for fn in ast.walk(tree):
            if isinstance(fn, ast.FunctionDef):
                for n in ast.walk(fn):
                    if isinstance(n, ast.Global):
                        bad.append(f'{rel}:{n.lineno} global statement')
                    if isinstance(n, ast.Call) and isinstance(n.func, ast.Attribute) and n.func.attr in MUTATORS and isinstance(n.func.value, ast.Name) and n.func.value.id in top \
                            and n.func.value.id not in {a.arg for a in fn.args.args}:
                        local = any(isinstance(x, ast.Assign) and any(isinstance(t, ast.Name) and t.id == n.func.value.id for t in x.targets) for x in ast.walk(fn))
                        if not local:
                            bad.append(f'{rel}:{n.lineno} mutation of module-level {n.func.value.id}')
                    if isinstance(n, (ast.Assign, ast.AugAssign)):
                        for t in (n.targets if isinstance(n, ast.Assign) else [n.target]):
                            b = t
                            while isinstance(b, (ast.Attribute, ast.Subscript)):
                                b = b.value
                            if isinstance(b, ast.Name) and b.id in top and not isinstance(t, ast.Name):
                                local = any(isinstance(x, ast.Assign) and any(isinstance(tt, ast.Name) and tt.id == b.id for tt in x.targets) for x in ast.walk(fn))
                                if not local:
                                    bad.append(f'{rel}:{n.lineno} store into module-level {b.id}')
        recs.append(dict(name=f'{prop}/{rel}/frame: module-level tables are never stored to', kind='frame', verdict='discharged' if not bad else 'unknown', backend='pyvc-frame',
                         ms=0, inputs=None, detail=bad or None, witness=dict(sites=bad) if bad else None))
    return recs
