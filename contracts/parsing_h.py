"""Contracts and invariants for depccg/parsing.h::parse_sentence (C01, C02, C09, C10, C12, C16).

The main loop and the leaf loop are verified by the invariant rule: the body is executed symbolically ONCE (per path) from an
arbitrary state satisfying the invariant "every item in the agenda / in the chart satisfies Inv"; at every `agenda.push({...})`
site the pushed record must satisfy Inv again (so the invariant is inductive) plus the property-specific obligations.
Ghost symbols: tag(t,c), dep(t,h) (the score matrices), BT(t)/BD(t) (best tag / best head score of token t), Ptag/Pdep
(prefix sums of BT/BD), the grammar tables RB_*(x,y,k) / RU_*(x,k) (k-th result of the callbacks).
"""
import z3

from vc.cxxvc import Exec, Item, Ptr, Rec, Abstract, BoundMember, AddrOf, CheckerError, line_of, strip_casts, body_of, explore, \
    _Break, _Continue, _Return, Infeasible, U32

I_, R_, B_ = z3.IntSort(), z3.RealSort(), z3.BoolSort()


class Ghost:
    def __init__(self):
        self.length = z3.Int('length')
        self.num_tags = z3.Int('num_tags')
        self.tag = z3.Function('tag', I_, I_, R_)
        self.dep = z3.Function('dep', I_, I_, R_)
        self.BT = z3.Function('best_tag', I_, R_)
        self.BD = z3.Function('best_dep', I_, R_)
        self.Ptag = z3.Function('Ptag', I_, R_)
        self.Pdep = z3.Function('Pdep', I_, R_)
        self.penalty = z3.Real('unary_penalty')
        self.beta = z3.Real('beta')
        self.use_beta = z3.Bool('use_beta')
        self.pruning = z3.Int('pruning_size')
        self.nbest = z3.Int('nbest')
        self.max_step = z3.Int('max_step')
        self.is_root = z3.Function('is_root', I_, B_)
        self.NB = z3.Function('n_binary_results', I_, I_, I_)
        self.RB_cat = z3.Function('binary_result_cat', I_, I_, I_, I_)
        self.RB_head = z3.Function('binary_result_head_is_left', I_, I_, I_, B_)
        self.NU = z3.Function('n_unary_results', I_, I_)
        self.RU_cat = z3.Function('unary_result_cat', I_, I_, I_)
        self.RU_head = z3.Function('unary_result_head_is_left', I_, I_, B_)
        self.exp = z3.Function('exp', R_, R_)
        self.LOWEST = z3.Real('float_lowest')

    def base_facts(self):
        g = self
        return [g.length >= 1, g.length < 2 ** 30, g.num_tags >= 0, g.num_tags < 2 ** 30, g.penalty >= 0,
                g.pruning >= 0, g.pruning < U32, g.nbest >= 0, g.nbest < U32, g.max_step >= 0, g.max_step < U32,
                g.LOWEST < 0, g.Ptag(0) == 0, g.Pdep(0) == 0]

    def tagout(self, i, j):
        return self.Ptag(i) + self.Ptag(self.length) - self.Ptag(j)

    def depout(self, i, j):
        return self.Pdep(i) + self.Pdep(self.length) - self.Pdep(j)

    def prefix_step(self, i):
        """Ptag(i+1) = Ptag(i) + BT(i) (definition of the prefix sums), instantiated where needed"""
        return z3.And(self.Ptag(i + 1) == self.Ptag(i) + self.BT(i), self.Pdep(i + 1) == self.Pdep(i) + self.BD(i))


FIELDS = None


def new_item(ex, name, fields_order):
    f = {}
    for fn, ty in fields_order:
        if ty == 'bool':
            f[fn] = ex.fresh(f'{name}.{fn}', B_)
        elif 'float' in ty:
            f[fn] = ex.fresh(f'{name}.{fn}', R_)
        elif '*' in ty:
            f[fn] = None          # pointers are set by the invariant (shape)
        else:
            f[fn] = ex.fresh(f'{name}.{fn}', I_)
    return Item(f, name)


def inv_core(g, it, fin=False):
    """Inv for a non-final item: span inside the sentence, head inside the span, outside estimate, inside bound"""
    s, n, h = it.f['start_of_span'], it.f['span_length'], it.f['head_id']
    e = s + n
    span_sum = (g.Ptag(e) - g.Ptag(s)) + (g.Pdep(e) - g.Pdep(s))
    return dict(
        span=z3.And(s >= 0, n >= 1, e <= g.length),
        head=z3.And(h >= s, h < e),
        out=it.f['out_score'] == g.tagout(s, e) + g.depout(s, e) + g.BD(h),
        ib=it.f['in_score'] <= span_sum - g.BD(h),
        ids=z3.And(it.f['cat'] >= 0, it.f['cat'] < U32, it.f['rule_id'] >= 0, it.f['rule_id'] < U32),
    )


def inv_fin(g, it):
    s, n, h = it.f['start_of_span'], it.f['span_length'], it.f['head_id']
    return dict(span=z3.And(s == 0, n == g.length), head=z3.And(h >= 0, h < g.length), out=it.f['out_score'] == 0,
                ids=z3.And(it.f['cat'] >= 0, it.f['cat'] < U32))


class Model:
    """contracts of everything parse_sentence touches + the loop rules"""
    def __init__(self, ast, ghost):
        self.ast, self.g = ast, ghost
        self.fields = ast.fields('cell_item')
        self.cr_fields = ast.fields('combinator_result')
        need = ['fin', 'cat', 'left', 'right', 'in_score', 'out_score', 'start_of_span', 'span_length', 'head_id', 'rule_id']
        if sorted(n for n, _ in self.fields) != sorted(need):
            raise CheckerError(f'cell_item fields changed: {self.fields}')
        self.pushes = []
        self.goal_updates = []
        self.phase = None
        self.mode = {}

    # ---- declarations / assignment
    def declare(self, ex, name, ty, init, env, static=False):
        if static:
            # a static local keeps the value computed by an EARLIER call of parse_sentence: nothing is known about it here
            if init is not None:
                ex.ev(init, env)
            srt = R_ if ('float' in ty or 'double' in ty) else (B_ if ty.replace('const ', '') == 'bool' else I_)
            return ex.fresh(f'static_{name}', srt)
        is_vec = ty.replace('const ', '').strip().startswith('std::vector<combinator_result') and '*' not in ty and '&' not in ty
        bare = ty.replace('const ', '').strip()
        if (bare.startswith('std::unordered_set<') or bare.startswith('std::set<')) and '*' not in ty and '&' not in ty and 'cell_item' not in ty:
            # a local set of scalars (a filter kept across the iterations of an enclosing loop): an arbitrary iteration finds it with unknown contents
            if init is not None:
                ex.ev(init, env)
            return Abstract('localset', name=name)
        if init is None or is_vec:
            if 'cell_item *' in ty:
                return Ptr(None)
            if is_vec:
                v = Abstract('localvec')
                v.state = 'empty'
                return v
            return None
        v = ex.ev(init, env)
        if isinstance(v, Item) and not ty.endswith('&') and '*' not in ty:
            return Item(dict(v.f), v.name + "'")     # struct copy
        return v

    def assign(self, ex, tgt, val, env, node):
        if tgt.get('kind') == 'DeclRefExpr':
            env[tgt['referencedDecl']['name']] = val
            return val
        if tgt.get('kind') == 'MemberExpr':
            base = ex.ev(tgt['inner'][0], env)
            if isinstance(base, Ptr):
                base = base.target
            if isinstance(base, Item) and tgt['name'] in base.f:
                base.f[tgt['name']] = val          # a store into a field of a cell_item the path holds (struct semantics)
                return val
            if isinstance(base, Rec) and base.kind == 'config' and tgt['name'] in base.f:
                # a store through the config pointer: performed, and seen by the frame obligation at the end of the path
                base.f[tgt['name']] = val
                self.config_writes = getattr(self, 'config_writes', []) + [(tgt['name'], line_of(node))]
                return val
        raise CheckerError(f'assignment to {tgt.get("kind")} at parsing.h:{line_of(node)} is not modelled')

    def user_lambdas(self):
        """lambdas declared at the top level of parse_sentence other than the two rule-cache lambdas (those have contracts): executed in place when called"""
        if getattr(self, '_user_lambdas', None) is None:
            out = {}
            fn = self.ast.function('parse_sentence')
            for st in body_of(fn).get('inner', []):
                if st.get('kind') != 'DeclStmt':
                    continue
                for d in st.get('inner', []):
                    if d.get('kind') == 'VarDecl' and d.get('name') not in (rn('apply_binary_rules'), rn('apply_unary_rules')):
                        init = [c for c in d.get('inner', []) if c.get('kind')]
                        lam = strip_casts(init[0]) if init else None
                        while lam is not None and lam.get('kind') in ('CXXConstructExpr', 'MaterializeTemporaryExpr', 'ExprWithCleanups') and lam.get('inner'):
                            lam = strip_casts(lam['inner'][0])
                        if lam is not None and lam.get('kind') == 'LambdaExpr':
                            out[d['name']] = lam
            self._user_lambdas = out
        return self._user_lambdas

    def inline_lambda(self, ex, lam, args, node):
        def find(n):
            if isinstance(n, dict):
                if n.get('kind') == 'CXXMethodDecl' and n.get('name') == 'operator()':
                    return n
                for c in n.get('inner', []) or []:
                    r = find(c)
                    if r is not None:
                        return r
            return None
        meth = find(lam)
        body = [c for c in lam.get('inner', []) if c.get('kind') == 'CompoundStmt']
        if meth is None or not body:
            raise CheckerError(f'lambda at parsing.h:{line_of(lam)} has no analysable body')
        params = [c['name'] for c in meth.get('inner', []) if c.get('kind') == 'ParmVarDecl']
        if len(params) != len(args):
            raise CheckerError('lambda called with another number of arguments than it declares')
        env = ex.cur_env
        if getattr(ex, '_lambda_depth', 0) > 2:
            raise CheckerError('recursive lambda')
        saved = {k: env[k] for k in params if k in env}
        missing = [k for k in params if k not in env]
        env.update(dict(zip(params, args)))
        ex._lambda_depth = getattr(ex, '_lambda_depth', 0) + 1
        try:
            ex.run(body[-1], env)
            return None
        except _Return as r:
            return r.v
        finally:
            ex._lambda_depth -= 1
            for k in missing:
                env.pop(k, None)
            env.update(saved)

    def global_ref(self, ex, name, node):
        if name in self.user_lambdas():
            return Abstract('user_lambda', node=self.user_lambdas()[name], name=name)
        if name == 'UINT_MAX':
            return z3.IntVal(U32 - 1)
        if name == 'depccg_verif_pop_hook':
            return Ptr(None)          # the verification hook is not installed: the guarded statement is skipped
        raise CheckerError(f'reference to unknown name {name} at parsing.h:{line_of(node)}')

    def init_list(self, ex, ty, vals, node):
        if 'cell_item' in ty:
            names = [n for n, _ in self.fields]
            if len(vals) > len(names):
                raise CheckerError('too many initialisers for cell_item')
            f = {}
            for (n, t), v in zip(self.fields, vals):
                f[n] = v
            for n, t in self.fields[len(vals):]:
                f[n] = Ptr(None) if '*' in t else (z3.BoolVal(False) if t == 'bool' else (z3.RealVal(0) if 'float' in t else z3.IntVal(0)))
            return Item(f, f'new@{line_of(node)}')
        raise CheckerError(f'initialiser list of type {ty}')

    def construct(self, ex, ty, args, node):
        if 'runtime_error' in ty or 'exception' in ty:
            return Abstract('exception')
        if len(args) == 1 and isinstance(args[0], Item):
            return Item(dict(args[0].f), args[0].name)
        if ty.replace('const ', '').strip().startswith('std::pair') and len(args) == 2:
            return Rec('pair', dict(first=args[0], second=args[1]))
        if len(args) == 1:
            return args[0]
        return Abstract('constructed', ty=ty, args=args)

    def lambda_(self, ex, e, env):
        return Abstract('lambda', node=e)

    def call(self, ex, name, args, node, env):
        if name == 'exp':
            return self.g.exp(args[0])
        if name == 'lowest':
            return self.g.LOWEST
        if name in ('min', 'max') and len(args) == 2 and all(z3.is_expr(a) for a in args):
            a, b = args
            return z3.If(a < b, a, b) if name == 'min' else z3.If(a < b, b, a)
        if name in ('min', 'max', 'epsilon', 'infinity', 'denorm_min') and not args:
            # other members of numeric_limits<float>: named constants; min / epsilon / denorm_min are small POSITIVE numbers, max / infinity large ones
            c = z3.Real('float_' + name)
            ex.assume(c > 0)
            if name in ('max', 'infinity'):
                ex.assume(c > -self.g.LOWEST - 1)
            return c
        if name in ('log', 'sqrt', 'fabs', 'abs', 'pow', 'log2', 'log10', 'expf', 'logf') and all(z3.is_expr(a) for a in args):
            # other <cmath> functions: uninterpreted (nothing is assumed about them)
            f = z3.Function('cmath_' + name, *[a.sort() for a in args], R_)
            return f(*args)
        if self.mode.get('call') is not None:
            return self.mode['call'](ex, name, args, node, env)
        raise CheckerError(f'call of {name} at parsing.h:{line_of(node)} is not modelled')

    def call_value(self, ex, f, args, node):
        if getattr(self, 'call_value_override', None) is not None:
            return self.call_value_override(ex, f, args, node)
        raise CheckerError('call through a function pointer in the modelled region')

    # ---- operators: matrix(), vector[], lambda()
    def operator(self, ex, opname, args, node):
        g = self.g
        if getattr(self, 'operator_override', None) is not None:
            r = self.operator_override(ex, opname, args, node)
            if r is not NotImplemented:
                return r
        if opname == 'operator()':
            obj = args[0]
            if isinstance(obj, Abstract) and obj.kind == 'matrix':
                r, c = args[1], args[2]
                ex.oblige('bounds', z3.And(r >= 0, r < obj.rows, c >= 0, c < obj.cols), node, f'{obj.name}(row, column) inside the matrix')
                if obj.name in ('tag_out_scores', 'dep_out_scores'):
                    # compute_outside_probabilities establishes out(a, b) = P(a) + P(length) - P(b) only for a <= b, a < length, 1 <= b (contracts/parsing_h_helpers.py)
                    ex.oblige('defined-range', z3.And(r <= c, r < g.length, c >= 1), node, f'{obj.name}(start, end) is read where compute_outside_probabilities defines it')
                return obj.fn(r, c)
            if isinstance(obj, Abstract) and obj.kind == 'user_lambda':
                return self.inline_lambda(ex, obj.node, args[1:], node)
            if isinstance(obj, Abstract) and obj.kind == 'apply_binary':
                return Abstract('binary_results', x=args[1], y=args[2])
            if isinstance(obj, Abstract) and obj.kind == 'apply_unary':
                return Abstract('unary_results', x=args[1])
            if isinstance(obj, Abstract) and obj.kind == 'chart':
                return Abstract('cell', chart=obj, row=args[1], col=args[2])
        if opname == 'operator[]':
            obj, i = args[0], args[1]
            if isinstance(obj, Abstract) and obj.kind == 'vector':
                ex.oblige('bounds', z3.And(i >= 0, i < obj.size), node, f'{obj.name}[i] inside the vector')
                return obj.fn(i)
            if isinstance(obj, Abstract) and obj.kind == 'scored_cats':
                ex.oblige('bounds', z3.And(i >= 0, i < g.length), node, 'scored_cats[token] inside the vector')
                return Abstract('pq', token=i)
        raise CheckerError(f'operator {opname} on {args[0]!r} at parsing.h:{line_of(node)} is not modelled')

    # ---- methods
    def method(self, ex, obj, name, args, node):
        g = self.g
        if getattr(self, 'method_override', None) is not None and isinstance(obj, Abstract) and obj.kind in ('cache', 'localvec'):
            return self.method_override(ex, obj, name, args, node)
        if isinstance(obj, Item):
            if name == 'score':
                return obj.f['in_score'] + obj.f['out_score']
            if name == 'end_of_span':
                r = obj.f['start_of_span'] + obj.f['span_length']
                ex.oblige('nowrap', z3.And(r >= 0, r < U32), node, 'end_of_span does not wrap')
                return r
        if isinstance(obj, Abstract) and obj.kind == 'localset':
            # contents unknown (see declare): queries return unconstrained answers, updates change nothing the model tracks
            if name == 'count':
                r = ex.fresh(f'{obj.name}_count', I_)
                ex.assume(z3.And(r >= 0, r <= 1))
                return r
            if name in ('size',):
                r = ex.fresh(f'{obj.name}_size', I_)
                ex.assume(r >= 0)
                return r
            if name in ('empty', 'contains'):
                return ex.fresh(f'{obj.name}_{name}', B_)
            if name in ('insert', 'emplace'):
                return Rec('pair', dict(first=Abstract('set_iter'), second=ex.fresh(f'{obj.name}_inserted', B_)))
            if name in ('erase', 'clear', 'reserve'):
                return Abstract('ignored_result')
        if isinstance(obj, Abstract):
            k = obj.kind
            if k == 'agenda':
                if name == 'top':
                    return self.mode['agenda_top'](ex)
                if name == 'pop':
                    return None
                if name == 'size':
                    return z3.Int('agenda_size')
                if name == 'empty':
                    return z3.Int('agenda_size') == 0
                if name == 'push':
                    self.mode['push'](ex, args[0], node)
                    return None
            if k == 'chart':
                if name == 'update':
                    return self.mode['chart_update'](ex, obj, args, node)
                if name == 'size':
                    if getattr(self, 'chart_size_override', None) is not None:
                        return self.chart_size_override(obj)
                    return z3.Int(obj.name + '_size')
                if name in ('cells_starting_at', 'cells_ending_at'):
                    ex.oblige('bounds', z3.And(args[0] >= 0, args[0] <= g.length), node, f'{name}(index) inside length+1 lists')
                    return Abstract('cells', chart=obj, which=name, index=args[0])
            if k in ('binary_results', 'unary_results'):
                n = g.NB(obj.x, obj.y) if k == 'binary_results' else g.NU(obj.x)
                if name == 'empty':
                    return n == 0
                if name == 'size':
                    return n
                if name in ('front', 'at', 'back'):
                    kk = z3.IntVal(0) if name == 'front' else (n - 1 if name == 'back' else args[0])
                    ex.oblige('bounds', z3.And(kk >= 0, kk < n), node, f'{name}() inside the result vector')
                    return self.result_elem(k, obj, kk)
            if k == 'rootset' and name == 'count':
                return z3.If(g.is_root(args[0]), z3.IntVal(1), z3.IntVal(0))
            if k == 'pq':
                return self.mode['pq'](ex, obj, name, args, node)
            if k == 'config':
                pass
            if k == 'cell' and self.mode.get('cell_method') is not None:
                return self.mode['cell_method'](ex, obj, name, args, node)
            if k == 'chart' and getattr(ex, '_inline_depth', 0) < 3:
                # another method of the chart class (e.g. a convenience wrapper around size()): its body is executed in place on the opaque chart
                try:
                    fn_ = self.ast.method('chart', name)
                except CheckerError:
                    fn_ = None
                params = [c['name'] for c in (fn_ or {}).get('inner', []) if c.get('kind') == 'ParmVarDecl']
                if fn_ is not None and len(params) == len(args):
                    env2 = {'this': Ptr(obj)}
                    env2.update(dict(zip(params, args)))
                    ex._inline_depth = getattr(ex, '_inline_depth', 0) + 1
                    try:
                        ex.run(body_of(fn_), env2)
                        return None
                    except _Return as r:
                        return r.v
                    finally:
                        ex._inline_depth -= 1
        raise CheckerError(f'method {name} on {obj!r} at parsing.h:{line_of(node)} is not modelled')

    def result_elem(self, kind, rng, k):
        g = self.g
        if kind == 'unary_results':
            elem = Rec('combinator_result', dict(cat_id=g.RU_cat(rng.x, k), rule_id=k, head_is_left=g.RU_head(rng.x, k)))
            elem.ghost = ('unary', rng.x, k)
        else:
            elem = Rec('combinator_result', dict(cat_id=g.RB_cat(rng.x, rng.y, k), rule_id=k, head_is_left=g.RB_head(rng.x, rng.y, k)))
            elem.ghost = ('binary', rng.x, rng.y, k)
        return elem

    # ---- loops
    def for_loop(self, ex, st, env):
        return self.mode['for'](ex, st, env)

    def range_loop(self, ex, st, env):
        g = self.g
        inner = [c for c in st['inner'] if 'kind' in c]
        rng_decl = inner[0]['inner'][0]
        rng = ex.ev([c for c in rng_decl['inner'] if 'kind' in c][0], env)
        var = inner[-2]['inner'][0]
        body = inner[-1]
        name = var['name']
        if isinstance(rng, AddrOf):
            rng = rng.v
        if isinstance(rng, Ptr):
            rng = rng.target
        if isinstance(rng, Abstract) and rng.kind == 'unary_results':
            k = ex.fresh('k_unary', I_)
            ex.assume(z3.And(k >= 0, k < g.NU(rng.x), k < U32))
            elem = Rec('combinator_result', dict(cat_id=g.RU_cat(rng.x, k), rule_id=k, head_is_left=g.RU_head(rng.x, k)))
            elem.ghost = ('unary', rng.x, k)
            desc = dict(kind='unary', x=rng.x, k=k)
            ex.assume(z3.And(elem.f['cat_id'] >= 0, elem.f['cat_id'] < U32))
        elif isinstance(rng, Abstract) and rng.kind == 'binary_results':
            k = ex.fresh('k_binary', I_)
            ex.assume(z3.And(k >= 0, k < g.NB(rng.x, rng.y), k < U32))
            elem = Rec('combinator_result', dict(cat_id=g.RB_cat(rng.x, rng.y, k), rule_id=k, head_is_left=g.RB_head(rng.x, rng.y, k)))
            elem.ghost = ('binary', rng.x, rng.y, k)
            ex.assume(z3.And(elem.f['cat_id'] >= 0, elem.f['cat_id'] < U32))
            desc = dict(kind='binary', x=rng.x, y=rng.y, k=k)
        elif isinstance(rng, Abstract) and rng.kind == 'cells':
            elem = Ptr(None)
            elem = Abstract('cellptr', cells=rng)
            desc = dict(kind='cells', which=rng.which, index=rng.index)
        elif isinstance(rng, Abstract) and rng.kind == 'cellptr':
            elem = self.mode['chart_item'](ex, rng.cells)
            desc = dict(kind='items', cells=rng.cells, other=elem)
        else:
            return self.mode['range'](ex, st, env, rng)
        # what the expansion-completeness obligations read: which containers were walked (one arbitrary iteration each), what was pushed meanwhile
        if not hasattr(self, 'loop_stack'):
            self.loop_stack, self.range_events = [], []
        self.loop_stack.append(desc)
        n_push0 = len(self.pushes)
        ended = 'normal'
        # what is assumed about the arbitrary element (and decided inside its iteration) holds inside the iteration only: the loop may as well have
        # no element at all, and the body assigns nothing outside itself (checked below), so after the loop the path condition is the one before it
        pc0, lits0 = list(ex.pc), dict(ex.lits)
        env2 = dict(env)
        env2[name] = elem
        saved_rule = getattr(self, 'current_rule', None)
        if isinstance(elem, Rec) and hasattr(elem, 'ghost'):
            self.current_rule = elem.ghost
        before = {k: v for k, v in env.items()}
        try:
            ex.run(body, env2)
        except _Break:
            ended = 'break'
        except _Continue:
            ended = 'continue'
        except Infeasible:
            ended = 'infeasible'          # no element can satisfy what the body assumes: the loop contributes nothing on this path
        finally:
            stack = list(self.loop_stack)
            self.loop_stack.pop()
            pc_in = list(ex.pc)
            ex.pc[:] = pc0
            ex.lits = lits0
        self.range_events.append(dict(desc=desc, stack=stack, pushes=list(self.pushes[n_push0:]), pc=pc_in, ended=ended, line=line_of(st)))
        self.current_rule = saved_rule
        for k_, v in before.items():
            if env2.get(k_) is not v:
                raise CheckerError(f'range-for body assigns outer variable {k_}: needs a loop invariant')


class BoundCall:
    pass


# ------------------------------------------------------------------------------ environment of parse_sentence
_ROLES = {}


def parse_sentence_roles(ast):
    """the parameters and top-level locals of parse_sentence by ROLE (position in the signature the Cython side declares; type and initialiser of a local),
    so that renaming a local is not a change the contracts notice:
      parameters   0 tag_scores, 1 dep_scores, 2 length, 3 possible_root_cats, 4 binary_callback, 5 unary_callback, 6 finalizer_callback, 7 scaffold, 8 finalizer_args, 9 cache, 10 config
      locals       the two vector<float> in declaration order (best tag / best head scores), the matrices (views of the two score parameters; the two owning ones in
                   declaration order: tag / dep outside scores), the agenda (priority_queue of cell_item), the per-token candidate queues (vector of priority queues),
                   the two charts (the one built with the literal 1 is the goal), the one non-const float (outside score of the leaves), the two rule lambdas (by the
                   callback parameter they hand to scaffold), const scalars (evaluated from their initialisers)"""
    key = id(ast)
    if key in _ROLES:
        return _ROLES[key]
    fn = ast.function('parse_sentence')
    params = [c['name'] for c in fn.get('inner', []) if c.get('kind') == 'ParmVarDecl']
    if len(params) != 11:
        raise CheckerError(f'parse_sentence has {len(params)} parameters (the Cython declaration has 11)')
    pr = dict(zip(['tag_scores', 'dep_scores', 'length', 'possible_root_cats', 'binary_callback', 'unary_callback', 'finalizer_callback', 'scaffold', 'finalizer_args', 'cache', 'config'], params))
    R = dict(pr)
    decls = [d for st in body_of(fn).get('inner', []) if st.get('kind') == 'DeclStmt' for d in st.get('inner', []) if d.get('kind') == 'VarDecl']

    def ty(d):
        t = d.get('type', {})
        return (t.get('desugaredQualType') or t.get('qualType', '')), t.get('qualType', '')

    def walk(n):
        if isinstance(n, dict):
            yield n
            for c in n.get('inner', []) or []:
                yield from walk(c)

    def refs(d):
        return {n['referencedDecl'].get('name') for n in walk(d) if n.get('kind') == 'DeclRefExpr' and 'referencedDecl' in n}

    def ctor_args(d):
        for n in walk(d):
            if n.get('kind') == 'CXXConstructExpr':
                return [a for a in n.get('inner', []) if 'kind' in a and a['kind'] != 'CXXDefaultArgExpr']
        return []
    vf, owning, charts, floats, consts = [], [], [], [], []
    for d in decls:
        t, tq = ty(d)
        bare = t.replace('const ', '').strip()
        is_const = tq.strip().startswith('const ')
        if any(n.get('kind') == 'LambdaExpr' for n in walk(d)):
            r = refs(d)
            if pr['binary_callback'] in r and pr['unary_callback'] not in r:
                R['apply_binary_rules'] = d['name']
            elif pr['unary_callback'] in r and pr['binary_callback'] not in r:
                R['apply_unary_rules'] = d['name']
            continue
        if bare.startswith('std::vector<float'):
            vf.append(d['name'])
        elif bare == 'parsing::matrix' or bare.endswith('::matrix') or bare == 'matrix':
            args = ctor_args(d)
            r0 = refs(args[0]) if args else set()
            if len(args) == 3 and pr['tag_scores'] in r0:
                R['tag_in_scores'] = d['name']
            elif len(args) == 3 and pr['dep_scores'] in r0:
                R['dep_in_scores'] = d['name']
            else:
                owning.append(d['name'])
        elif 'priority_queue<parsing::cell_item' in bare or 'priority_queue<cell_item' in bare:
            R['agenda'] = d['name']
        elif bare.startswith('std::vector<std::priority_queue'):
            R['scored_cats'] = d['name']
        elif bare == 'parsing::chart' or bare.endswith('::chart'):
            args = ctor_args(d)
            lit = bool(args) and strip_casts(args[0]).get('kind') == 'IntegerLiteral'
            charts.append((d['name'], lit))
        elif bare == 'float' and not is_const:
            floats.append(d['name'])
        elif is_const and bare in ('unsigned int', 'unsigned', 'int', 'bool', 'float', 'double', 'category_id'):
            init = [c for c in d.get('inner', []) if c.get('kind')]
            if init:
                consts.append((d['name'], init[0]))
    if len(vf) != 2 or len(owning) != 2 or len(charts) != 2 or len(floats) != 1:
        raise CheckerError(f'parse_sentence: locals by role not found (vector<float>: {vf}, owning matrices: {owning}, charts: {[c for c, _ in charts]}, non-const floats: {floats})')
    R['best_tag_scores'], R['best_dep_scores'] = vf
    R['tag_out_scores'], R['dep_out_scores'] = owning
    goal = [c for c, lit in charts if lit]
    R['goal'] = goal[0] if len(goal) == 1 else charts[1][0]
    R['chart'] = [c for c, _ in charts if c != R['goal']][0]
    R['dep_leaf_out_score'] = floats[0]
    missing = [k for k in ('tag_in_scores', 'dep_in_scores', 'agenda', 'scored_cats', 'apply_binary_rules', 'apply_unary_rules') if k not in R]
    if missing:
        raise CheckerError(f'parse_sentence: locals by role not found: {missing}')
    R['$consts'] = consts
    _ROLES.clear()
    _ROLES[key] = R
    _ROLES['current'] = R
    return R


def rn(role):
    """the name parse_sentence gives to the variable in this role (parse_sentence_roles must have run)"""
    return _ROLES['current'][role]


def base_env(g, ex=None):
    R = _ROLES['current']
    env = {
        R['length']: g.length,
        R['possible_root_cats']: Abstract('rootset'),
        R['config']: Ptr(Rec('config', dict(num_tags=g.num_tags, unary_penalty=g.penalty, beta=g.beta, use_beta=g.use_beta, pruning_size=g.pruning,
                                            nbest=g.nbest, max_step=g.max_step))),
        R['best_tag_scores']: Abstract('vector', name='best_tag_scores', size=g.length, fn=g.BT),
        R['best_dep_scores']: Abstract('vector', name='best_dep_scores', size=g.length, fn=g.BD),
        R['tag_out_scores']: Abstract('matrix', name='tag_out_scores', rows=g.length + 1, cols=g.length + 1, fn=g.tagout),
        R['dep_out_scores']: Abstract('matrix', name='dep_out_scores', rows=g.length + 1, cols=g.length + 1, fn=g.depout),
        R['tag_in_scores']: Abstract('matrix', name='tag_in_scores', rows=g.length, cols=g.num_tags, fn=g.tag),
        R['dep_in_scores']: Abstract('matrix', name='dep_in_scores', rows=g.length, cols=g.length + 1, fn=g.dep),
        R['agenda']: Abstract('agenda'),
        R['scored_cats']: Abstract('scored_cats'),
        R['chart']: Abstract('chart', name='chart'),
        R['goal']: Abstract('chart', name='goal'),
        R['apply_binary_rules']: Abstract('apply_binary'),
        R['apply_unary_rules']: Abstract('apply_unary'),
        R['dep_leaf_out_score']: g.Pdep(g.length),
    }
    if ex is not None:
        # const scalars declared at the top level of parse_sentence (e.g. `const bool keep_duplicates = config->nbest > 1`): their initialisers, evaluated here
        for name, init in R['$consts']:
            try:
                env[name] = ex.ev(init, env)
            except CheckerError:
                pass
    return env


def find_loops(fn):
    """the three top-level loops of parse_sentence: score setup, leaf items, search (for or while); as (cond, body) the search loop is loop_parts(fors[2])"""
    body = body_of(fn)
    fors = [s for s in body['inner'] if s['kind'] in ('ForStmt', 'WhileStmt')]
    if len(fors) != 3 or fors[0]['kind'] != 'ForStmt' or fors[1]['kind'] != 'ForStmt':
        raise CheckerError(f'parse_sentence has {len(fors)} top-level loops (expected: score setup, leaf items, search)')
    return body, fors


def loop_parts(loop):
    if loop['kind'] == 'WhileStmt':
        inner = [c for c in loop['inner'] if c.get('kind')]
        return inner[0], inner[-1]
    parts = loop['inner']
    return parts[2], parts[-1]


def config_frame(g, env0_config, cfg):
    """frame of parse_sentence w.r.t. the configuration: every field of *config is at the end of the path what it was at entry"""
    return z3.And([cfg.f[k] == env0_config[k] for k in sorted(env0_config)])


# ------------------------------------------------------------------------------ phase A: one arbitrary iteration of the search loop
def run_main_loop(ast):
    parse_sentence_roles(ast)
    g = Ghost()
    m = Model(ast, g)
    fn = ast.function('parse_sentence')
    body, fors = find_loops(fn)
    loop = fors[2]
    cond, loop_body = loop_parts(loop)
    ex = Exec(ast, m)
    records = []

    def facts_for(items):
        """instances of the ghost definitions / library contracts at the terms of this path"""
        fs = list(g.base_facts())
        for it in items:
            s, n, h = it.f['start_of_span'], it.f['span_length'], it.f['head_id']
            # argmax contract: dep(t, j) <= best_dep(t) for every column j <= length ; instantiated at the heads in play
            for it2 in items:
                h2 = it2.f['head_id']
                fs.append(z3.Implies(z3.And(h >= 0, h < g.length, h2 + 1 >= 0, h2 + 1 <= g.length), g.dep(h, h2 + 1) <= g.BD(h)))
            fs.append(z3.Implies(z3.And(h >= 0, h < g.length), g.dep(h, 0) <= g.BD(h)))
        return fs

    def run():
        m.pushes, m.goal_updates = [], []
        m.loop_stack, m.range_events, m.chart_key = [], [], None
        env = base_env(g, ex)
        top = new_item(ex, 'top', m.fields)
        state = dict(top=top, chart_item=None, others=[])

        def agenda_top(ex_):
            # agenda invariant: every element satisfies Inv (final items: inv_fin)
            if ex_.branch(top.f['fin']):
                for c in inv_fin(g, top).values():
                    ex_.assume(c)
                top.f['left'] = Ptr(Item({}, 'goal-child'))
                top.f['right'] = Ptr(None)
            else:
                for c in inv_core(g, top).values():
                    ex_.assume(c)
                top.f['left'] = Ptr(Item({}, 'top.left'))      # opaque: never dereferenced by the loop
                top.f['right'] = Ptr(Item({}, 'top.right'))
            return top

        def chart_update(ex_, chart, args, node):
            row, col, it = args
            if chart.name == 'goal':
                ex_.oblige('bounds', z3.And(row >= 0, col >= 0, row + col + 1 <= 1), node, 'goal.update(row, column): the goal chart has the one cell (0, 0)')
                m.goal_updates.append((row, col, it))
                return Ptr(Item(dict(it.f), 'goal-entry'))
            # precondition of chart::update / chart::operator() (contracts/parsing_h_helpers.py): the span (row, row + column + 1) lies inside the sentence
            ex_.oblige('bounds', z3.And(row >= 0, col >= 0, row + col + 1 <= g.length), node, 'chart.update(row, column): the cell and its start / end lists exist (row + column + 1 <= length)')
            # chart invariant "the items of cell (row, column) start at row and span column + 1 tokens" is kept by the call site
            ex_.oblige('chart-key', z3.And(row == it.f['start_of_span'], col == it.f['span_length'] - 1), node,
                       'an item is filed under the cell of its own span: update(item.start_of_span, item.span_length - 1, item)')
            m.chart_key = (row, col)
            inserted = ex_.fresh('chart_inserts', B_)
            # contract of chart::update: nullptr iff (!nbest && the cell already holds the category); otherwise a pointer to a copy
            if ex_.branch(inserted):
                ci = Item(dict(it.f), 'item')
                state['chart_item'] = ci
                return Ptr(ci)
            return Ptr(None)

        def chart_item(ex_, cells):
            o = new_item(ex_, 'other', m.fields)
            for c in inv_core(g, o).values():
                ex_.assume(c)
            ex_.assume(z3.Not(o.f['fin']))
            o.f['left'], o.f['right'] = Ptr(Item({}, 'other.left')), Ptr(Item({}, 'other.right'))
            # chart invariant: cells_starting_at(i) holds items that start at i, cells_ending_at(i) items that end at i
            if cells.which == 'cells_starting_at':
                ex_.assume(o.f['start_of_span'] == cells.index)
            else:
                ex_.assume(o.f['start_of_span'] + o.f['span_length'] == cells.index)
            state['others'].append(o)
            return o

        def push(ex_, it, node):
            m.pushes.append(dict(item=it, node=node, line=line_of(node), pc=list(ex_.pc), state=dict(state), others=list(state['others']),
                                 rule=getattr(m, 'current_rule', None)))

        def for_rule(ex_, st, env_):
            raise CheckerError('nested classic for loop inside the search loop')
        m.mode = dict(agenda_top=agenda_top, chart_update=chart_update, chart_item=chart_item, push=push)
        m.mode['for'] = for_rule
        m.mode['range'] = lambda ex_, st, env_, rng: (_ for _ in ()).throw(CheckerError('range-for over an unmodelled container'))
        for f in g.base_facts():
            ex.assume(f)
        # the step counter of the search loop, by role (declared in the init of a for loop / first local named in the condition of a while loop)
        if loop.get('kind') == 'ForStmt':
            from contracts.parsing_h_helpers import counter_of
            step_name = counter_of(loop)
            if step_name not in env:
                env[step_name] = ex.fresh('step', I_)
        cfg0 = dict(env[rn('config')].target.f)
        c = ex.truth(ex.ev(cond, env))
        ex.assume(c)
        try:
            ex.run(loop_body, env)
        except _Continue:
            pass
        except _Break:
            pass
        ex.oblige('frame-config', config_frame(g, cfg0, env[rn('config')].target), loop,
                  'an iteration of the search loop leaves every field of *config as it found it (parsing.pyx hands one config to all sentences of a run)')
        return 'iteration', dict(pushes=list(m.pushes), goal_updates=list(m.goal_updates), top=top, facts=facts_for, events=list(m.range_events),
                                 item=state['chart_item'], others=list(state['others']), filed=m.chart_key is not None)
    outs = explore(ex, run)
    return g, m, outs


def expansion_obligations(g, v, pc_end, pi, line):
    """completeness of one iteration of the search loop (C01: the best derivation is found only if every licensed combination is put on the agenda;
    C10: "each pair of adjacent items is combined exactly once, when the later one is popped").  Every range-for of the iteration is executed for one
    arbitrary element, so the obligations are stated per path:
      goal-complete    a popped final item is filed in the goal cell
      chart-complete   a popped non-final item is offered to the chart
      expand-root      an inserted full-span item with an allowed root category yields a final item
      expand-sites     an inserted item walks unary_results(its category) when a unary step is allowed here, cells_starting_at(its end) with
                       binary_results(item, other) and cells_ending_at(its start) with binary_results(other, item) - each over ALL elements
                       (no break), each nested in the loops over the cells and their items
      expand-once      the iteration for an arbitrary rule result pushes exactly one item (no result is skipped, none is pushed twice)"""
    recs = []
    top, item = v['top'], v['item']
    facts = v['facts']([x for x in [top, item] + v['others'] if x is not None])
    add = lambda k, goal, what, props, pc=pc_end, line=line: recs.append(dict(kind=k, line=line, goal=goal, pc=pc, what=what, props=props, path=pi, facts=facts, site='search-iteration'))
    add('goal-complete', z3.Implies(top.f['fin'], z3.BoolVal(len(v['goal_updates']) == 1)), 'a popped final item is filed in the goal cell exactly once', ('C01', 'C10'))
    add('chart-complete', z3.Implies(z3.Not(top.f['fin']), z3.BoolVal(bool(v['filed']))), 'a popped non-final item is offered to the chart', ('C01', 'C10'))
    for e in v['events']:
        if e['ended'] == 'break':
            add('expand-sites', z3.BoolVal(False), f'a break leaves the rest of the range-for at parsing.h:{e["line"]} unvisited', ('C01', 'C10'), pc=e['pc'], line=e['line'])
        if e['desc']['kind'] in ('unary', 'binary'):
            mine = [p for p in e['pushes'] if p.get('rule') is not None and p['rule'][0] == e['desc']['kind'] and p['rule'][-1] is e['desc']['k']]
            add('expand-once', z3.BoolVal(len(mine) == 1 and len(e['pushes']) == 1),
                f'the iteration for an arbitrary {e["desc"]["kind"]} rule result pushes exactly one item built from that result ({len(e["pushes"])} pushes on this path)', ('C01', 'C10'), pc=e['pc'], line=e['line'])
    if item is None:
        return recs
    fin_pushes = [p for p in v['pushes'] if z3.is_true(z3.simplify(p['item'].f['fin']))]
    if not fin_pushes:
        add('expand-root', z3.Not(z3.And(item.f['span_length'] == g.length, g.is_root(item.f['cat']))),
            'a full-span item with an allowed root category yields a final item', ('C01', 'C10'))
    ev = v['events']
    un = [e for e in ev if e['desc']['kind'] == 'unary']
    if not un:
        add('expand-sites', z3.Not(z3.Or(g.length == 1, item.f['span_length'] != g.length)), 'the unary results of the inserted item are walked wherever a unary step is allowed', ('C01', 'C10'))
    else:
        add('expand-sites', z3.And([e['desc']['x'] == item.f['cat'] for e in un] + [z3.BoolVal(len(e['stack']) == 1) for e in un]),
            'the unary results walked are those of the category of the inserted item', ('C01', 'C10'))
    end = item.f['start_of_span'] + item.f['span_length']
    for which, idx, left_is_item in (('cells_starting_at', end, True), ('cells_ending_at', item.f['start_of_span'], False)):
        hits = []
        for e in ev:
            st = e['stack']
            if e['desc']['kind'] == 'binary' and len(st) == 3 and st[0]['kind'] == 'cells' and st[0]['which'] == which and st[1]['kind'] == 'items' \
                    and st[1]['cells'].which == which:
                hits.append(e)
        if len(hits) != 1:
            add('expand-sites', z3.BoolVal(False), f'the items of {which}(...) are combined with the inserted item in one nest of loops (cells, items, rule results): found {len(hits)}', ('C01', 'C10'))
            continue
        e = hits[0]
        st = e['stack']
        other = st[1]['other']
        x, y = (item.f['cat'], other.f['cat']) if left_is_item else (other.f['cat'], item.f['cat'])
        add('expand-sites', z3.And(st[0]['index'] == idx, e['desc']['x'] == x, e['desc']['y'] == y),
            f'{which}: the cells at the {"end" if left_is_item else "start"} of the inserted item, rule results of ({"item, other" if left_is_item else "other, item"})', ('C01', 'C10'))
    return recs


def spec_obligations_main(g, m, outs):
    """obligations at the push sites of the search loop, tagged by the property they serve"""
    recs = []
    line_of_loop = 0
    seen_lines = set()
    for pi, o in enumerate(outs):
        for ob in o['obligations']:
            recs.append(dict(kind=ob['kind'], line=ob['line'], goal=ob['goal'], pc=ob['pc'], what=ob['what'],
                             props=('C11',) if ob['kind'] == 'frame-config' else ('C01',) if ob['kind'] == 'defined-range' else ('C02', 'C09'), path=pi, facts=[]))
        if o['kind'] != 'iteration':
            continue
        v = o['value']
        top = v['top']
        recs.extend(expansion_obligations(g, v, o['pc'], pi, line_of_loop))
        for gu in v['goal_updates']:
            row, col, it = gu
            recs.append(dict(kind='goal-cell', line=0, goal=z3.And(row == 0, col == 0, it.f['fin']), pc=o['pc'],
                             what='only final items go to the goal cell (0,0)', props=('C02', 'C10'), path=pi, facts=[]))
        for p in v['pushes']:
            it, st = p['item'], p['state']
            item = st['chart_item']
            others = p['others']
            pc = p['pc']
            line = p['line']
            seen_lines.add(line)
            items = [x for x in [top, item] + others if x is not None]
            facts = v['facts'](items + [it])
            left, right = it.f['left'], it.f['right']
            if not (isinstance(left, Ptr) and isinstance(right, Ptr)):
                raise CheckerError('left/right of a pushed item are not pointers')
            other = others[-1] if others else None
            kind = ('goal' if z3.is_true(z3.simplify(it.f['fin'])) else
                    'unary' if (left.target is item and right.target is None) else
                    'binary' if (left.target is not None and right.target is not None) else 'other')
            add = lambda k, goal, what, props: recs.append(dict(kind=k, line=line, goal=goal, pc=pc, what=what, props=props, path=pi, facts=facts, site=kind))
            if item is None:
                add('push-site', z3.BoolVal(False), 'a push in the search loop happens without an item inserted into the chart', ('C02',))
                continue
            s, n, h = it.f['start_of_span'], it.f['span_length'], it.f['head_id']
            if kind == 'goal':
                inv = inv_fin(g, it)
                add('goal-guard', z3.And(item.f['span_length'] == g.length, g.is_root(item.f['cat'])),
                    'a final item is pushed only for a full-span item whose category is an allowed root', ('C02',))
                add('inv-span', inv['span'], 'final item spans the sentence', ('C02', 'C01'))
                add('inv-head', inv['head'], 'head inside the sentence', ('C01', 'C09'))
                add('inv-out', inv['out'], 'final item has zero outside estimate', ('C01', 'C09'))
                add('score-in', it.f['in_score'] == item.f['in_score'] + g.dep(item.f['head_id'], 0),
                    'final score = inside score + attachment of the head to the root (column 0)', ('C09',))
                add('score-head', h == item.f['head_id'], 'head of the final item is the head of the derivation', ('C09',))
                add('licensed', z3.And(it.f['cat'] == item.f['cat'], z3.BoolVal(left.target is item and right.target is None)),
                    'final item points to the full-span item and carries its category', ('C02',))
                add('label-flow', it.f['rule_id'] == item.f['rule_id'], 'final item keeps the rule index of the item it wraps', ('C12',))
                add('monotone', it.f['in_score'] + it.f['out_score'] <= top.f['in_score'] + top.f['out_score'],
                    'priority of the pushed final item does not exceed the priority of the popped item', ('C01',))
                continue
            inv = inv_core(g, it)
            add('not-final', z3.Not(it.f['fin']), 'only the goal site creates final items', ('C02', 'C10'))
            add('inv-span', inv['span'], 'span of the new item inside the sentence', ('C02', 'C01'))
            add('inv-head', inv['head'], 'head of the new item inside its span', ('C01', 'C09'))
            add('inv-out', inv['out'], 'outside estimate = best remaining tag scores + best remaining head scores (incl. the own head)', ('C01',))
            add('inv-ib', inv['ib'], 'inside score bounded by the best scores of the span', ('C01',))
            add('inv-ids', inv['ids'], 'category / rule ids fit in unsigned', ('C02',))
            add('monotone', it.f['in_score'] + it.f['out_score'] <= top.f['in_score'] + top.f['out_score'],
                'priority of the pushed item does not exceed the priority of the popped item', ('C01',))
            if kind == 'unary':
                gh = None
                add('unary-guard', z3.Or(g.length == 1, item.f['span_length'] != g.length),
                    'no unary step at the root of a multi-word sentence', ('C02',))
                k = z3.Int('k_unary!witness')
                # the pushed category / rule index must be those of ONE unary result of the child category
                kk = [c for c in pc if False]
                add('score-in', it.f['in_score'] == item.f['in_score'] - g.penalty, 'unary node: child score minus the unary penalty', ('C09',))
                add('score-head', z3.And(h == item.f['head_id'], s == item.f['start_of_span'], n == item.f['span_length']),
                    'unary node keeps span and head of its child', ('C09', 'C02'))
                kconst = p['rule'][2] if p.get('rule') and p['rule'][0] == 'unary' else None
                add('licensed', it.f['cat'] == g.RU_cat(item.f['cat'], kconst) if kconst is not None else z3.BoolVal(False),
                    'category of the unary node is a result of the unary callback for the child category', ('C02',))
                add('label-flow', it.f['rule_id'] == kconst if kconst is not None else z3.BoolVal(False),
                    'rule index stored in the unary item is the index of the very result that created it', ('C12',))
            elif kind == 'binary':
                l, r = left.target, right.target
                kconst = p['rule'][3] if p.get('rule') and p['rule'][0] == 'binary' else None
                ok_ptr = (l is item and r is other) or (l is other and r is item)
                add('pointers', z3.And(z3.BoolVal(bool(ok_ptr)), l.f['start_of_span'] + l.f['span_length'] == r.f['start_of_span'],
                                       s == l.f['start_of_span'], n == l.f['span_length'] + r.f['span_length']),
                    'left/right are the two combined items, adjacent, and the new span is their union', ('C02',))
                if kconst is None:
                    add('licensed', z3.BoolVal(False), 'no binary result in scope at a binary push', ('C02',))
                    continue
                hil = g.RB_head(l.f['cat'], r.f['cat'], kconst)
                head_item_h = z3.If(hil, l.f['head_id'], r.f['head_id'])
                child_h = z3.If(hil, r.f['head_id'], l.f['head_id'])
                add('licensed', it.f['cat'] == g.RB_cat(l.f['cat'], r.f['cat'], kconst),
                    'category of the binary node is a result of the binary callback for (left category, right category)', ('C02',))
                add('label-flow', it.f['rule_id'] == kconst, 'rule index stored in the item is the index of the very result that created it', ('C12',))
                add('score-head', h == head_item_h, 'head of a binary node is the head of its head child (per the head flag of the rule result)', ('C09', 'C12'))
                add('score-in', it.f['in_score'] == l.f['in_score'] + r.f['in_score'] + g.dep(child_h, head_item_h + 1),
                    'binary node: sum of the children plus the dependency score of the non-head child attaching to the head', ('C09',))
            else:
                add('push-site', z3.BoolVal(False), 'a push whose left/right pointers match no node kind (leaf items are created only by the leaf loop)', ('C02', 'C16'))
    return recs, seen_lines


def find_const(pc, prefix):
    found = None
    def walk(e):
        nonlocal found
        if found is not None:
            return
        if z3.is_const(e) and e.decl().kind() == z3.Z3_OP_UNINTERPRETED and e.decl().name().startswith(prefix + '!'):
            found = e
            return
        for c in e.children():
            walk(c)
    for c in pc:
        walk(c)
    return found


# ------------------------------------------------------------------------------ phase B: leaf items (supertag beam)
def run_leaf_loop(ast):
    parse_sentence_roles(ast)
    g = Ghost()
    m = Model(ast, g)
    fn = ast.function('parse_sentence')
    body, fors = find_loops(fn)
    loop = fors[1]
    parts = loop['inner']
    ex = Exec(ast, m)
    info = {}

    def run():
        m.pushes = []
        env = base_env(g, ex)
        tok = ex.fresh('token_id', I_)
        # outer loop: an arbitrary iteration (the loop counter is the only state it carries)
        init = parts[0]
        vname = init['inner'][0]['name']
        env[vname] = tok
        for f in g.base_facts():
            ex.assume(f)
        ex.assume(tok >= 0)
        ex.assume(ex.truth(ex.ev(parts[2], env)))
        st = dict(i=None, popped=None, broke=False, pops=0)

        def pq(ex_, obj, name, args, node):
            # contract of the priority queue of (score, category) pairs of one token: it holds the pairs (tag(t,c), c), c < num_tags,
            # minus the ones popped so far; top() is the lexicographic maximum of what is left
            if name == 'top':
                if st['i'] is None:
                    best = Rec('pair', dict(first=g.BT(obj.token), second=ex_.fresh('best_cat', I_)))
                    return best
                sc, c = ex_.fresh('popped_score', R_), ex_.fresh('popped_cat', I_)
                ex_.assume(z3.And(c >= 0, c < g.num_tags, sc == g.tag(obj.token, c), sc <= g.BT(obj.token)))
                st['popped'] = (sc, c)
                return Rec('pair', dict(first=sc, second=c))
            if name == 'pop':
                st['pops'] += 1
                return None
            if name == 'size':
                return z3.Int('pq_size')
            if name == 'empty':
                return z3.Int('pq_size') == 0
            raise CheckerError(f'priority_queue::{name} not modelled')

        def push(ex_, it, node):
            m.pushes.append(dict(item=it, node=node, line=line_of(node), pc=list(ex_.pc), popped=st['popped'], i=st['i'], token=tok))

        def while_rule(ex_, st_, env_):
            """the pruning loop written as a while loop: one arbitrary iteration k (k completed iterations before it, none of which left the loop);
            a variable that every iteration increments exactly once (no continue in the body) has the value init + k at the start of iteration k;
            if the body ends in `if (C) break;`, iteration k >= 1 is reached only when C was false at the end of iteration k - 1"""
            from contracts.parsing_h_helpers import assigned_names
            inner = [c for c in st_['inner'] if c.get('kind')]
            cond, wbody = inner[0], inner[-1]
            k = ex_.fresh('k', I_)
            ex_.assume(k >= 0)
            st['i'] = k
            info['inner_cond'] = cond

            def walk(n):
                yield n
                for c in n.get('inner', []) or []:
                    if isinstance(c, dict):
                        yield from walk(c)
            if any(n.get('kind') == 'ContinueStmt' for n in walk(wbody)):
                raise CheckerError('continue inside the pruning loop written as a while loop')
            mods = [n_ for n_ in assigned_names(wbody) if n_ in env_]
            incs = {}
            for n in walk(wbody):
                if n.get('kind') in ('UnaryOperator', 'CompoundAssignOperator', 'BinaryOperator') and (n.get('opcode') in ('++', '--', '+=', '-=', '*=') or (n.get('kind') == 'BinaryOperator' and n.get('opcode') == '=')):
                    tgt = strip_casts(n['inner'][0])
                    if tgt.get('kind') == 'DeclRefExpr':
                        incs.setdefault(tgt['referencedDecl']['name'], []).append(n.get('opcode'))
            induction = [v for v in mods if incs.get(v) == ['++'] and z3.is_expr(env_[v])]
            env2 = dict(env_)
            prev = dict(env_)
            for v in mods:
                if v in induction:
                    env2[v] = env_[v] + k
                    prev[v] = env_[v] + (k - 1)
                elif z3.is_expr(env_[v]):
                    env2[v] = ex_.fresh(v, env_[v].sort())
                    prev[v] = ex_.fresh(v + '_prev', env_[v].sort())
            stmts = [c for c in wbody.get('inner', []) if c.get('kind')] if wbody.get('kind') == 'CompoundStmt' else [wbody]
            last = stmts[-1] if stmts else None
            if last is not None and last.get('kind') == 'IfStmt':
                parts_ = [c for c in last['inner'] if c.get('kind')]
                then = parts_[1] if len(parts_) > 1 else None
                only_break = then is not None and (then.get('kind') == 'BreakStmt' or (then.get('kind') == 'CompoundStmt' and [c.get('kind') for c in then.get('inner', []) if c.get('kind')] == ['BreakStmt']))
                if only_break and len(parts_) == 2:
                    n_ob = len(ex_.obligations)
                    try:
                        c_prev = ex_.truth(ex_.ev(parts_[0], prev))
                        ex_.assume(z3.Or(k == 0, z3.Not(c_prev)))
                    except CheckerError:
                        pass
                    del ex_.obligations[n_ob:]          # the ghost evaluation of the previous iteration's guard raises no obligations of its own
            ex_.assume(ex_.truth(ex_.ev(cond, env2)))
            try:
                ex_.run(wbody, env2)
            except _Break:
                st['broke'] = True

        def for_rule(ex_, st_, env_):
            # the pruning loop: for (i = 0; i < pruning_size && size(); i++) -- one arbitrary iteration; the i-th iteration pops the i-th best pair
            p = st_['inner']
            iv = p[0]['inner'][0]['name']
            i = ex_.fresh('i', I_)
            ex_.assume(i >= 0)
            env2 = dict(env_)
            env2[iv] = i
            st['i'] = i
            info['inner_cond'] = p[2]
            ex_.assume(ex_.truth(ex_.ev(p[2], env2)))
            try:
                ex_.run(p[-1], env2)
            except _Break:
                st['broke'] = True
            except _Continue:
                pass
        m.mode = dict(pq=pq, push=push)
        m.mode['for'] = lambda ex_, st_, env_: while_rule(ex_, st_, env_) if st_.get('kind') == 'WhileStmt' else for_rule(ex_, st_, env_)
        m.mode['agenda_top'] = lambda ex_: (_ for _ in ()).throw(CheckerError('agenda.top in the leaf loop'))
        m.mode['chart_update'] = None
        m.mode['chart_item'] = None
        m.mode['range'] = None
        cfg0 = dict(env[rn('config')].target.f)
        try:
            ex.run(parts[-1], env)
        except (_Break, _Continue):
            pass
        ex.oblige('frame-config', config_frame(g, cfg0, env[rn('config')].target), loop,
                  'an iteration of the leaf loop leaves every field of *config as it found it')
        return 'iteration', dict(pushes=list(m.pushes), st=dict(st), tok=tok, env_threshold=env.get('threshold'))
    outs = explore(ex, run)
    return g, m, outs


def spec_obligations_leaf(g, m, outs):
    recs = []
    for pi, o in enumerate(outs):
        for ob in o['obligations']:
            recs.append(dict(kind=ob['kind'], line=ob['line'], goal=ob['goal'], pc=ob['pc'], what=ob['what'],
                             props=('C11',) if ob['kind'] == 'frame-config' else ('C01',) if ob['kind'] == 'defined-range' else ('C16', 'C02'), path=pi, facts=[]))
        if o['kind'] != 'iteration':
            continue
        v = o['value']
        tok = v['tok']
        st = v['st']
        for p in v['pushes']:
            it, pc, line = p['item'], p['pc'], p['line']
            sc, c = p['popped'] if p['popped'] else (None, None)
            facts = list(g.base_facts()) + [z3.Implies(z3.And(tok >= 0, tok < g.length), g.prefix_step(tok)), g.exp(sc) > 0 if sc is not None else z3.BoolVal(True), g.exp(g.BT(tok)) > 0]
            add = lambda k, goal, what, props: recs.append(dict(kind=k, line=line, goal=goal, pc=pc, what=what, props=props, path=pi, facts=facts, site='leaf'))
            if sc is None:
                add('beam-source', z3.BoolVal(False), 'a leaf item is pushed without popping the candidate queue', ('C16',))
                continue
            inv = inv_core(g, it)
            left, right = it.f['left'], it.f['right']
            add('leaf-shape', z3.And(z3.BoolVal(isinstance(left, Ptr) and left.target is None and isinstance(right, Ptr) and right.target is None),
                                    z3.Not(it.f['fin']), it.f['start_of_span'] == tok, it.f['span_length'] == 1, it.f['head_id'] == tok),
                'leaf item: no children, span = the one token, head = the token', ('C02', 'C09'))
            add('beam-tag', z3.And(it.f['cat'] == c, it.f['in_score'] == sc), 'leaf carries the popped candidate tag and its score', ('C16', 'C09', 'C02'))
            add('beam-size', p['i'] < g.pruning, 'at most pruning_size candidates are popped: the leaf is one of the pruning_size best tags', ('C16',))
            add('beam-beta', z3.Implies(g.use_beta, g.exp(sc) >= g.beta * g.exp(g.BT(tok))),
                'with the beta filter on, the tag probability is not below beta times the probability of the best tag', ('C16',))
            add('inv-span', inv['span'], 'span inside the sentence', ('C02', 'C01'))
            add('inv-head', inv['head'], 'head inside the span', ('C01',))
            add('inv-out', inv['out'], 'outside estimate of a leaf = best tag scores of the other tokens + best head scores of all tokens', ('C01',))
            add('inv-ib', inv['ib'], 'inside score bounded by the best tag score of the token', ('C01',))
            add('score-in', it.f['in_score'] == g.tag(tok, it.f['cat']), 'leaf score is the tag score of its category', ('C09',))
        if st['i'] is not None and not v['pushes']:
            # the iteration did not push: it must have stopped the loop (break), and stopping is sound because later candidates are no better
            sc = st['popped'][0] if st['popped'] else None
            pc = o['pc']
            facts = list(g.base_facts())
            if sc is not None:
                sc2 = z3.Real('later_score')
                facts += [z3.Implies(sc2 <= sc, g.exp(sc2) <= g.exp(sc)), g.exp(sc) > 0]
                recs.append(dict(kind='beam-break', line=0, pc=pc, path=pi, facts=facts, props=('C16',), site='leaf',
                                 goal=z3.And(z3.BoolVal(st['broke']), g.use_beta, z3.Implies(sc2 <= sc, g.exp(sc2) < g.beta * g.exp(g.BT(v['tok'])) + 0) if False else z3.BoolVal(True)),
                                 what='a candidate is skipped only by stopping the loop, and only when the beta filter is on'))
                recs.append(dict(kind='beam-complete', line=0, pc=pc, path=pi, facts=facts + [g.exp(sc) > g.LOWEST], props=('C16',), site='leaf',
                                 goal=g.use_beta, what='with the filter off every popped candidate becomes a leaf item (only pruning_size limits the choice)'))
    return recs


# ------------------------------------------------------------------------------ the two memoising lambdas (rule cache)
def run_lambdas(ast):
    """apply_binary_rules / apply_unary_rules (lines 280-306): on a cache miss the vector filled by scaffold for (callback, x, y) is stored
    unchanged under the key and a pointer to the stored vector is returned; on a hit nothing is called.  Any other use of the vector
    between scaffold and emplace (an unmodelled call that receives it) counts as tampering."""
    parse_sentence_roles(ast)
    g = Ghost()
    m = Model(ast, g)
    fn = ast.function('parse_sentence')
    body = body_of(fn)
    recs = []
    lambdas = []
    for st in body['inner']:
        if st['kind'] == 'DeclStmt':
            for d in st.get('inner', []):
                if d.get('kind') == 'VarDecl':
                    def find_lambda(n):
                        if isinstance(n, dict):
                            if n.get('kind') == 'LambdaExpr':
                                return n
                            for c in n.get('inner', []):
                                r = find_lambda(c)
                                if r is not None:
                                    return r
                        return None
                    lam = find_lambda(d)
                    if lam is not None:
                        lambdas.append((d['name'], lam))
    want = {rn('apply_binary_rules'): 'binary_callback', rn('apply_unary_rules'): 'unary_callback'}
    # other lambdas of parse_sentence are executed in place where they are called (Model.inline_lambda); the two rule-cache lambdas are verified here
    lambdas = [(n, lam) for n, lam in lambdas if n in want]
    if sorted(n for n, _ in lambdas) != sorted(want):
        raise CheckerError(f'expected the lambdas {sorted(want)}, found {[n for n, _ in lambdas]}')
    for name, lam in lambdas:
        op = None
        for c in lam.get('inner', []):
            if c.get('kind') == 'CXXRecordDecl':
                for mm in c.get('inner', []):
                    if mm.get('kind') == 'CXXMethodDecl' and mm.get('name') == 'operator()':
                        op = mm
        if op is None:
            raise CheckerError(f'lambda {name}: no call operator in the AST')
        params = [p['name'] for p in op.get('inner', []) if p.get('kind') == 'ParmVarDecl']
        bodies = [c for c in lam.get('inner', []) if c.get('kind') == 'CompoundStmt'] or [c for c in op.get('inner', []) if c.get('kind') == 'CompoundStmt']
        if not bodies:
            raise CheckerError(f'lambda {name}: no body in the AST')
        lbody = bodies[0]
        recs.extend(_lambda_records(ast, m, g, name, want[name], lbody, params))
    return recs


def _lambda_records(ast, m, g, name, cbname, lbody, params):
    """executes the lambda body path by path and states the memo obligations per path"""
    out = []
    ex = Exec(ast, m)
    work = [[]]
    pi = 0
    while work:
        dec = work.pop()
        ex.reset(dec)
        log = dict(scaffold=[], emplace=[], at=[], tamper=[], hit=None, thrown=False)
        env = base_env(g, ex)      # a [&] lambda sees every variable of parse_sentence
        env.update({rn('cache'): Ptr(Abstract('cache')), rn('scaffold'): Abstract('fnptr', name='scaffold'), rn('binary_callback'): Abstract('cb', name='binary_callback'),
                    rn('unary_callback'): Abstract('cb', name='unary_callback')})
        args = {p: ex.fresh(p, I_) for p in params}
        env.update(args)

        def method(ex_, obj, mname, a, node):
            if isinstance(obj, Abstract) and obj.kind == 'cache':
                if mname == 'count':
                    log['hit'] = ex_.branch(ex_.fresh('cache_hit', B_))
                    log['count_key'] = a[0]
                    return z3.IntVal(1) if log['hit'] else z3.IntVal(0)
                if mname == 'emplace':
                    log['emplace'].append((a[0], getattr(a[1], 'state', None)))
                    return None
                if mname == 'at':
                    log['at'].append(a[0])
                    return Abstract('stored_vector', key=a[0])
                if mname == 'find':
                    # the other way of probing: an iterator that is end() on a miss and points at (key, stored vector) on a hit
                    log['hit'] = ex_.branch(ex_.fresh('cache_hit', B_))
                    log['count_key'] = a[0]
                    return Abstract('cache_iter', key=a[0], hit=log['hit'])
                if mname in ('end', 'cend'):
                    return Abstract('cache_end')
            if isinstance(obj, Abstract) and obj.kind == 'localvec':
                if mname in ('reserve', 'size', 'empty', 'capacity', 'shrink_to_fit') and (obj.state == 'empty' or mname != 'reserve'):
                    # observers, and reserve() on the still empty vector, leave its contents alone
                    return ex_.fresh('vec_' + mname, I_) if mname in ('size', 'capacity') else (ex_.fresh('vec_empty', B_) if mname == 'empty' else None)
                obj.state = 'tampered'
                log['tamper'].append(mname)
                return None
            raise CheckerError(f'method {mname} on {obj!r} in lambda {name} is not modelled')

        def operator(ex_, opname, a, node):
            kinds = [x.kind if isinstance(x, Abstract) else None for x in a]
            if opname in ('operator!=', 'operator==') and sorted(kinds, key=str) == ['cache_end', 'cache_iter']:
                it = [x for x in a if x.kind == 'cache_iter'][0]
                return z3.BoolVal(it.hit if opname == 'operator!=' else not it.hit)
            if opname in ('operator->', 'operator*') and kinds == ['cache_iter']:
                if not a[0].hit:
                    ex_.oblige('nonnull', z3.BoolVal(False), node, 'the end() iterator of the cache is dereferenced')
                    raise Infeasible()
                pair = Rec('pair', dict(first=a[0].key, second=Abstract('stored_vector', key=a[0].key)))
                return Ptr(pair) if opname == 'operator->' else pair
            return NotImplemented

        def call_value(ex_, f, a, node):
            if isinstance(f, Abstract) and f.kind == 'fnptr':
                vec = a[3].v if isinstance(a[3], AddrOf) else a[3]
                if not (isinstance(vec, Abstract) and vec.kind == 'localvec'):
                    raise CheckerError('scaffold is not given the address of the local result vector')
                log['scaffold'].append((a[0], a[1], a[2]))
                vec.state = ('filled-by-scaffold', a[0], a[1], a[2]) if vec.state == 'empty' else 'tampered'
                return ex_.fresh('scaffold_rc', I_)
            raise CheckerError('call through an unknown function value')

        def call(ex_, fname, a, node, env_):
            for x in a:
                v = x.v if isinstance(x, AddrOf) else x
                if isinstance(v, Abstract) and v.kind == 'localvec':
                    v.state = 'tampered'
                    log['tamper'].append(fname)
            return None
        m.mode = dict(call=call)
        m.method_override, m.call_value_override, m.throw_ok, m.operator_override = method, call_value, log, operator
        kind, val = 'fallthrough', None
        try:
            ex.run(lbody, env)
        except _Return as r:
            kind, val = 'return', r.v
        except Infeasible:
            work.extend(ex.pending)
            continue
        except LambdaThrow:
            kind = 'throw'
        work.extend(ex.pending)
        x = args[params[0]]
        y = args[params[1]] if len(params) > 1 else z3.IntVal(U32 - 1)

        def key_is(k):
            if not (isinstance(k, Rec) and k.kind == 'pair'):
                # not knowing what the key is is not a violation: the obligation stays undecided (exit 3)
                raise CheckerError(f'lambda {name}: the cache key {k!r} is not a std::pair this model can read')
            return z3.And(k.f['first'] == x, k.f['second'] == y)
        add = lambda k, goal, what, props: out.append(dict(kind=k, line=line_of(lbody), goal=goal, pc=list(ex.pc), what=what, props=props, path=pi, facts=[], site=name))
        if kind == 'throw':
            add('memo-throw', z3.BoolVal(len(log['scaffold']) == 1 and not log['emplace']), 'an exception leaves the cache untouched', ('C11',))
        elif kind != 'return' or not (isinstance(val, Ptr) or isinstance(val, AddrOf) or isinstance(val, Abstract)):
            add('memo-return', z3.BoolVal(False), 'the lambda returns a pointer to the cached vector', ('C11', 'C12', 'C02'))
        else:
            tgt = val.v if isinstance(val, AddrOf) else (val.target if isinstance(val, Ptr) else val)
            ok_ret = isinstance(tgt, Abstract) and tgt.kind == 'stored_vector'
            add('memo-return', z3.And(z3.BoolVal(bool(ok_ret)), key_is(tgt.key) if ok_ret else z3.BoolVal(False)),
                'the lambda returns the vector stored under (x, y)', ('C11', 'C12', 'C02'))
            if log['hit']:
                add('memo-hit', z3.BoolVal(not log['scaffold'] and not log['emplace'] and not log['tamper']),
                    'on a cache hit neither the grammar nor the cache is touched', ('C11',))
            else:
                ok = (len(log['scaffold']) == 1 and len(log['emplace']) == 1 and not log['tamper'])
                conj = [z3.BoolVal(bool(ok))]
                if ok:
                    cb, sx, sy = log['scaffold'][0]
                    conj += [z3.BoolVal(isinstance(cb, Abstract) and getattr(cb, 'name', None) == cbname), sx == x, sy == y]
                    ek, est = log['emplace'][0]
                    conj += [key_is(ek), z3.BoolVal(isinstance(est, tuple) and est[0] == 'filled-by-scaffold')]
                add('memo-miss', z3.And(*conj), 'on a miss the vector filled by scaffold(callback, x, y) is stored unchanged under (x, y)', ('C11', 'C12', 'C02'))
            add('memo-key', key_is(log.get('count_key')) if log.get('count_key') is not None else z3.BoolVal(False), 'the cache is probed with the key (x, y)', ('C11',))
        pi += 1
    return out


class LambdaThrow(Exception):
    pass


# ------------------------------------------------------------------------------ phase D: what follows the search loop (failure test, ordering, delivery)
def run_final_region(ast):
    """the statements of parse_sentence after the search loop, executed path by path from an arbitrary state of the goal chart:
      final-fail     1 is returned iff the goal cell is empty, 0 otherwise (C01: failure is reported only if no derivation was found; C02: nothing else is returned)
      final-sorted   the goal cell is sorted (cell::sort, whose comparator is proved to be `higher score first` by the helper contract) before it is walked and not touched afterwards (C10)
      final-each     the walk visits the items of the goal cell (0, 0), each iteration hands the address of the visited item, a token counter that starts at 0,
                     the rule cache and the caller's argument to the finalizer exactly once, no iteration leaves the loop early (C10, C02)"""
    parse_sentence_roles(ast)
    g = Ghost()
    m = Model(ast, g)
    fn = ast.function('parse_sentence')
    body, fors = find_loops(fn)
    stmts = [c for c in body['inner'] if c.get('kind')]
    tail = stmts[stmts.index(fors[2]) + 1:]
    if not tail:
        raise CheckerError('parse_sentence ends with its search loop: nothing delivers the parses')
    ex = Exec(ast, m)
    recs = []
    work = [[]]
    pi = 0
    gsize = z3.Int('goal_size_at_exit')
    while work:
        dec = work.pop()
        ex.reset(dec)
        ex.assume(gsize >= 0)
        log = dict(order=[], walks=[], calls=[], other=[])
        env = base_env(g, ex)
        env.update({rn('cache'): Ptr(Abstract('cache')), rn('finalizer_callback'): Abstract('fnptr', name='finalizer_callback'), rn('finalizer_args'): Abstract('finalizer_args'),
                    rn('scaffold'): Abstract('fnptr', name='scaffold'), rn('binary_callback'): Abstract('cb', name='binary_callback'), rn('unary_callback'): Abstract('cb', name='unary_callback')})

        def chart_size(obj):
            return gsize if obj.name == 'goal' else z3.Int(obj.name + '_size')

        def cell_method(ex_, obj, name, a, node):
            is_goal = obj.chart.name == 'goal'
            if name == 'sort' and not a:
                log['order'].append(('sort', is_goal, z3.simplify(obj.row), z3.simplify(obj.col)))
                return None
            if name == 'size' and not a:
                return gsize if is_goal else ex_.fresh('cell_size', I_)
            log['other'].append(name)
            log['order'].append(('touch', is_goal, name))
            return ex_.fresh('cell_' + name, I_)

        def rng(ex_, st, env_, r):
            if not (isinstance(r, Abstract) and r.kind == 'cell'):
                raise CheckerError('range-for over an unmodelled container after the search loop')
            inner = [c for c in st['inner'] if 'kind' in c]
            var, lbody = inner[-2]['inner'][0], inner[-1]
            it = new_item(ex_, 'delivered', m.fields)
            walk = dict(goal=r.chart.name == 'goal', row=r.row, col=r.col, item=it, calls=[], ended='normal', order_at=len(log['order']))
            log['order'].append(('walk', walk['goal']))
            log['walks'].append(walk)
            env2 = dict(env_)
            env2[var['name']] = it
            log['current'] = walk
            pc0, lits0 = list(ex_.pc), dict(ex_.lits)
            try:
                ex_.run(lbody, env2)
            except _Break:
                walk['ended'] = 'break'
            except _Continue:
                walk['ended'] = 'continue'
            finally:
                walk['pc'] = list(ex_.pc)
                ex_.pc[:] = pc0
                ex_.lits = lits0
                log['current'] = None

        def call_value(ex_, f, a, node):
            if isinstance(f, Abstract) and f.kind == 'fnptr' and f.name == 'finalizer_callback':
                rec = dict(args=a, walk=log.get('current'))
                log['calls'].append(rec)
                if log.get('current') is not None:
                    log['current']['calls'].append(rec)
                return None
            raise CheckerError('call through an unknown function value after the search loop')
        m.mode = dict(cell_method=cell_method, range=rng)
        m.mode['for'] = lambda ex_, st, env_: (_ for _ in ()).throw(CheckerError('classic loop after the search loop'))
        m.call_value_override = call_value
        m.chart_size_override = chart_size
        kind, val = 'fallthrough', None
        try:
            for st in tail:
                ex.run(st, env)
        except _Return as r:
            kind, val = 'return', r.v
        except Infeasible:
            work.extend(ex.pending)
            continue
        work.extend(ex.pending)
        pc = list(ex.pc)
        add = lambda k, goal, what, props, pc=pc: recs.append(dict(kind=k, line=line_of(tail[0]), goal=goal, pc=pc, what=what, props=props, path=pi, facts=[], site='after-search'))
        for ob in ex.obligations:
            recs.append(dict(kind=ob['kind'], line=ob['line'], goal=ob['goal'], pc=ob['pc'], what=ob['what'], props=('C02', 'C10'), path=pi, facts=[], site='after-search'))
        if kind != 'return' or not z3.is_expr(val):
            add('final-fail', z3.BoolVal(False), 'parse_sentence returns a status after the search loop', ('C01', 'C02'))
        else:
            add('final-fail', z3.And(z3.Implies(gsize == 0, val == 1), z3.Implies(gsize > 0, val == 0)),
                'status 1 (failed) is returned iff no finished parse reached the goal cell, 0 otherwise', ('C01', 'C02'))
            delivered = [w for w in log['walks'] if w['goal']]
            # on a path that reports success the goal cell is sorted, then walked once, and not touched in between or afterwards
            success = z3.And(gsize > 0)
            order = log['order']
            shape_ok = (len(delivered) == 1 and len(log['walks']) == 1 and not log['other'])
            sorted_before = shape_ok and any(o[0] == 'sort' and o[1] for o in order[:delivered[0]['order_at']]) and \
                not any(o[0] in ('sort', 'touch') for o in order[delivered[0]['order_at'] + 1:])
            add('final-sorted', z3.Implies(success, z3.BoolVal(bool(sorted_before))),
                'on success the goal cell is sorted (best first) before its items are handed out, and left alone afterwards', ('C10',))
            if shape_ok:
                w = delivered[0]
                add('final-each', z3.Implies(success, z3.And(w['row'] == 0, w['col'] == 0, z3.BoolVal(w['ended'] == 'normal'))),
                    'the items handed out are those of the goal cell (0, 0), all of them (no break)', ('C10', 'C02'))
                ok = len(w['calls']) == 1 and len(log['calls']) == 1
                conj = [z3.BoolVal(bool(ok))]
                if ok:
                    a = w['calls'][0]['args']
                    first = a[0].target if isinstance(a[0], Ptr) else (a[0].v if isinstance(a[0], AddrOf) else a[0])
                    tok = a[1].v if len(a) > 1 and isinstance(a[1], AddrOf) else None
                    conj.append(z3.BoolVal(len(a) == 4 and first is w['item']))
                    conj.append(tok == 0 if z3.is_expr(tok) else z3.BoolVal(False))
                    conj.append(z3.BoolVal(len(a) == 4 and isinstance(a[2], Ptr) and isinstance(a[2].target, Abstract) and a[2].target.kind == 'cache'
                                           and isinstance(a[3], Abstract) and a[3].kind == 'finalizer_args'))
                add('final-each', z3.And(*conj), 'each visited item is handed to the finalizer exactly once: (&item, &token counter = 0, cache, finalizer_args)', ('C10', 'C02'), pc=w['pc'])
            else:
                add('final-each', z3.Implies(success, z3.BoolVal(False)), 'on success exactly the goal cell is walked, once', ('C10', 'C02'))
        pi += 1
    if not recs:
        raise CheckerError('no obligations generated for the region after the search loop')
    return recs


# ------------------------------------------------------------------------------ frame of parse_sentence w.r.t. *config (whole function, syntactic)
def config_frame_scan(ast):
    """every occurrence of the parameter `config` in parse_sentence (lambdas included) must be the base of a member READ:
    DeclRefExpr config -> [LValueToRValue] -> MemberExpr -> LValueToRValue cast. Anything else (store, ++/--, compound assignment, address taken,
    handed to a call, copied into another pointer) is reported: the object is shared by all sentences of a run (parsing.pyx: one c_config per run)."""
    parse_sentence_roles(ast)
    fn = ast.function('parse_sentence')
    sites, bad = [], []

    def walk(n, anc):
        if not isinstance(n, dict):
            return
        if n.get('kind') == 'DeclRefExpr' and n.get('referencedDecl', {}).get('name') == rn('config') and n['referencedDecl'].get('kind') == 'ParmVarDecl':
            chain = [a for a in reversed(anc)]
            if chain and chain[0].get('kind') == 'LambdaExpr':
                # the capture list of a lambda (clang lists every captured variable under the LambdaExpr): capturing the pointer is not a use of *config;
                # what the body does with it is scanned like everything else
                return
            i = 0
            while i < len(chain) and chain[i].get('kind') in ('ImplicitCastExpr', 'ParenExpr') and chain[i].get('castKind', 'LValueToRValue') in ('LValueToRValue', 'NoOp'):
                i += 1
            ok = False
            field = None
            if i < len(chain) and chain[i].get('kind') == 'MemberExpr':
                field = chain[i].get('name')
                j = i + 1
                while j < len(chain) and chain[j].get('kind') == 'ParenExpr':
                    j += 1
                ok = j < len(chain) and chain[j].get('kind') == 'ImplicitCastExpr' and chain[j].get('castKind') == 'LValueToRValue'
                use = chain[j] if j < len(chain) else chain[i]
            else:
                use = chain[i] if i < len(chain) else n
            sites.append((line_of(n), field))
            if not ok:
                bad.append(dict(line=line_of(n) or line_of(use), field=field, use=use.get('kind'), opcode=use.get('opcode')))
        for c in n.get('inner', []) or []:
            walk(c, anc + [n])
    walk(fn, [])
    if not sites:
        raise CheckerError('parse_sentence never reads its config parameter (frame scan found no occurrence)')
    recs = []
    recs.append(dict(kind='frame-config-scan', line=line_of(fn), goal=z3.BoolVal(not bad), pc=[], facts=[], props=('C11',), path=0, site=f'{len(sites)} uses',
                     what=('every use of the parameter config in parse_sentence is a member read (%d uses)' % len(sites)) if not bad else
                          ('parse_sentence writes or leaks *config, which parsing.pyx shares between all sentences of a run: ' +
                           '; '.join(f"parsing.h:{b['line']} config->{b['field']} used by {b['use']}{' ' + b['opcode'] if b['opcode'] else ''}" for b in bad[:4]))))
    return recs
