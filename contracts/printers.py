"""Contracts for the printers (C07 ...): depccg/printer/conll.py::_resolve_dependencies and its nested recursive `rec`.

Trees are seen through the view  Tree = Leaf | Un(child) | Bin(left, right, head_is_left)  (z3 datatype); the attributes the printers read
(is_leaf, is_unary, child, left_child, right_child, head_is_left) are given their meaning by TREE_VIEW below, which is itself checked against the
real properties of depccg/tree.py on the three shapes Tree.__init__ admits (tree_view_obligations).
Spec functions (recursive, over the view):
    nleaves(t)        number of words
    headpos(t)        offset of the head word:  leaf 0 | unary headpos(child) | binary (head_is_left ? headpos(l) : nleaves(l) + headpos(r))
    dep(t, i)         offset of the word the i-th word is attached to (the head word itself: -1):
                      binary: the head word of the non-head child is attached to the head word of the head child, everything else as inside the children
"""
import z3

from vc.engine import Contract, Case
from vc.pyvc import Z, PyRaise, Env
from vc.sorts import CheckerError

I_, B_ = z3.IntSort(), z3.BoolSort()

_T = z3.Datatype('TreeView')
_T.declare('Leaf', ('ltag', I_))
_T.declare('Un', ('utag', I_), ('child', _T))
_T.declare('Bin', ('btag', I_), ('left', _T), ('right', _T), ('hl', B_))
T = _T.create()
# the tag is the identity of a node: category, rule label and token hang off it (uninterpreted: the printers only copy them)


def tag(e):
    return z3.If(T.is_Leaf(e), T.ltag(e), z3.If(T.is_Un(e), T.utag(e), T.btag(e)))


OP_STRING = z3.Function('tv_op_string', I_, z3.StringSort())
OP_SYMBOL = z3.Function('tv_op_symbol', I_, z3.StringSort())

nleaves = z3.RecFunction('tv_nleaves', T, I_)
headpos = z3.RecFunction('tv_headpos', T, I_)
dep = z3.RecFunction('tv_dep', T, I_, I_)
_t, _i = z3.Const('t', T), z3.Int('i')
z3.RecAddDefinition(nleaves, [_t], z3.If(T.is_Leaf(_t), 1, z3.If(T.is_Un(_t), nleaves(T.child(_t)), nleaves(T.left(_t)) + nleaves(T.right(_t)))))
z3.RecAddDefinition(headpos, [_t], z3.If(T.is_Leaf(_t), 0, z3.If(T.is_Un(_t), headpos(T.child(_t)),
                                                                z3.If(T.hl(_t), headpos(T.left(_t)), nleaves(T.left(_t)) + headpos(T.right(_t))))))
def dep_body(t, i):
    nl = nleaves(T.left(t))
    return z3.If(
        T.is_Leaf(t), -1,
        z3.If(T.is_Un(t), dep(T.child(t), i),
              z3.If(i < nl,
                    z3.If(i == headpos(T.left(t)), z3.If(T.hl(t), -1, nl + headpos(T.right(t))), dep(T.left(t), i)),
                    z3.If(i - nl == headpos(T.right(t)), z3.If(T.hl(t), headpos(T.left(t)), -1), nl + dep(T.right(t), i - nl)))))


z3.RecAddDefinition(dep, [_t, _i], dep_body(_t, _i))


def unfold_dep(I, e):
    """the definition of dep at the node e for all positions (not unfolded under a quantifier by the solver itself)"""
    i = z3.Int('i!ud')
    I.ctx.assume(z3.ForAll([i], dep(e, i) == dep_body(e, i)))


class SymTree:
    """a Tree object seen through the view"""
    def __init__(self, e):
        self.e = e

    def getattr(self, I, name, node):
        e = self.e
        if name == 'is_leaf':
            return Z(T.is_Leaf(e))
        if name == 'is_unary':
            return Z(z3.Or(T.is_Leaf(e), T.is_Un(e)))            # tree.py: len(children) == 1 (a leaf has its one token)
        if name == 'head_is_left':
            if I.branch(T.is_Bin(e), node):
                return Z(T.hl(e))
            return True                                           # make_terminal / make_unary leave the default
        if name in ('child',):
            if not I.branch(z3.Or(T.is_Leaf(e), T.is_Un(e)), node):
                raise PyRaise('AssertionError', 'This node is not unary node!', node)
            if I.branch(T.is_Leaf(e), node):
                raise CheckerError('Tree.child of a leaf is its token: not a tree')
            return SymTree(T.child(e))
        if name == 'left_child':
            if I.branch(T.is_Leaf(e), node):
                raise PyRaise('AssertionError', 'This node is leaf', node)
            return SymTree(z3.If(T.is_Un(e), T.child(e), T.left(e)))
        if name == 'right_child':
            if I.branch(T.is_Leaf(e), node):
                raise PyRaise('AssertionError', 'This node is leaf', node)
            if I.branch(T.is_Un(e), node):
                raise PyRaise('AssertionError', 'This node does not have right child!', node)
            return SymTree(T.right(e))
        if name == 'cat':
            return Z(CAT_OF(I)(tag(e)))
        if name == 'op_string':
            return Z(OP_STRING(tag(e)))
        if name == 'op_symbol':
            return Z(OP_SYMBOL(tag(e)))
        if name == 'children':
            if I.branch(T.is_Leaf(e), node):
                return [SymToken(T.ltag(e))]
            if I.branch(T.is_Un(e), node):
                I.ctx.assume(nleaves(T.child(e)) >= 1)                                   # lemma nleaves-positive (structural induction, view_lemmas)
                return [SymTree(T.child(e))]
            I.ctx.assume(z3.And(nleaves(T.left(e)) >= 1, nleaves(T.right(e)) >= 1))       # lemma nleaves-positive
            return [SymTree(T.left(e)), SymTree(T.right(e))]
        if name == 'token':
            if not I.branch(T.is_Leaf(e), node):
                raise PyRaise('AssertionError', 'Tree.token must be called on leaf objects', node)
            return SymToken(T.ltag(e))
        raise CheckerError(f'Tree.{name} is outside the tree view')


def CAT_OF(I):
    return z3.Function('tv_cat', I_, I.w.Cat)


class SymToken:
    """the token of a leaf: an opaque dict identified by the tag of its leaf"""
    def __init__(self, tag_):
        self.tag = tag_


def closure_names(I, f):
    """free variables of a nested function that are neither module-level names nor builtins: (names, nonlocal-declared names).
    The contracts find the closure variables they talk about by ROLE (the shared list, the counter declared nonlocal, self), not by their spelling:
    renaming a local is not a change of behaviour"""
    import ast
    import builtins
    fn = f.node
    a = fn.args
    params = {x.arg for x in a.posonlyargs + a.args + a.kwonlyargs} | ({a.vararg.arg} if a.vararg else set()) | ({a.kwarg.arg} if a.kwarg else set())
    nonlocals, stored, loaded = set(), set(), set()
    for n in ast.walk(fn):
        if isinstance(n, ast.Nonlocal):
            nonlocals.update(n.names)
        elif isinstance(n, ast.Name):
            (stored if isinstance(n.ctx, (ast.Store, ast.Del)) else loaded).add(n.id)
        elif isinstance(n, (ast.FunctionDef, ast.Lambda)) and n is not fn:
            if isinstance(n, ast.FunctionDef):
                stored.add(n.name)
    free = (loaded - params - (stored - nonlocals)) | nonlocals
    out = set()
    for name in free:
        if hasattr(builtins, name):
            continue
        try:
            f.module.env.lookup(name)
            continue
        except KeyError:
            pass
        out.add(name)
    out.discard(fn.name)
    return out, nonlocals


def the_one(names, what, where):
    names = sorted(names)
    if len(names) != 1:
        raise CheckerError(f'{where}: expected one closure variable for {what}, found {names}')
    return names[0]


class _Method:
    def __init__(self, fn):
        self.fn = fn

    def call(self, I, args, kwargs, node):
        return self.fn(I, args, kwargs, node)


class SymIntList:
    """a python list of ints of symbolic length: contents as a z3 array"""
    def __init__(self, arr, n):
        self.arr, self.n = arr, n

    def length(self, I, node):
        return Z(self.n)

    def getattr(self, I, name, node):
        if name == 'append':
            def app(I, args, kwargs, node):
                self.arr = z3.Store(self.arr, self.n, I.ex(args[0]))
                self.n = self.n + 1
                return None
            return _Method(app)
        raise CheckerError(f'list.{name} on a symbolic list')

    def _index(self, I, k, node):
        i = I.ex(k)
        if I.branch(z3.And(i >= 0, i < self.n), node):
            return i
        if I.branch(z3.And(i < 0, i >= -self.n), node):
            return self.n + i
        raise PyRaise('IndexError', 'list index out of range', node)

    def getitem(self, I, k, node):
        return Z(z3.Select(self.arr, self._index(I, k, node)))

    def setitem(self, I, k, v, node):
        self.arr = z3.Store(self.arr, self._index(I, k, node), I.ex(v))

    def comprehension(self, I, e, env, module):
        """[x for x in self if p(x)]: a list whose length is the number of elements satisfying p (counted axiomatically: 0 / 1 / >= 2)"""
        import ast
        if len(e.generators) != 1 or not isinstance(e.generators[0].target, ast.Name) or not isinstance(e.elt, ast.Name) or e.elt.id != e.generators[0].target.id:
            raise CheckerError('comprehension over a symbolic list: only [x for x in xs if p(x)]')
        g = e.generators[0]

        def pure(x, val):
            """the filter as a z3 term over the element (no path forking): comparisons of the loop variable with integer constants, and / or / not"""
            if isinstance(x, ast.Name) and x.id == g.target.id:
                return val
            if isinstance(x, ast.Constant) and isinstance(x.value, int) and not isinstance(x.value, bool):
                return z3.IntVal(x.value)
            if isinstance(x, ast.UnaryOp) and isinstance(x.op, ast.USub):
                return -pure(x.operand, val)
            if isinstance(x, ast.UnaryOp) and isinstance(x.op, ast.Not):
                return z3.Not(pure(x.operand, val))
            if isinstance(x, ast.BoolOp):
                parts = [pure(v, val) for v in x.values]
                return z3.And(parts) if isinstance(x.op, ast.And) else z3.Or(parts)
            if isinstance(x, ast.Compare) and len(x.ops) == 1:
                a, b = pure(x.left, val), pure(x.comparators[0], val)
                ops = {ast.Eq: lambda: a == b, ast.NotEq: lambda: a != b, ast.Lt: lambda: a < b, ast.LtE: lambda: a <= b, ast.Gt: lambda: a > b, ast.GtE: lambda: a >= b}
                if type(x.ops[0]) in ops:
                    return ops[type(x.ops[0])]()
            raise CheckerError(f'filter of a comprehension over a symbolic list: {ast.unparse(x)} is outside the pure subset')

        def p(idx):
            cs = [pure(c, z3.Select(self.arr, idx)) for c in g.ifs]
            return z3.And(cs) if cs else z3.BoolVal(True)
        return FilteredCount(self, p)


class FilteredCount:
    def __init__(self, base, p):
        self.base, self.p = base, p

    def length(self, I, node):
        n = self.base.n
        cnt = I.fresh('count', I_)
        a, b = z3.Int('a!c'), z3.Int('b!c')
        inr = lambda x: z3.And(x >= 0, x < n)
        p = self.p
        I.ctx.assume(cnt >= 0)
        I.ctx.assume(z3.Implies(z3.ForAll([a], z3.Implies(inr(a), z3.Not(p(a)))), cnt == 0))
        I.ctx.assume(z3.ForAll([a], z3.Implies(z3.And(inr(a), p(a), z3.ForAll([b], z3.Implies(z3.And(inr(b), b != a), z3.Not(p(b))))), cnt == 1)))
        I.ctx.assume(z3.ForAll([a, b], z3.Implies(z3.And(inr(a), inr(b), a != b, p(a), p(b)), cnt >= 2)))
        for h in getattr(I.ctx, 'count_hints', ()):
            # the "exactly one" axiom instantiated at a position the path knows about (an instance of the axiom above)
            I.ctx.assume(z3.Implies(z3.And(inr(h), p(h), z3.ForAll([b], z3.Implies(z3.And(inr(b), b != h), z3.Not(p(b))))), cnt == 1))
        return Z(cnt)


REL = 'depccg/printer/conll.py'


def heads_at(arr1, n0, t, i):
    k = nleaves(t)
    return z3.Implies(z3.And(i >= 0, i < k),
                      z3.If(i == headpos(t), z3.Select(arr1, n0 + i) == -1,
                            z3.And(z3.Select(arr1, n0 + i) == n0 + dep(t, i), dep(t, i) >= 0, dep(t, i) < k, dep(t, i) != i)))


def rec_clauses(arr0, n0, arr1, n1, t, ret, ih=()):
    """contract of _resolve_dependencies.rec(node) on the shared list `results`.
    ih: the contract applications made on this path (arr_before, n_before, arr_after, subtree); the universally quantified clauses are proved at a fresh position
    with the hypotheses of those applications instantiated at that same absolute position (instances of facts already on the path: sound, and robust for the solver)"""
    i, j = z3.Int('i!p'), z3.Int('j!p')
    k = nleaves(t)
    i0, j0 = z3.Int('i0!skolem'), z3.Int('j0!skolem')
    inst = []
    for (a0, m0, a1, sub) in ih:
        for pos in (n0 + i0, j0):
            inst.append(heads_at(a1, m0, sub, pos - m0))
            inst.append(z3.Implies(z3.And(pos >= 0, pos < m0), z3.Select(a1, pos) == z3.Select(a0, pos)))
    hyp = z3.And(inst) if inst else z3.BoolVal(True)
    return [('length', z3.And(k >= 1, n1 == n0 + k)),
            ('returns-head', z3.And(ret == n0 + headpos(t), headpos(t) >= 0, headpos(t) < k)),
            ('frame', z3.Implies(hyp, z3.Implies(z3.And(j0 >= 0, j0 < n0), z3.Select(arr1, j0) == z3.Select(arr0, j0))) if ih else
             z3.ForAll([j], z3.Implies(z3.And(j >= 0, j < n0), z3.Select(arr1, j) == z3.Select(arr0, j)))),            # nothing before the subtree changes
            ('heads', z3.Implies(hyp, heads_at(arr1, n0, t, i0)) if ih else z3.ForAll([i], heads_at(arr1, n0, t, i)))]


def rec_post(*a):
    return z3.And([g for _, g in rec_clauses(*a)])


class ResolveRec(Contract):
    rel, qualname = REL, '_resolve_dependencies.rec'

    def closure_env(self, I, f):
        m = I.load_module('depccg.printer.conll')
        env = Env(m.env)
        env.set(f.node.name, f)
        self._env = env
        self._list = the_one(closure_names(I, f)[0], 'the shared list of heads', self.name)
        return env

    def cases(self, I):
        def build(I):
            t = z3.Const('node', T)
            arr, n = z3.Const('results0', z3.ArraySort(I_, I_)), z3.Int('len0')
            lst = SymIntList(arr, n)
            self._env.set(self._list, lst)
            self._pre = (arr, n, t, lst)
            unfold_dep(I, t)
            return [SymTree(t)], {}, [n >= 0], None
        yield Case('any-node', build)

    def post(self, I, case, args, result):
        arr0, n0, t, lst = self._pre
        return rec_clauses(arr0, n0, lst.arr, lst.n, t, I.ex(result), ih=getattr(I.ctx, 'rec_ih', ()) )

    def apply(self, I, args, kwargs, node):
        f = I.callee
        if len(args) != 1 or not isinstance(args[0], SymTree):
            raise CheckerError('rec called with something that is not a tree view')
        t = args[0].e
        name = the_one(closure_names(I, f)[0], 'the shared list of heads', self.name)
        lst = f.env.lookup(name)
        if isinstance(lst, list):
            if lst:
                raise CheckerError('rec called with a non-empty concrete list')
            lst = SymIntList(z3.K(I_, z3.IntVal(0)), z3.IntVal(0))
            f.env.set(name, lst)
        arr0, n0 = lst.arr, lst.n
        arr1 = I.fresh('results', z3.ArraySort(I_, I_))
        ret = I.fresh('head', I_)
        lst.arr, lst.n = arr1, n0 + nleaves(t)
        I.ctx.assume(rec_post(arr0, n0, arr1, lst.n, t, ret))
        I.ctx.rec_ih = list(getattr(I.ctx, 'rec_ih', [])) + [(arr0, n0, arr1, t)]
        I.ctx.count_hints = list(getattr(I.ctx, 'count_hints', [])) + [ret]
        return Z(ret)


class ResolveDependencies(Contract):
    rel, qualname = REL, '_resolve_dependencies'

    def cases(self, I):
        def build(I):
            t = z3.Const('tree', T)
            self._t = t
            return [SymTree(t)], {}, [], None
        yield Case('any-tree', build)

    def post(self, I, case, args, result):
        t = self._t
        if not isinstance(result, SymIntList):
            return z3.BoolVal(False)
        i = z3.Int('i!r')
        k = nleaves(t)
        return z3.And(result.n == k,
                      z3.ForAll([i], z3.Implies(z3.And(i >= 0, i < k),
                                                z3.If(i == headpos(t), z3.Select(result.arr, i) == -1,                       # one root: the head word of the sentence
                                                      z3.And(z3.Select(result.arr, i) == dep(t, i),                          # every other word: the head assignment implied by the head flags
                                                             dep(t, i) >= 0, dep(t, i) < k, dep(t, i) != i)))))


# ---------------------------------------------------------------------------- the tree view against the real depccg/tree.py
def tree_view_obligations(I, prop):
    """builds the three shapes with the real constructors (make_terminal, make_unary, make_binary) and reads the real properties; each reading must be
    what SymTree.getattr says for the corresponding view term (the asserts of Tree.__init__ admit no other shape)."""
    import ast
    from vc.pyvc import Obj, explore
    from vc.engine import solve
    m = I.load_module('depccg.tree')
    Tree, Token = m.env.lookup('Tree'), m.env.lookup('Token')
    node = ast.parse('0').body[0]
    hl = z3.Bool('hl')

    def run(ctx):
        cat = Z(z3.Const('c', I.w.Cat))
        tok = Obj(Token)                         # a token object (its dict content plays no role in the view)
        leaf = I.call(I.getattr(Tree, 'make_terminal', node), [tok, cat], {}, node)
        un = I.call(I.getattr(Tree, 'make_unary', node), [cat, leaf], {}, node)
        b = I.call(I.getattr(Tree, 'make_binary', node), [cat, leaf, un, 'fa', '>', Z(hl)], {}, node)
        vleaf = T.Leaf(z3.Int('tag1'))
        vun = T.Un(z3.Int('tag2'), vleaf)
        vbin = T.Bin(z3.Int('tag3'), vleaf, vun, hl)
        out = []

        def val(x):
            return x.e if isinstance(x, Z) else z3.BoolVal(x) if isinstance(x, bool) else x
        for nm, real, view in (('leaf', leaf, vleaf), ('unary', un, vun), ('binary', b, vbin)):
            for a in ('is_leaf', 'is_unary', 'head_is_left'):
                out.append((f'{nm}.{a}', val(I.getattr(real, a, node)) == z3.simplify(val(SymTree(view).getattr(I, a, node)))))
        kids = dict(leaf=leaf, unary=un)
        for nm, real, view, attr, want in (('unary', un, vun, 'child', leaf), ('unary', un, vun, 'left_child', leaf), ('binary', b, vbin, 'left_child', leaf), ('binary', b, vbin, 'right_child', un)):
            got = I.getattr(real, attr, node)
            sv = SymTree(view).getattr(I, attr, node)
            want_view = vleaf if want is leaf else vun
            out.append((f'{nm}.{attr}', z3.And(z3.BoolVal(got is want), z3.simplify(sv.e) == want_view)))
        for nm, real, view, attr in (('leaf', leaf, vleaf, 'left_child'), ('leaf', leaf, vleaf, 'right_child'), ('unary', un, vun, 'right_child'), ('binary', b, vbin, 'child')):
            r1 = r2 = None
            try:
                I.getattr(real, attr, node)
            except PyRaise as e:
                r1 = e.exc
            try:
                SymTree(view).getattr(I, attr, node)
            except PyRaise as e:
                r2 = e.exc
            out.append((f'{nm}.{attr} raises', z3.BoolVal(r1 is not None and r1 == r2)))
        return 'ok', out
    outs = explore(I, run)
    recs = []
    for pi, o in enumerate(outs):
        if o['kind'] != 'ok':
            raise CheckerError(f'tree view: path ended with {o["kind"]}')
        for name, goal in o['value']:
            v, b_, ms, _ = solve(goal, o['pc'])
            recs.append(dict(name=f'{prop}/depccg/tree.py::Tree/view[{name}]#{pi}', kind='view', verdict=v, backend=b_, ms=ms, inputs=None,
                             detail=f'the real Tree.{name.split(".")[1].split(" ")[0]} on a {name.split(".")[0]} built by the real constructor agrees with the tree view',
                             witness=dict(function='depccg/tree.py::Tree.' + name.split('.')[1].split(' ')[0])))
    if not recs:
        raise CheckerError('tree view: no obligations')
    return recs


# ============================================================================ depccg/printer/xml.py (C07: C&C xml)
S_ = z3.StringSort()
_X = z3.Datatype('XmlView')
_X.declare('Lf', ('start', I_), ('span', S_), ('lcat', S_), ('tok', I_))
_X.declare('R1', ('type1', S_), ('cat1', S_), ('kid', _X))
_X.declare('R2', ('type2', S_), ('cat2', S_), ('kid1', _X), ('kid2', _X))
X = _X.create()

leaf_tag = z3.RecFunction('tv_leaf_tag', T, I_, I_)


def leaf_tag_body(t, i):
    return z3.If(T.is_Leaf(t), T.ltag(t), z3.If(T.is_Un(t), leaf_tag(T.child(t), i),
                                                z3.If(i < nleaves(T.left(t)), leaf_tag(T.left(t), i), leaf_tag(T.right(t), i - nleaves(T.left(t))))))


z3.RecAddDefinition(leaf_tag, [_t, _i], leaf_tag_body(_t, _i))


def unfold_leaf_tag(I, e):
    """the definition of leaf_tag instantiated at the node e, for all positions (the solver does not unfold a recursive definition under a quantifier by itself)"""
    i = z3.Int('i!u')
    I.ctx.assume(z3.ForAll([i], leaf_tag(e, i) == leaf_tag_body(e, i)))
_ENC = {}


def enc_xml(I):
    """the C&C xml element of a node whose first word has offset s:  lf(start = s, span = 1, cat, token) | rule(type, cat, children...)"""
    if 'f' not in _ENC:
        f = z3.RecFunction('tv_enc_xml', T, I_, X)
        s = z3.Int('s')
        cat = lambda g: I.w.str_spec(CAT_OF(I)(g))
        z3.RecAddDefinition(f, [_t, s], z3.If(
            T.is_Leaf(_t), X.Lf(s, z3.StringVal('1'), cat(T.ltag(_t)), T.ltag(_t)),
            z3.If(T.is_Un(_t), X.R1(OP_STRING(T.utag(_t)), cat(T.utag(_t)), f(T.child(_t), s)),
                  X.R2(OP_STRING(T.btag(_t)), cat(T.btag(_t)), f(T.left(_t), s), f(T.right(_t), s + nleaves(T.left(_t)))))))
        _ENC['f'] = f
    return _ENC['f']


TOK = z3.Function('tv_token_tag_at', I_, I_)          # tag of the leaf whose token sits at position k of tree.tokens


class SymElem:
    """an lxml element built on this path: tag, attributes in the order set, children (elements of this path or xml-view terms from contracts)"""
    def __init__(self, tagname):
        self.tagname, self.attrs, self.kids, self.overlay = tagname, {}, [], None

    def getattr(self, I, name, node):
        if name == 'set':
            def set_(I, args, kwargs, node):
                k, v = args
                if not isinstance(k, str):
                    raise CheckerError('element.set with a symbolic attribute name')
                self.attrs[k] = v
                return None
            return _Method(set_)
        if name == 'append':
            def app(I, args, kwargs, node):
                self.kids.append(args[0])
                return None
            return _Method(app)
        raise CheckerError(f'etree element .{name} is outside the model')

    def term(self, I):
        """the xml view of this element and the side conditions under which it is that view"""
        def sval(v):
            if isinstance(v, str):
                return z3.StringVal(v)
            if isinstance(v, Z):
                return v.e
            raise CheckerError(f'attribute value {v!r} is not a string')
        kids = [k.term(I)[0] if isinstance(k, SymElem) else k for k in self.kids]
        side = [k.term(I)[1] for k in self.kids if isinstance(k, SymElem)]
        a = self.attrs
        if self.tagname == 'lf':
            start = a.get('start')
            ok = set(a) == {'start', 'span', 'cat'} and not kids and hasattr(start, 'z') and self.overlay is not None
            if not ok:
                return None, z3.BoolVal(False)
            return X.Lf(start.z.e, sval(a['span']), sval(a['cat']), self.overlay), z3.And(side) if side else z3.BoolVal(True)
        if self.tagname == 'rule':
            if set(a) != {'type', 'cat'} or len(kids) not in (1, 2) or self.overlay is not None:
                return None, z3.BoolVal(False)
            t = X.R1(sval(a['type']), sval(a['cat']), kids[0]) if len(kids) == 1 else X.R2(sval(a['type']), sval(a['cat']), kids[0], kids[1])
            return t, z3.And(side) if side else z3.BoolVal(True)
        return None, z3.BoolVal(False)


class SymTokenItems:
    """token.items() of an opaque token: `for k, v in items: elem.set(k, v)` copies the token's attributes onto the element"""
    def __init__(self, tok):
        self.tok = tok

    def for_loop(self, I, st, env, module, qual):
        import ast
        # recognised shape: for k, v in token.items(): <elem>.set(k, v)
        ok = (isinstance(st.target, ast.Tuple) and len(st.target.elts) == 2 and all(isinstance(e, ast.Name) for e in st.target.elts) and len(st.body) == 1 and not st.orelse
              and isinstance(st.body[0], ast.Expr) and isinstance(st.body[0].value, ast.Call) and isinstance(st.body[0].value.func, ast.Attribute) and st.body[0].value.func.attr == 'set'
              and [ast.unparse(a) for a in st.body[0].value.args] == [e.id for e in st.target.elts] and not st.body[0].value.keywords)
        if not ok:
            raise CheckerError(f'loop over token.items() at line {st.lineno} is not the attribute copy `for k, v in token.items(): elem.set(k, v)`')
        elem = I.eval(st.body[0].value.func.value, env, module)
        if not isinstance(elem, SymElem) or elem.overlay is not None:
            raise CheckerError('token attributes copied onto something that is not a fresh element')
        elem.overlay = self.tok.tag


def _token_getattr(self, I, name, node):
    if name == 'items':
        return _Method(lambda I, args, kwargs, node: SymTokenItems(self))
    raise CheckerError(f'token.{name} is outside the model')


SymToken.getattr = _token_getattr


class SymTokenQueue:
    """list(enumerate(tree.tokens)): the pairs (k, token k) for k0 <= k < n; pop(0) takes the first"""
    def __init__(self, tree, k, n):
        self.tree, self.k, self.n = tree, k, n

    def getattr(self, I, name, node):
        if name == 'pop':
            def pop(I, args, kwargs, node):
                if list(args) != [0]:
                    raise CheckerError('tokens.pop with an index other than 0')
                if not I.branch(self.k < self.n, node):
                    raise PyRaise('IndexError', 'pop from empty list', node)
                k = self.k
                self.k = k + 1
                return (Z(k), SymToken(TOK(k)))
            return _Method(pop)
        raise CheckerError(f'list.{name} on the token queue')


class SymTokens:
    """tree.tokens (contract of Tree.tokens / Tree.leaves, assumed: the tokens of the leaves in order)"""
    def __init__(self, tree):
        self.tree = tree

    def enumerate(self, I, start, node):
        if start != 0:
            raise CheckerError('enumerate(tree.tokens, start != 0)')
        return self

    def to_list(self, I, node):
        i = z3.Int('i!tk')
        I.ctx.assume(z3.ForAll([i], z3.Implies(z3.And(i >= 0, i < nleaves(self.tree)), TOK(i) == leaf_tag(self.tree, i))))
        return SymTokenQueue(self.tree, z3.IntVal(0), nleaves(self.tree))


_orig_tree_getattr = SymTree.getattr


def _tree_getattr(self, I, name, node):
    if name == 'tokens':
        return SymTokens(self.e)
    return _orig_tree_getattr(self, I, name, node)


SymTree.getattr = _tree_getattr


def install_etree(I):
    """lxml is not importable under the verifier's interpreter: etree.Element / SubElement are given by their contracts"""
    import types
    et = types.ModuleType('lxml.etree')

    def element(I_, args, kwargs, node):
        return SymElem(args[0])

    def sub(I_, args, kwargs, node):
        parent, tagname = args
        if not isinstance(parent, SymElem):
            raise CheckerError('SubElement of something that is not an element of this path')
        e = SymElem(tagname)
        parent.kids.append(e)
        return e
    et.Element, et.SubElement = _Method(element), _Method(sub)
    lx = types.ModuleType('lxml')
    lx.etree = et
    I.modules['lxml'] = lx
    I.modules['lxml.etree'] = et
    # itertools.count(): a counter whose state is a symbolic integer (the other names of the module stay the real ones)
    import itertools as _it
    itm = types.ModuleType('itertools')
    itm.__dict__.update({k: v for k, v in _it.__dict__.items() if not k.startswith('__')})

    def count(I_, args, kwargs, node):
        if kwargs or len(args) > 1:
            raise CheckerError('itertools.count with a step')
        return SymCounter(I_.ex(args[0]) if args else z3.IntVal(0))
    itm.count = _Method(count)
    I.modules['itertools'] = itm


class SymCounter:
    """itertools.count(k): next() returns the current value and advances by one"""
    def __init__(self, k):
        self.k = k

    def py_next(self, I, node):
        k = self.k
        self.k = k + 1
        return Z(k)


XREL = 'depccg/printer/xml.py'


class XmlRec(Contract):
    rel, role = XREL, '_process_tree.rec'

    def __init__(self):
        # nested in _process_tree (the token queue / position counter is a closure variable) or a module-level function it calls (then the queue is its third
        # parameter): found by role
        self.qualname = find_recursive_helper(XREL, '_process_tree', '_process_tree.rec')
        self.nested = '.' in self.qualname
        self._counter = False
        self._env = None

    def closure_env(self, I, f):
        m = I.load_module('depccg.printer.xml')
        env = Env(m.env)
        env.set(f.node.name, f)
        self._env = env
        self._queue = the_one(closure_names(I, f)[0], 'the token queue', self.name)
        self._counter = self.queue_is_counter(I, self._queue)
        return env

    def _queue_of(self, I, f, args):
        """the queue / counter object of a call: the closure variable, or the third argument of the module-level form"""
        if self.nested:
            return f.env.lookup(the_one(closure_names(I, f)[0], 'the token queue', self.name))
        if len(args) != 3:
            raise CheckerError(f'{self.qualname} is called with {len(args)} arguments (expected node, parent, tokens)')
        return args[2]

    @staticmethod
    def queue_is_counter(I, name):
        """the one closure variable of rec is either the queue list(enumerate(tree.tokens)) or a plain position counter (itertools.count(); the token is then
        read from the leaf itself): decided by the expression _process_tree binds it to"""
        import ast
        from vc.sorts import parse_source
        outer = [n for n in parse_source(XREL).body if isinstance(n, ast.FunctionDef) and n.name == '_process_tree']
        for n in ast.walk(outer[0]) if outer else ():
            if isinstance(n, ast.Assign) and any(isinstance(t, ast.Name) and t.id == name for t in n.targets) and isinstance(n.value, ast.Call):
                f = n.value.func
                if (f.attr if isinstance(f, ast.Attribute) else getattr(f, 'id', None)) == 'count':
                    return True
        return False

    @staticmethod
    def pre(k0, n, t):
        i = z3.Int('i!x')
        # (stated over the absolute position so that the quantifier is triggered by TOK(.) alone)
        return z3.And(k0 >= 0, k0 + nleaves(t) <= n, z3.ForAll([i], z3.Implies(z3.And(i >= k0, i < k0 + nleaves(t)), TOK(i) == leaf_tag(t, i - k0))))

    def cases(self, I):
        def build(I):
            t = z3.Const('node', T)
            k0, n = z3.Int('k0'), z3.Int('n_tokens')
            q = SymCounter(k0) if self._counter else SymTokenQueue(None, k0, n)
            parent = SymElem('parent')
            self._pre = (t, k0, n, q, parent)
            if self.nested:
                self._env.set(self._queue, q)
                return [SymTree(t), parent], {}, [k0 >= 0 if self._counter else self.pre(k0, n, t)], None
            f = I.find_function(self.rel, self.qualname)
            if len(f.node.args.args) != 3:
                raise CheckerError(f'{self.qualname}: expected the parameters (node, parent, tokens)')
            return [SymTree(t), parent, q], {}, [self.pre(k0, n, t)], None
        yield Case('any-node', build)

    def post(self, I, case, args, result):
        t, k0, n, q, parent = self._pre
        if len(parent.kids) != 1 or parent.attrs:
            return z3.BoolVal(False)
        kid = parent.kids[0]
        term, side = kid.term(I) if isinstance(kid, SymElem) else (kid, z3.BoolVal(True))
        if term is None:
            return z3.BoolVal(False)
        return z3.And(side, term == enc_xml(I)(t, k0), q.k == k0 + nleaves(t))

    def apply(self, I, args, kwargs, node):
        f = I.callee
        if len(args) not in (2, 3) or not isinstance(args[0], SymTree) or not isinstance(args[1], SymElem):
            raise CheckerError('rec(node, parent) called with unexpected arguments')
        t, parent = args[0].e, args[1]
        q = self._queue_of(I, f, args)
        if not isinstance(q, (SymTokenQueue, SymCounter)):
            raise CheckerError('rec called while its closure variable is neither the token queue nor a position counter')
        unfold_leaf_tag(I, getattr(self, '_pre', (None,))[0]) if I.target_contract is self and getattr(self, '_pre', None) else None
        if isinstance(q, SymCounter):
            I.oblige('pre', q.k >= 0, node, extra='precondition of rec: the position counter is not negative')
        else:
            I.oblige('pre', self.pre(q.k, q.n, t), node, extra='precondition of rec: the remaining tokens start with the tokens of this subtree')
        parent.kids.append(enc_xml(I)(t, q.k))
        q.k = q.k + nleaves(t)
        return None


class XmlProcessTree(Contract):
    rel, qualname = XREL, '_process_tree'

    def cases(self, I):
        def build(I):
            t = z3.Const('tree', T)
            self._t = t
            return [SymTree(t)], {}, [], None
        yield Case('any-tree', build)

    def post(self, I, case, args, result):
        t = self._t
        if not isinstance(result, SymElem) or result.tagname != 'ccg' or result.attrs or len(result.kids) != 1:
            return z3.BoolVal(False)
        kid = result.kids[0]
        term, side = kid.term(I) if isinstance(kid, SymElem) else (kid, z3.BoolVal(True))
        if term is None:
            return z3.BoolVal(False)
        # one child: the encoding of the whole tree with offsets counted from 0 (per tree, whatever was printed before)
        return z3.And(side, term == enc_xml(I)(t, 0))


def view_lemmas(prop):
    """lemma nleaves-positive: every tree view has at least one word (structural induction: leaf; unary from the child; binary from both children)"""
    from vc.engine import solve
    g, c, l, r, h = z3.Int('g'), z3.Const('c', T), z3.Const('l', T), z3.Const('r', T), z3.Bool('h')
    items = [('lemma-base', nleaves(T.Leaf(g)) >= 1, []),
             ('lemma-step[unary]', nleaves(T.Un(g, c)) >= 1, [nleaves(c) >= 1]),
             ('lemma-step[binary]', nleaves(T.Bin(g, l, r, h)) >= 1, [nleaves(l) >= 1, nleaves(r) >= 1])]
    recs = []
    for kind, goal, hyp in items:
        v, b, ms, _ = solve(goal, hyp)
        recs.append(dict(name=f'{prop}/tree-view/nleaves-positive/{kind}', kind=kind.split('[')[0], verdict=v, backend=b, ms=ms, inputs=None,
                         detail='every tree view has at least one word', witness=dict(function='spec function nleaves')))
    return recs


# ============================================================================ depccg/printer/jigg_xml.py (C15: a Jigg XML sentence is self-contained)
_SP = z3.Datatype('JiggSpan')
_SP.declare('Span', ('idn', I_), ('cat', S_), ('terminal', I_), ('child1', I_), ('child2', I_), ('rule', S_), ('begin', I_), ('end', I_))
SP = _SP.create()
SPARR = z3.ArraySort(I_, SP)
CATMV = None
nnodes = z3.RecFunction('tv_nnodes', T, I_)
z3.RecAddDefinition(nnodes, [_t], z3.If(T.is_Leaf(_t), 1, z3.If(T.is_Un(_t), 1 + nnodes(T.child(_t)), 1 + nnodes(T.left(_t)) + nnodes(T.right(_t)))))
USE_SYMBOL = z3.Bool('use_symbol')
_JG = {}


def span_rec(I):
    """the j-th span element (pre-order) of a node whose own id number is p and whose first word has offset c:
       own record: id p, category text, terminal c (leaf) or child ids p + 1 [and p + 1 + nnodes(left)], rule label, begin c, end c + nleaves"""
    if 'f' not in _JG:
        f = z3.RecFunction('tv_span_rec', T, I_, I_, I_, SP)
        p, c, j = z3.Int('p'), z3.Int('c'), z3.Int('j')
        _JG['f'] = f
        _JG['body'] = lambda t, p, c, j: span_rec_body(I, f, t, p, c, j)
        z3.RecAddDefinition(f, [_t, p, c, j], _JG['body'](_t, p, c, j))
    return _JG['f']


def cat_mv(I):
    global CATMV
    if CATMV is None:
        CATMV = z3.Function('jigg_cat_text', I.w.Cat, S_)
    return CATMV


def span_rec_body(I, f, t, p, c, j):
    cat = lambda g: cat_mv(I)(CAT_OF(I)(g))
    rule = lambda g: z3.If(USE_SYMBOL, OP_SYMBOL(g), OP_STRING(g))
    nl = nleaves(T.left(t))
    own = z3.If(T.is_Leaf(t), SP.Span(p, cat(T.ltag(t)), c, -1, -1, z3.StringVal(''), c, c + 1),
                z3.If(T.is_Un(t), SP.Span(p, cat(T.utag(t)), -1, p + 1, -1, rule(T.utag(t)), c, c + nleaves(t)),
                      SP.Span(p, cat(T.btag(t)), -1, p + 1, p + 1 + nnodes(T.left(t)), rule(T.btag(t)), c, c + nleaves(t))))
    return z3.If(j == 0, own,
                 z3.If(T.is_Un(t), f(T.child(t), p + 1, c, j - 1),
                       z3.If(j - 1 < nnodes(T.left(t)), f(T.left(t), p + 1, c, j - 1), f(T.right(t), p + 1 + nnodes(T.left(t)), c + nl, j - 1 - nnodes(T.left(t))))))


def unfold_span_rec(I, e):
    f = span_rec(I)
    p, c, j = z3.Int('p!u'), z3.Int('c!u'), z3.Int('j!u')
    I.ctx.assume(z3.ForAll([p, c, j], f(e, p, c, j) == _JG['body'](e, p, c, j)))


def _tree_len(self, I, node):
    return Z(nleaves(self.e))        # Tree.__len__ = len(self.leaves) (contract of Tree.leaves, assumed)


SymTree.length = _tree_len


class SymSpanList:
    """the children of the <ccg> element: span records as an array with a length; the element created on this path stays a python object until the end"""
    def __init__(self, arr, n):
        self.tagname, self.arr, self.n, self.attrs, self.pending = 'ccg', arr, n, {}, []

    def getattr(self, I, name, node):
        if name == 'set':
            def set_(I, args, kwargs, node):
                self.attrs[args[0]] = args[1]
                return None
            return _Method(set_)
        raise CheckerError(f'ccg element .{name} is outside the model')

    def getitem(self, I, k, node):
        for idx, e in self.pending:
            if z3.is_true(z3.simplify(idx == I.ex(k))):
                return e
        raise CheckerError('res[k] for an element that was not created on this path')

    def final_arr(self, I):
        arr, side = self.arr, []
        for idx, e in self.pending:
            term, ok = span_term(I, e)
            side.append(ok)
            if term is not None:
                arr = z3.Store(arr, idx, term)
        return arr, z3.And(side) if side else z3.BoolVal(True)


def fstring_shape(v, prefix_lits):
    """v is the text  lit0 <int> lit1 <int> ...  with the given literals: returns the ints or None"""
    from vc.pyvc import FString, SymIntStr
    if not isinstance(v, FString):
        return None
    parts, out, i = list(v.parts), [], 0
    # merge adjacent literals
    norm = []
    for p in parts:
        if isinstance(p, str) and norm and isinstance(norm[-1], str):
            norm[-1] += p
        else:
            norm.append(p)
    want = []
    for lit in prefix_lits:
        want.append(lit)
        want.append(None)
    if len(norm) != len(want):
        return None
    for p, w in zip(norm, want):
        if w is None:
            if not isinstance(p, SymIntStr):
                return None
            out.append(p.z.e)
        elif p != w:
            return None
    return out


def span_term(I, e):
    """the span record of a <span> element built on this path, and whether its attributes have the shapes the record stands for"""
    a = e.attrs
    sid = _JG['sid']

    def sval(v):
        return z3.StringVal(v) if isinstance(v, str) else v.e if isinstance(v, Z) else None
    ok = []
    ids = fstring_shape(a.get('id'), ['s', '_sp'])
    if ids is None:
        return None, z3.BoolVal(False)
    ok.append(ids[0] == sid)
    cat = sval(a.get('category'))
    b, en = a.get('begin'), a.get('end')
    if cat is None or not hasattr(b, 'z') or not hasattr(en, 'z'):
        return None, z3.BoolVal(False)
    keys = set(a) - {'root'}
    if 'terminal' in a:
        tm = fstring_shape(a['terminal'], ['s', '_'])
        if tm is None or keys != {'category', 'id', 'terminal', 'begin', 'end'}:
            return None, z3.BoolVal(False)
        ok.append(tm[0] == sid)
        return SP.Span(ids[1], cat, tm[1], -1, -1, z3.StringVal(''), b.z.e, en.z.e), z3.And(ok)
    if keys != {'category', 'id', 'child', 'rule', 'begin', 'end'}:
        return None, z3.BoolVal(False)
    rule = sval(a['rule'])
    c1 = fstring_shape(a['child'], ['s', '_sp'])
    c2 = fstring_shape(a['child'], ['s', '_sp', ' s', '_sp'])
    if rule is None or (c1 is None and c2 is None):
        return None, z3.BoolVal(False)
    if c1 is not None:
        ok.append(c1[0] == sid)
        return SP.Span(ids[1], cat, -1, c1[1], -1, rule, b.z.e, en.z.e), z3.And(ok)
    ok += [c2[0] == sid, c2[2] == sid]
    return SP.Span(ids[1], cat, -1, c2[1], c2[3], rule, b.z.e, en.z.e), z3.And(ok)


def install_etree_jigg(I):
    import types
    et = I.modules['lxml.etree']
    base_sub = et.SubElement

    def sub(I_, args, kwargs, node):
        parent, tagname = args
        if isinstance(parent, SymSpanList):
            e = SymElem(tagname)
            parent.pending.append((parent.n, e))
            parent.n = parent.n + 1
            return e
        return base_sub.call(I_, args, kwargs, node)
    et.SubElement = _Method(sub)


JREL = 'depccg/printer/jigg_xml.py'


class CatMultiValued(Contract):
    """_cat_multi_valued: Jigg's spelling of a category, kept opaque (a function of the category); its text is compared by the bounded run"""
    rel, qualname = JREL, '_cat_multi_valued'

    def apply(self, I, args, kwargs, node):
        c = args[0]
        if not (isinstance(c, Z) and I.sort_name(c) == 'Cat'):
            raise CheckerError('_cat_multi_valued of something that is not a category')
        return Z(cat_mv(I)(c.e))


def traverse_clauses(I, t, p0, c0, m0, arr0, arr1, n1, spid1, counter1, ret):
    """contract of traverse(node): ids p0+1 .. p0+nnodes, words c0 .. c0+nleaves, the spans appended in pre-order, nothing before them touched"""
    j = z3.Int('j!t')
    f = span_rec(I)
    idn, start = ret
    return [('counters', z3.And(spid1 == p0 + nnodes(t), counter1 == c0 + nleaves(t), n1 == m0 + nnodes(t), nnodes(t) >= 1)),
            ('returns', z3.And(idn == p0 + 1, start == c0)),
            ('own-span', z3.Select(arr1, m0) == f(t, p0 + 1, c0, 0)),
            ('frame', z3.ForAll([j], z3.Implies(z3.And(j >= 0, j < m0), z3.Select(arr1, j) == z3.Select(arr0, j)))),
            ('subtree-spans', z3.ForAll([j], z3.Implies(z3.And(j >= 0, j < nnodes(t)), z3.Select(arr1, m0 + j) == f(t, p0 + 1, c0, j))))]


def traverse_post(*a):
    return z3.And([g for _, g in traverse_clauses(*a)])


def jigg_roles(I, f):
    """closure variables of traverse by role: the word counter (the one declared nonlocal), self, and the <ccg> element the spans are appended to (the remaining one)"""
    import ast
    names, nonlocals = closure_names(I, f)
    if nonlocals:
        counter = the_one(nonlocals, 'the word counter (nonlocal)', 'traverse')
    else:
        # the counter as an iterator (itertools.count()): the closure variable handed to next()
        nexts = {n.args[0].id for n in ast.walk(f.node) if isinstance(n, ast.Call) and isinstance(n.func, ast.Name) and n.func.id == 'next' and n.args and isinstance(n.args[0], ast.Name)}
        counter = the_one(nexts & names, 'the word counter (nonlocal int, or an iterator handed to next())', 'traverse')
    element = the_one(names - {counter} - {'self'}, 'the <ccg> element', 'traverse')
    return dict(counter=counter, element=element, iterator=not nonlocals)


def _counter_get(I, v):
    return v.k if isinstance(v, SymCounter) else I.ex(v)


class JiggTraverse(Contract):
    rel, qualname = JREL, '_ConvertToJiggXML.process.traverse'

    def closure_env(self, I, f):
        m = I.load_module('depccg.printer.jigg_xml')
        env = Env(m.env)
        env.set(f.node.name, f)
        self._env = env
        self._roles = jigg_roles(I, f)
        return env

    def _state(self, I):
        from vc.pyvc import Obj
        m = I.load_module('depccg.printer.jigg_xml')
        cls = m.env.lookup('_ConvertToJiggXML')
        sid, p0, c0, m0 = z3.Int('sid'), z3.Int('spid0'), z3.Int('counter0'), z3.Int('m0')
        _JG['sid'] = sid
        obj = Obj(cls)
        obj.attrs.update(sid=Z(sid), _spid=Z(p0), processed=Z(z3.Int('processed0')), use_symbol=Z(USE_SYMBOL))
        res = SymSpanList(z3.Const('spans0', SPARR), m0)
        return obj, res, sid, p0, c0, m0

    def cases(self, I):
        def build(I):
            t = z3.Const('node', T)
            obj, res, sid, p0, c0, m0 = self._state(I)
            env = self._env
            env.set('self', obj)
            env.set(self._roles['element'], res)
            env.set(self._roles['counter'], SymCounter(c0) if self._roles['iterator'] else Z(c0))
            env.set('etree', I.modules['lxml.etree'])
            self._pre = (t, obj, res, p0, c0, m0, res.arr)
            unfold_span_rec(I, t)
            I.ctx.assume(nleaves(t) >= 1)
            return [SymTree(t)], {}, [m0 >= 0, sid >= 0, p0 >= -1, c0 >= 0], None
        yield Case('any-node', build)

    def post(self, I, case, args, result):
        t, obj, res, p0, c0, m0, arr0 = self._pre
        if not (isinstance(result, tuple) and len(result) == 2):
            return z3.BoolVal(False)
        ids = fstring_shape(result[0], ['s', '_sp'])
        if ids is None:
            return z3.BoolVal(False)
        arr1, side = res.final_arr(I)
        counter1 = _counter_get(I, self._env.lookup(self._roles['counter']))
        return [('attribute-shapes', z3.And(side, ids[0] == _JG['sid']))] + \
            traverse_clauses(I, t, p0, c0, m0, arr0, arr1, res.n, I.ex(obj.attrs['_spid']), counter1, (ids[1], I.ex(result[1])))

    def apply(self, I, args, kwargs, node):
        from vc.pyvc import FString, SymIntStr
        f = I.callee
        if len(args) != 1 or not isinstance(args[0], SymTree):
            raise CheckerError('traverse called with something that is not a tree view')
        t = args[0].e
        env = f.env
        roles = jigg_roles(I, f)
        obj, res = env.lookup('self'), env.lookup(roles['element'])
        if not isinstance(res, SymSpanList):
            raise CheckerError('traverse called while the <ccg> element is not the span list')
        cv = env.lookup(roles['counter'])
        p0, c0, m0, arr0 = I.ex(obj.attrs['_spid']), _counter_get(I, cv), res.n, res.arr
        arr1 = I.fresh('spans', SPARR)
        idn, start = I.fresh('span_id', I_), I.fresh('span_start', I_)
        res.arr, res.n = arr1, m0 + nnodes(t)
        obj.attrs['_spid'] = Z(p0 + nnodes(t))
        if isinstance(cv, SymCounter):
            cv.k = c0 + nleaves(t)
        else:
            env.set(roles['counter'], Z(c0 + nleaves(t)))
        I.ctx.assume(traverse_post(I, t, p0, c0, m0, arr0, arr1, res.n, p0 + nnodes(t), c0 + nleaves(t), (idn, start)))
        return (FString(['s', SymIntStr(Z(_JG['sid'])), '_sp', SymIntStr(Z(idn))]), Z(start))


class JiggProcess(Contract):
    """process(tree): one <ccg> with the spans of the tree in pre-order, ids continuing after the ones used before (n-best lists of one sentence share the converter)"""
    rel, qualname = JREL, '_ConvertToJiggXML.process'

    def cases(self, I):
        def build(I):
            t = z3.Const('tree', T)
            from vc.pyvc import Obj
            m = I.load_module('depccg.printer.jigg_xml')
            cls = m.env.lookup('_ConvertToJiggXML')
            sid, p0, pr0 = z3.Int('sid'), z3.Int('spid0'), z3.Int('processed0')
            _JG['sid'] = sid
            obj = Obj(cls)
            obj.attrs.update(sid=Z(sid), _spid=Z(p0), processed=Z(pr0), use_symbol=Z(USE_SYMBOL))
            self._pre = (t, obj, sid, p0, pr0)
            self._res = None
            orig = I.modules['lxml.etree'].Element

            def element(I_, args, kwargs, node):
                if args[0] == 'ccg':
                    self._res = SymSpanList(z3.K(I_sort(), SP.Span(0, z3.StringVal(''), 0, 0, 0, z3.StringVal(''), 0, 0)), z3.IntVal(0))
                    return self._res
                return orig.call(I_, args, kwargs, node)
            self._element = _Method(element)
            I.modules['lxml.etree'].Element = self._element
            self._orig = orig
            unfold_span_rec(I, t)
            return [obj, SymTree(t)], {}, [sid >= 0, p0 >= -1, pr0 >= 0], None
        yield Case('any-tree', build)

    def post(self, I, case, args, result):
        I.modules['lxml.etree'].Element = self._orig
        t, obj, sid, p0, pr0 = self._pre
        res = self._res
        if res is None or result is not res:
            return z3.BoolVal(False)
        j = z3.Int('j!p')
        f = span_rec(I)
        cid = fstring_shape(res.attrs.get('id'), ['s', '_ccg'])
        root = fstring_shape(res.attrs.get('root'), ['s', '_sp'])
        if cid is None or root is None or res.pending:
            return z3.BoolVal(False)
        rootflag = getattr(self, '_rootflag', None)
        return z3.And(res.n == nnodes(t),
                      z3.ForAll([j], z3.Implies(z3.And(j >= 0, j < nnodes(t)), z3.Select(res.arr, j) == f(t, p0 + 1, 0, j))),     # spans in pre-order, offsets from 0
                      cid[0] == sid, cid[1] == pr0, root[0] == sid, root[1] == p0 + 1,                                            # ccg id, root reference = first span
                      z3.BoolVal(res.root_marked == 0),                                                                             # exactly the first span carries root="true"
                      I.ex(obj.attrs['_spid']) == p0 + nnodes(t), I.ex(obj.attrs['processed']) == pr0 + 1)                         # the next tree continues after these ids


def I_sort():
    return I_


def _spanlist_getitem(self, I, k, node):
    """res[0].set('root', 'true'): marking one span as the root"""
    idx = I.ex(k)
    lst = self

    class _Marked:
        def getattr(self_, I_, name, node_):
            if name == 'set':
                def set_(I2, args, kwargs, n2):
                    if list(args) != ['root', 'true']:
                        raise CheckerError('an attribute other than root="true" is set on a span after the traversal')
                    if getattr(lst, 'root_marked', None) is not None:
                        raise CheckerError('two spans are marked as root')
                    v = z3.simplify(idx)
                    lst.root_marked = v.as_long() if z3.is_int_value(v) else v
                    return None
                return _Method(set_)
            raise CheckerError(f'span .{name} after the traversal')
    for i, e in self.pending:
        if z3.is_true(z3.simplify(i == idx)):
            return e
    return _Marked()


SymSpanList.getitem = _spanlist_getitem
SymSpanList.root_marked = None


# ---------------------------------------------------------------------------- what the span records of a tree say (lemmas over the spec function, structural induction)
def jigg_lemmas(I, prop):
    """the sentence-level clauses of C15 as facts about span_rec(t, p, c, .), each by structural induction on t (base: leaf; steps: unary, binary):
       ids:      record j has id p + j                                  -> ids are unique, and consecutive trees of an n-best list (p' = p + nnodes) never collide
       refs:     child ids lie in (own id, p + nnodes), terminals in [c, c + nleaves), begin/end inside [c, c + nleaves] with begin < end
       and, by unfolding at one node: the child references are the ids of the children's own records, and the children's offsets tile the parent's"""
    from vc.engine import solve
    f = span_rec(I)
    p, c, j = z3.Int('p'), z3.Int('c'), z3.Int('j')
    g, ch, l, r, h = z3.Int('g'), z3.Const('ch', T), z3.Const('l', T), z3.Const('r', T), z3.Bool('h')

    def unfold(e):
        pp, cc, jj = z3.Int('p!u'), z3.Int('c!u'), z3.Int('j!u')
        return z3.ForAll([pp, cc, jj], f(e, pp, cc, jj) == _JG['body'](e, pp, cc, jj))

    def inst(e, p_, c_, j_):
        return f(e, p_, c_, j_) == _JG['body'](e, p_, c_, j_)

    def ids(t, p_, c_, j_):
        return z3.Implies(z3.And(j_ >= 0, j_ < nnodes(t)), SP.idn(f(t, p_, c_, j_)) == p_ + j_)

    def refs(t, p_, c_, j_):
        rec = f(t, p_, c_, j_)
        n, k = nnodes(t), nleaves(t)
        return z3.Implies(z3.And(j_ >= 0, j_ < n, c_ >= 0, p_ >= 0), z3.And(
            z3.Or(SP.child1(rec) == -1, z3.And(SP.child1(rec) > p_ + j_, SP.child1(rec) < p_ + n)),
            z3.Or(SP.child2(rec) == -1, z3.And(SP.child2(rec) > SP.child1(rec), SP.child1(rec) != -1, SP.child2(rec) < p_ + n)),
            z3.Or(SP.terminal(rec) == -1, z3.And(SP.terminal(rec) >= c_, SP.terminal(rec) < c_ + k)),
            (SP.terminal(rec) == -1) != (SP.child1(rec) == -1),
            SP.begin(rec) >= c_, SP.begin(rec) < SP.end(rec), SP.end(rec) <= c_ + k))
    size = lambda t: z3.And(nnodes(t) >= 1, nleaves(t) >= 1)
    recs = []
    for name, stmt in (('ids', ids), ('refs', refs)):
        leaf, un, bn = T.Leaf(g), T.Un(g, ch), T.Bin(g, l, r, h)
        # the induction hypothesis is used at the argument tuples the definition recurses with (the statement is for all p, c, j: instances are legitimate)
        items = [('lemma-base', stmt(leaf, p, c, j), [inst(leaf, p, c, j)]),
                 ('lemma-step[unary]', stmt(un, p, c, j), [inst(un, p, c, j), stmt(ch, p + 1, c, j - 1), size(ch)]),
                 ]
        defs = [nnodes(bn) == 1 + nnodes(l) + nnodes(r), nleaves(bn) == nleaves(l) + nleaves(r)]      # the definitions of nnodes / nleaves at the binary node
        # the binary step, split by where the j-th span lies: the node itself, the left subtree, the right subtree
        items.append(('lemma-step[binary,own]', stmt(bn, p, c, j), defs + [j == 0, inst(bn, p, c, j), size(l), size(r)]))
        items.append(('lemma-step[binary,left]', stmt(bn, p, c, j), defs + [j >= 1, j - 1 < nnodes(l), inst(bn, p, c, j), stmt(l, p + 1, c, j - 1), size(l), size(r)]))
        items.append(('lemma-step[binary,right]', stmt(bn, p, c, j), defs + [j - 1 >= nnodes(l), inst(bn, p, c, j), stmt(r, p + 1 + nnodes(l), c + nleaves(l), j - 1 - nnodes(l)), size(l), size(r)]))
        for kind, goal, hyp in items:
            v, b, ms, _ = solve(goal, hyp, timeout_ms=30000)
            recs.append(dict(name=f'{prop}/jigg-spans/{name}/{kind}', kind=kind.split('[')[0], verdict=v, backend=b, ms=ms, inputs=None,
                             detail={'ids': 'the j-th span of a tree has id p + j (unique ids, disjoint id ranges for consecutive trees)',
                                     'refs': 'child / terminal references and offsets of every span stay inside the id range, word range and offset range of the tree'}[name],
                             witness=dict(function='spec function span_rec')))
    # node-level facts by unfolding the definition at the records involved (no induction): references are the children's own records, offsets tile
    bn = T.Bin(g, l, r, h)
    own = f(bn, p, c, 0)
    pl, pr_, cr = p + 1, p + 1 + nnodes(l), c + nleaves(l)
    lrec, rrec = f(bn, p, c, 1), f(bn, p, c, 1 + nnodes(l))
    goal = z3.And(SP.child1(own) == SP.idn(lrec), SP.child2(own) == SP.idn(rrec), lrec == f(l, pl, c, 0), rrec == f(r, pr_, cr, 0),
                  SP.begin(lrec) == SP.begin(own), SP.end(lrec) == SP.begin(rrec), SP.end(rrec) == SP.end(own))
    own_facts = lambda t, p_, c_: z3.And(SP.begin(f(t, p_, c_, 0)) == c_, SP.end(f(t, p_, c_, 0)) == c_ + nleaves(t), SP.idn(f(t, p_, c_, 0)) == p_)     # lemma own-record (below)
    hyp = [inst(bn, p, c, 0), inst(bn, p, c, 1), inst(bn, p, c, 1 + nnodes(l)), size(l), size(r), own_facts(l, pl, c), own_facts(r, pr_, cr)]
    v, b, ms, _ = solve(goal, hyp, timeout_ms=30000)
    recs.append(dict(name=f'{prop}/jigg-spans/tiling/binary', kind='lemma', verdict=v, backend=b, ms=ms, inputs=None,
                     detail='the child references of a binary span are the ids of its children own spans, and the offsets of the children tile those of the parent', witness=dict(function='spec function span_rec')))
    for nm, t_ in (('leaf', T.Leaf(g)), ('unary', T.Un(g, ch)), ('binary', T.Bin(g, l, r, h))):
        v, b, ms, _ = solve(own_facts(t_, p, c), [inst(t_, p, c, 0)], timeout_ms=30000)
        recs.append(dict(name=f'{prop}/jigg-spans/own-record/{nm}', kind='lemma', verdict=v, backend=b, ms=ms, inputs=None,
                         detail='the own span of a node: id p, begin c, end c + nleaves', witness=dict(function='spec function span_rec')))
    un = T.Un(g, ch)
    v, b, ms, _ = solve(z3.And(SP.child1(f(un, p, c, 0)) == SP.idn(f(un, p, c, 1)), f(un, p, c, 1) == f(ch, p + 1, c, 0), SP.begin(f(ch, p + 1, c, 0)) == c, SP.end(f(ch, p + 1, c, 0)) == SP.end(f(un, p, c, 0))),
                        [inst(un, p, c, 0), inst(un, p, c, 1), size(ch), own_facts(ch, p + 1, c)], timeout_ms=30000)
    recs.append(dict(name=f'{prop}/jigg-spans/tiling/unary', kind='lemma', verdict=v, backend=b, ms=ms, inputs=None,
                     detail='the child reference of a unary span is the id of the own span of its child, which covers the same words', witness=dict(function='spec function span_rec')))
    # n-best: two consecutive process() calls on one converter use disjoint id ranges (process post: _spid' = _spid + nnodes; lemma ids)
    t1, t2, p0, j1, j2 = z3.Const('t1', T), z3.Const('t2', T), z3.Int('p0'), z3.Int('j1'), z3.Int('j2')
    v, b, ms, _ = solve(z3.Implies(z3.And(j1 >= 0, j1 < nnodes(t1), j2 >= 0, j2 < nnodes(t2)), SP.idn(f(t1, p0 + 1, 0, j1)) != SP.idn(f(t2, p0 + nnodes(t1) + 1, 0, j2))),
                        [ids(t1, p0 + 1, z3.IntVal(0), j1), ids(t2, p0 + nnodes(t1) + 1, z3.IntVal(0), j2)], timeout_ms=30000)
    recs.append(dict(name=f'{prop}/jigg-spans/nbest-ids-disjoint', kind='lemma', verdict=v, backend=b, ms=ms, inputs=None,
                     detail='the spans of the next tree of an n-best list (converter._spid advanced by nnodes) have ids different from all spans of the tree before', witness=dict(function='process contract + lemma ids')))
    return recs


def jigg_call_site(I, prop):
    """to_jigg_xml: one converter per sentence (the call _ConvertToJiggXML(...) sits directly in the sentence loop, not in a loop nested in it, and is the only
    assignment of its variable), and every .process(...) call on it happens in a loop nested in the sentence loop.  Stated over the loop nesting only:
    local names, unpacking style and the statements around the calls are free."""
    import ast
    from vc.pyvc import parse_source
    tree = parse_source(JREL)
    fn = [n for n in tree.body if isinstance(n, ast.FunctionDef) and n.name == 'to_jigg_xml']
    ok, why = False, 'to_jigg_xml not found'
    if fn:
        fn = fn[0]
        parents = {}
        for n in ast.walk(fn):
            for c in ast.iter_child_nodes(n):
                parents[id(c)] = n

        def loops_around(n):
            out = []
            while id(n) in parents:
                n = parents[id(n)]
                if isinstance(n, (ast.For, ast.While)):
                    out.append(n)
            return out            # innermost first
        ctor = [n for n in ast.walk(fn) if isinstance(n, ast.Call) and ast.unparse(n.func) == '_ConvertToJiggXML']
        why = 'the converter is not created by exactly one call _ConvertToJiggXML(...)'
        if len(ctor) == 1:
            asg = parents.get(id(ctor[0]))
            why = 'the converter is not bound to a plain variable'
            if isinstance(asg, ast.Assign) and len(asg.targets) == 1 and isinstance(asg.targets[0], ast.Name):
                name = asg.targets[0].id
                around = loops_around(asg)
                others = [n for n in ast.walk(fn) if isinstance(n, ast.Name) and n.id == name and isinstance(n.ctx, ast.Store) and n is not asg.targets[0]]
                calls = [n for n in ast.walk(fn) if isinstance(n, ast.Call) and isinstance(n.func, ast.Attribute) and n.func.attr == 'process'
                         and isinstance(n.func.value, ast.Name) and n.func.value.id == name]
                why = 'the converter is not created once per sentence (directly in the one loop over the sentences)'
                if len(around) == 1 and not others:
                    sentence_loop = around[0]
                    why = 'no tree is sent through converter.process in a loop nested in the sentence loop'
                    if calls and all(len(loops_around(c)) == 2 and loops_around(c)[1] is sentence_loop for c in calls):
                        ok, why = True, 'one converter per sentence; the trees of its n-best list go through converter.process in a loop nested in the sentence loop'
    return [dict(name=f'{prop}/{JREL}::to_jigg_xml/call-site[converter]', kind='call-site', verdict='discharged' if ok else 'failed', backend='ast', ms=0, inputs=None, detail=why,
                 witness=dict(function=f'{JREL}::to_jigg_xml'))]


# ---------------------------------------------------------------------------- replay of refuted / undecided obligations on the real code
REPLAY_KEYS = {'depccg/printer/conll.py::_resolve_dependencies': 'depccg/printer/conll.py::_resolve_dependencies',
               'depccg/printer/xml.py::_process_tree': 'depccg/printer/xml.py::_process_tree',
               'depccg/printer/jigg_xml.py::_ConvertToJiggXML.process': 'depccg/printer/jigg_xml.py::_ConvertToJiggXML.process',
               'depccg/printer/auto.py::auto_of': 'depccg/printer/auto.py::auto_of',
               'depccg/printer/my_json.py::json_of': 'depccg/printer/my_json.py::json_of',
               'depccg/tools/reader.py::_AutoLineReader': 'depccg/tools/reader.py::_AutoLineReader',
               'depccg/tools/ja/reader.py::_JaCCGLineReader': 'depccg/tools/ja/reader.py::_JaCCGLineReader',
               'depccg/printer/ja.py::ja_of': 'depccg/tools/ja/reader.py::_JaCCGLineReader'}


def replay_views(records):
    """records that are refuted or undecided get the result of bounded/view_replay.py for their function: a concrete failing tree turns them into violations
    with a replayed input; without one a refuted obligation stays a violation without input and an undecided one stays undecided"""
    import json
    import os
    from vc import engine
    open_ = [r for r in records if r['verdict'] in ('failed', 'unknown') and r.get('backend') != 'bounded']
    if not open_:
        return None
    script = open(os.path.join(engine.VERIF, 'bounded', 'view_replay.py')).read()
    rc, out, err = engine.run_real(script, timeout=600, env_extra=dict(VERIF_REPO=engine.REPO))
    try:
        d = json.loads(out.strip().splitlines()[-1])
    except Exception:
        return dict(error=err[-800:])
    for r in open_:
        for prefix, key in REPLAY_KEYS.items():
            if prefix in r['name'] and key in d['results']:
                rp = dict(d['results'][key])
                rp['how'] = 'bounded/view_replay.py: the real function against the python twin of the spec function; ' + d['rule']
                r['replay'] = rp
                if r['verdict'] == 'unknown':
                    r['detail'] = ((r.get('detail') or '') + ' [undecided by the solver; the contract is violated by the replayed input]').strip()
                    r['verdict'] = 'failed'
    return d


# ============================================================================ depccg/printer/my_json.py (C07: json)
_J = z3.Datatype('JsonView')
_J.declare('JLeaf', ('jtok', I_), ('jlcat', S_))
_J.declare('JN1', ('jtype1', S_), ('jcat1', S_), ('jkid', _J))
_J.declare('JN2', ('jtype2', S_), ('jcat2', S_), ('jkid1', _J), ('jkid2', _J))
J = _J.create()
_JS = {}


def enc_json(I):
    """leaf: the token's items plus cat;  inner node: {type: label, cat: text, children: [...]}"""
    if 'f' not in _JS:
        f = z3.RecFunction('tv_enc_json', T, J)
        cat = lambda g: I.w.str_spec(CAT_OF(I)(g))
        _JS['body'] = lambda t: z3.If(T.is_Leaf(t), J.JLeaf(T.ltag(t), cat(T.ltag(t))),
                                      z3.If(T.is_Un(t), J.JN1(OP_STRING(T.utag(t)), cat(T.utag(t)), f(T.child(t))),
                                            J.JN2(OP_STRING(T.btag(t)), cat(T.btag(t)), f(T.left(t)), f(T.right(t)))))
        z3.RecAddDefinition(f, [_t], _JS['body'](_t))
        _JS['f'] = f
    return _JS['f']


FULL_JSON = z3.Bool('json_full')


def JSON_CAT(I):
    return z3.Function('json_of_category', I.w.Cat, S_)       # the decomposed category of full=True, as an opaque value of the category


class JsonTerm:
    """rec(child) through its contract: stands for enc_json(child)"""
    def __init__(self, e):
        self.e = e


class TokenDict:
    """dict(node.token): a fresh dict holding the items of the token (opaque), open to further stores"""
    def __init__(self, tag_):
        self.tag, self.extra = tag_, {}

    def setitem(self, I, k, v, node):
        if not isinstance(k, str):
            raise CheckerError('store with a symbolic key into the leaf record')
        self.extra[k] = v


class JsonCategory(Contract):
    rel, qualname = 'depccg/printer/my_json.py', '_json_of_category'

    def apply(self, I, args, kwargs, node):
        return Z(JSON_CAT(I)(I.ex(args[0])))


class JsonRec(Contract):
    rel, role = 'depccg/printer/my_json.py', 'json_of.rec'

    def __init__(self):
        # nested in json_of (the flag `full` is a closure variable) or a module-level function json_of calls (the flag is its second parameter): found by role
        self.qualname = find_recursive_helper(self.rel, 'json_of', 'json_of.rec')
        self.nested = '.' in self.qualname

    def closure_env(self, I, f):
        m = I.load_module('depccg.printer.my_json')
        env = Env(m.env)
        env.set(f.node.name, f)
        self._env = env
        return env

    def _flag_args(self, I):
        f = I.find_function(self.rel, self.qualname)
        extra = len(f.node.args.args) - 1
        if extra not in (0, 1):
            raise CheckerError(f'{self.qualname}: expected (node) or (node, full)')
        return [False] * extra

    def cases(self, I):
        def build(I):
            t = z3.Const('node', T)
            self._t = t
            if self.nested:
                for name in closure_names(I, I.find_function(self.rel, self.qualname))[0]:
                    self._env.set(name, False)      # json_of(tree) as to_string calls it; the branch full=True raises AttributeError on every tree (Atom.features does not exist)
            m = I.load_module('depccg.printer.my_json')
            m.env.vars['dict'] = _Method(lambda I_, args, kwargs, node: TokenDict(args[0].tag) if len(args) == 1 and isinstance(args[0], SymToken) else dict(*args, **kwargs))
            I.ctx.assume(enc_json(I)(t) == _JS['body'](t))
            return [SymTree(t)] + self._flag_args(I), {}, [], None
        yield Case('any-node', build)

    def post(self, I, case, args, result):
        t = self._t

        def sval(v):
            return z3.StringVal(v) if isinstance(v, str) else v.e if isinstance(v, Z) else None
        term = None
        if isinstance(result, TokenDict):
            if set(result.extra) == {'cat'} and sval(result.extra['cat']) is not None:
                term = J.JLeaf(result.tag, sval(result.extra['cat']))
        elif isinstance(result, dict) and set(result) == {'type', 'cat', 'children'} and isinstance(result['children'], list) and all(isinstance(k, JsonTerm) for k in result['children']):
            kids = [k.e for k in result['children']]
            ty, ca = sval(result['type']), sval(result['cat'])
            if ty is not None and ca is not None and len(kids) in (1, 2):
                term = J.JN1(ty, ca, kids[0]) if len(kids) == 1 else J.JN2(ty, ca, kids[0], kids[1])
        if term is None:
            return [('record-shape', z3.BoolVal(False))]
        return [('record-shape', z3.BoolVal(True)), ('record', term == enc_json(I)(t))]

    def apply(self, I, args, kwargs, node):
        if len(args) not in (1, 2) or not isinstance(args[0], SymTree) or kwargs or (len(args) == 2 and args[1] is not False):
            raise CheckerError('the json helper is called with something other than (tree view[, full=False])')
        return JsonTerm(enc_json(I)(args[0].e))


# ---------------------------------------------------------------------------- xml_of: numbering of the ccg elements (C07)
NTREES = z3.Function('nbest_len', I_, I_)             # number of trees of sentence s
TREE_AT = z3.Function('nbest_tree', I_, I_, T)        # the j-th tree of sentence s


class SymNbest:
    """nbest_trees: a list of lists of (tree, score); iterated by the arbitrary-iteration rule (one sentence, one tree)"""
    def __init__(self, ns):
        self.ns = ns

    def enumerate(self, I, start, node):
        return _EnumLoop(lambda i: SymNbestOf(i), self.ns, start, 'sentence')


class SymNbestOf:
    def __init__(self, s):
        self.s = s

    def enumerate(self, I, start, node):
        s = self.s
        return _EnumLoop(lambda j: (SymTree(TREE_AT(s, j)), Z(z3.Real('score'))), NTREES(s), start, 'tree')


class _EnumLoop:
    """for index, x in enumerate(xs, start): one ARBITRARY position p (0 <= p < len); index = start + p.  Iterations run in order (contract of for / enumerate):
    what the body appends to a list lands in the order of the positions"""
    def __init__(self, elem, n, start, what):
        self.elem, self.n, self.start, self.what = elem, n, start, what

    def for_loop(self, I, st, env, module, qual):
        if st.orelse:
            raise CheckerError('for/else')
        p = I.fresh(self.what + '_position', I_)
        I.ctx.assume(z3.And(p >= 0, p < self.n))
        I.ctx.positions = dict(getattr(I.ctx, 'positions', {}))
        I.ctx.positions[self.what] = p
        I.assign(st.target, (Z(self.start + p) if not isinstance(self.start, int) or True else None, self.elem(p)), env, module)
        I.exec_block(st.body, env, module, qual)


class XmlOf(Contract):
    rel, qualname = XREL, 'xml_of'

    def cases(self, I):
        def build(I):
            ns = z3.Int('n_sentences')
            self._root = None
            orig = I.modules['lxml.etree'].Element

            def element(I_, args, kwargs, node):
                e = SymElem(args[0])
                if args[0] == 'candc':
                    self._root = e
                return e
            self._orig = orig
            I.modules['lxml.etree'].Element = _Method(element)
            return [SymNbest(ns)], {}, [ns >= 1], None
        yield Case('any-batch', build)

    def post(self, I, case, args, result):
        I.modules['lxml.etree'].Element = self._orig
        root = self._root
        pos = getattr(I.ctx, 'positions', {})
        if root is None or result is not root or 'sentence' not in pos or 'tree' not in pos or len(root.kids) != 1 or not isinstance(root.kids[0], SymElem):
            return [('shape', z3.BoolVal(False))]
        s, j = pos['sentence'], pos['tree']
        out = root.kids[0]
        a = out.attrs
        ok = set(a) == {'sentence', 'id'} and hasattr(a['sentence'], 'z') and hasattr(a['id'], 'z') and out.tagname == 'ccg' and len(out.kids) == 1
        if not ok:
            return [('shape', z3.BoolVal(False))]
        # the ccg element appended for the arbitrary (sentence s, tree j): numbered s + 1 / j + 1 and holding the encoding of exactly that tree
        return [('shape', z3.BoolVal(True)), ('numbering', z3.And(a['sentence'].z.e == s + 1, a['id'].z.e == j + 1)),
                ('content', out.kids[0] == enc_xml(I)(TREE_AT(s, j), 0) if z3.is_expr(out.kids[0]) else z3.BoolVal(False))]


class XmlProcessTreeAt(XmlProcessTree):
    """_process_tree at a call site: its proved contract (a <ccg> element with one child, the encoding of the tree with offsets from 0)"""
    def apply(self, I, args, kwargs, node):
        t = args[0]
        if not isinstance(t, SymTree):
            raise CheckerError('_process_tree called with something that is not a tree view')
        e = SymElem('ccg')
        e.kids.append(enc_xml(I)(t.e, 0))
        return e


# ============================================================================ depccg/tree.py: leaves / __len__ / tokens (the contracts the printers use: len(tree), tree.tokens)
class LeafList:
    """tree.leaves through its contract: the leaves of the view in order"""
    def __init__(self, t):
        self.t = t

    def length(self, I, node):
        return Z(nleaves(self.t))

    def for_loop(self, I, st, env, module, qual):
        """map loop over the leaves: the body runs once for an arbitrary leaf (leaf number i of the view, 0 <= i < nleaves); it must append the token of
        that leaf to one list that was empty before the loop, complete normally and assign nothing else: the list is then `the tokens of the leaves in order`."""
        import ast
        from vc.pyvc import _Break, _Continue, _Return
        if st.orelse:
            raise CheckerError('for/else over tree.leaves')
        i = I.fresh('leaf_i', I_)
        I.ctx.assume(z3.And(i >= 0, i < nleaves(self.t)))
        lt = leaf_tag(self.t, i)
        before = dict(env.vars)
        empties = {k: v for k, v in env.vars.items() if isinstance(v, list) and not v}
        I.assign(st.target, SymTree(T.Leaf(lt)), env, module)
        loopvars = {n.id for n in ast.walk(st.target) if isinstance(n, ast.Name)}
        try:
            I.exec_block(st.body, env, module, qual)
        except (_Break, _Continue, _Return):
            raise CheckerError('loop over tree.leaves left early: outside the map loop rule')
        changed = sorted(k for k in env.vars if k not in loopvars and (k not in before or env.vars[k] is not before[k]))
        if changed:
            raise CheckerError(f'loop over tree.leaves assigns {changed}: outside the map loop rule')
        filled = [k for k, v in empties.items() if v]
        if len(filled) != 1:
            raise CheckerError('loop over tree.leaves does not fill exactly one list that was empty before it')
        v = env.vars[filled[0]]
        if len(v) != 1 or not isinstance(v[0], SymToken):
            raise CheckerError('loop over tree.leaves appends something other than one token per leaf')
        I.oblige('tokens-of-the-leaves-in-order', v[0].tag == lt, st, extra='the element appended for leaf i is not the token of leaf i')
        for k in list(env.vars):
            if env.vars[k] is v:
                env.vars[k] = SymTokens(self.t)

    def comprehension(self, I, e, env, module):
        import ast
        g = e.generators[0]
        # recognised: [leaf.children[0] for leaf in self.leaves]  (the token of every leaf)
        if g.ifs or not isinstance(g.target, ast.Name) or ast.unparse(e.elt) != f'{g.target.id}.children[0]':
            raise CheckerError('comprehension over tree.leaves other than [leaf.children[0] for leaf in leaves]')
        return SymTokens(self.t)


def _append_value(I, v):
    if isinstance(v, SymTree):
        return tag(v.e)
    return I.ex(v)


def _symintlist_getattr(self, I, name, node):
    if name == 'count':
        def count(I, args, kwargs, node):
            v = I.ex(args[0])
            return FilteredCount(self, lambda idx: z3.Select(self.arr, idx) == v).length(I, node)
        return _Method(count)
    if name == 'append':
        def app(I, args, kwargs, node):
            self.arr = z3.Store(self.arr, self.n, _append_value(I, args[0]))
            self.n = self.n + 1
            return None
        return _Method(app)
    raise CheckerError(f'list.{name} on a symbolic list')


SymIntList.getattr = _symintlist_getattr
TREL = 'depccg/tree.py'


def leaves_clauses(arr0, n0, arr1, n1, t):
    i, j = z3.Int('i!lv'), z3.Int('j!lv')
    k = nleaves(t)
    return [('length', z3.And(k >= 1, n1 == n0 + k)),
            ('frame', z3.ForAll([j], z3.Implies(z3.And(j >= 0, j < n0), z3.Select(arr1, j) == z3.Select(arr0, j)))),
            ('leaves-in-order', z3.ForAll([i], z3.Implies(z3.And(i >= n0, i < n0 + k), z3.Select(arr1, i) == leaf_tag(t, i - n0))))]


def find_recursive_helper(rel, outer_name, default):
    """the recursive helper of an encoder, found by role: the one function `outer_name` calls (outside its nested defs) that calls itself - nested in the
    encoder or at module level.  Returns its qualified name; `default` when the encoder has no such helper (the contract then reports it as not found)."""
    import ast
    from vc.sorts import parse_source
    mod = parse_source(rel)
    outer = [n for n in mod.body if isinstance(n, ast.FunctionDef) and n.name == outer_name]
    if not outer:
        return default
    outer = outer[0]
    nested = {n.name: n for n in outer.body if isinstance(n, ast.FunctionDef)}
    toplevel = {n.name: n for n in mod.body if isinstance(n, ast.FunctionDef)}
    recursive = lambda fn: any(isinstance(n, ast.Call) and isinstance(n.func, ast.Name) and n.func.id == fn.name for n in ast.walk(fn))
    inside = {id(n) for fn in nested.values() for n in ast.walk(fn)}
    found = []
    for c in ast.walk(outer):
        if isinstance(c, ast.Call) and isinstance(c.func, ast.Name) and id(c) not in inside:
            if c.func.id in nested and recursive(nested[c.func.id]):
                found.append(f'{outer_name}.{c.func.id}')
            elif c.func.id in toplevel and c.func.id != outer_name and recursive(toplevel[c.func.id]):
                found.append(c.func.id)
    found = sorted(set(found))
    return found[0] if len(found) == 1 else default


class _SymSeg:
    """the one element of a concrete python list that stands for `all elements of a symbolic list` (a list object that a callee filled in place)"""
    def __init__(self, sym):
        self.sym = sym


def unwrap_list(v):
    if isinstance(v, list) and len(v) == 1 and isinstance(v[0], _SymSeg):
        return v[0].sym
    return v


def find_leaf_collector():
    """the recursive helper of Tree.leaves, found by role: the one function Tree.leaves calls that calls itself.  It is either nested in the property
    (the list is a closure variable) or a module-level function / static method taking the node and the list.  Returns (qualname, mode, tree_pos, list_pos)."""
    import ast
    from vc.sorts import parse_source
    mod = parse_source(TREL)
    cls = [n for n in mod.body if isinstance(n, ast.ClassDef) and n.name == 'Tree']
    if not cls:
        raise CheckerError('class Tree not found in depccg/tree.py')
    leaves = [n for n in cls[0].body if isinstance(n, ast.FunctionDef) and n.name == 'leaves']
    if not leaves:
        raise CheckerError('function under contract not found: depccg/tree.py::Tree.leaves')
    leaves = leaves[0]
    nested = {n.name: n for n in leaves.body if isinstance(n, ast.FunctionDef)}
    toplevel = {n.name: n for n in mod.body if isinstance(n, ast.FunctionDef)}
    self_name = leaves.args.args[0].arg
    calls = [n for n in ast.walk(leaves) if isinstance(n, ast.Call) and isinstance(n.func, ast.Name)]

    def recursive(fn):
        return any(isinstance(n, ast.Call) and isinstance(n.func, ast.Name) and n.func.id == fn.name for n in ast.walk(fn))
    found = []
    for c in calls:
        inside_nested = any(c in list(ast.walk(fn)) for fn in nested.values())
        if inside_nested:
            continue
        if c.func.id in nested and recursive(nested[c.func.id]):
            found.append((f'Tree.leaves.{c.func.id}', 'closure', 0, None))
        elif c.func.id in toplevel and recursive(toplevel[c.func.id]):
            pos = [k for k, a in enumerate(c.args) if isinstance(a, ast.Name) and a.id == self_name]
            if len(c.args) != 2 or c.keywords or len(pos) != 1:
                raise CheckerError(f'Tree.leaves calls its helper {c.func.id} with something other than (the tree, the list)')
            found.append((c.func.id, 'param', pos[0], 1 - pos[0]))
    if len(found) != 1:
        raise CheckerError(f'function under contract not found: the recursive leaf collector of depccg/tree.py::Tree.leaves ({len(found)} candidates)')
    return found[0]


class LeavesRec(Contract):
    rel = TREL

    def __init__(self):
        self.qualname, self.mode, self.tpos, self.lpos = find_leaf_collector()

    def closure_env(self, I, f):
        m = I.load_module('depccg.tree')
        env = Env(m.env)
        env.set(f.node.name, f)
        self._env = env
        self._list = the_one(closure_names(I, f)[0], 'the list of leaves', self.name)
        return env

    def cases(self, I):
        def build(I):
            t = z3.Const('node', T)
            arr, n = z3.Const('result0', z3.ArraySort(I_, I_)), z3.Int('len0')
            lst = SymIntList(arr, n)
            self._pre = (arr, n, t, lst)
            unfold_leaf_tag(I, t)
            if self.mode == 'closure':
                self._env.set(self._list, lst)
                return [SymTree(t)], {}, [n >= 0], None
            args = [None, None]
            args[self.tpos], args[self.lpos] = SymTree(t), lst
            return args, {}, [n >= 0], None
        yield Case('any-node', build)

    def post(self, I, case, args, result):
        arr0, n0, t, lst = self._pre
        return leaves_clauses(arr0, n0, lst.arr, lst.n, t)

    def apply(self, I, args, kwargs, node):
        f = I.callee
        if kwargs or len(args) != (1 if self.mode == 'closure' else 2) or not isinstance(args[self.tpos], SymTree):
            raise CheckerError('the leaf collector is called with something that is not a tree view')
        t = args[self.tpos].e
        if self.mode == 'closure':
            name = the_one(closure_names(I, f)[0], 'the list of leaves', self.name)
            lst = f.env.lookup(name)
            if isinstance(lst, list):
                if lst:
                    raise CheckerError('rec called with a non-empty concrete list')
                lst = SymIntList(z3.K(I_, z3.IntVal(0)), z3.IntVal(0))
                f.env.set(name, lst)
        else:
            lst = args[self.lpos]
            if isinstance(lst, list):
                # the caller's own list object, filled in place: it becomes [segment] (the caller's variable cannot be rebound from here)
                if not lst:
                    lst.append(_SymSeg(SymIntList(z3.K(I_, z3.IntVal(0)), z3.IntVal(0))))
                lst = unwrap_list(lst)
            if not isinstance(lst, SymIntList):
                raise CheckerError('the leaf collector is called with a list that is not empty and not symbolic')
        arr0, n0 = lst.arr, lst.n
        arr1 = I.fresh('result', z3.ArraySort(I_, I_))
        lst.arr, lst.n = arr1, n0 + nleaves(t)
        I.ctx.assume(z3.And([g for _, g in leaves_clauses(arr0, n0, arr1, lst.n, t)]))
        return None


class TreeLeaves(Contract):
    rel, qualname = TREL, 'Tree.leaves'

    def cases(self, I):
        def build(I):
            t = z3.Const('tree', T)
            self._t = t
            return [SymTree(t)], {}, [], None
        yield Case('any-tree', build)

    def post(self, I, case, args, result):
        t = self._t
        result = unwrap_list(result)
        if not isinstance(result, SymIntList):
            return [('list', z3.BoolVal(False))]
        i = z3.Int('i!tl')
        return [('length', result.n == nleaves(t)),
                ('leaves-in-order', z3.ForAll([i], z3.Implies(z3.And(i >= 0, i < nleaves(t)), z3.Select(result.arr, i) == leaf_tag(t, i))))]


class TreeLen(Contract):
    rel, qualname = TREL, 'Tree.__len__'

    def cases(self, I):
        def build(I):
            t = z3.Const('tree', T)
            self._t = t
            return [SymTree(t)], {}, [], None
        yield Case('any-tree', build)

    def post(self, I, case, args, result):
        return [('number-of-words', I.ex(result) == nleaves(self._t))]


class TreeTokens(Contract):
    rel, qualname = TREL, 'Tree.tokens'

    def cases(self, I):
        def build(I):
            t = z3.Const('tree', T)
            self._t = t
            return [SymTree(t)], {}, [], None
        yield Case('any-tree', build)

    def post(self, I, case, args, result):
        return [('tokens-of-the-leaves-in-order', z3.BoolVal(isinstance(result, SymTokens)) if not isinstance(result, SymTokens) else result.tree == self._t)]


_prev_tree_getattr = SymTree.getattr


def _tree_getattr2(self, I, name, node):
    if name == 'leaves':
        # inside the verification of Tree.leaves itself the real body runs; everywhere else the (proved) contract
        if I.target is not None and I.target.qualname == 'Tree.leaves' and I.depth <= 1:
            raise CheckerError('Tree.leaves reads self.leaves')
        return LeafList(self.e)
    return _prev_tree_getattr(self, I, name, node)


SymTree.getattr = _tree_getattr2


def tree_py_contracts():
    return [LeavesRec(), TreeLeaves(), TreeLen(), TreeTokens()]


def tree_py_records(I, prop):
    """obligations of the tree.py contracts the printers use (len(tree) = number of words; tree.tokens / tree.leaves in order)"""
    from vc.engine import verify_contract
    cs = tree_py_contracts()
    I.contracts[cs[0].name] = cs[0]
    recs = []
    for c in cs:
        r, _ = verify_contract(I, c, prop)
        for x in r:
            x['witness'] = dict(function=c.name)
        recs.extend(r)
    return recs
