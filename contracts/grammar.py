"""Contracts for depccg/grammar/{en,ja}.py (C03, C04, C14, C12-reader half).

Every function in a grammar's `combinators` list is verified against ONE generic postcondition:
    result is None  or  Justified(x, y, result)
where Justified is looked up in a schema table keyed by the (label, symbol) the result carries.  The schema
tables below are written from CCG theory and the statements of C03/C04, not from the code: they name their own
pattern pairs, result skeletons, side conditions and head direction.  Unification is used through its contract
(contracts/unification.py), never its body.
"""
import ast
import z3

from vc.engine import Contract, Case, Lemma
from vc.pyvc import Z, Obj, NTObj, PyRaise, Env, Foreign, is_native, FuncVal
from vc.sorts import CheckerError
from contracts import unification as uc
from contracts import cat as catc


# ------------------------------------------------------------------------------ canonical-text equality (INJ rule)
class CatText(Z):
    """str(cat): compared with a literal through injectivity of the printer on well-formed categories
    (corollary of C05: parse(str(c)) = c):  str(c) == L  <=>  L is the canonical text of P and c == P, P = parse(L)"""
    def __init__(self, I, cat):
        Z.__init__(self, I.w.str_spec(cat))
        self.cat = cat

    def py_eq_first(self, I, other, node):
        if isinstance(other, str):
            return I.wrap(inj_rule(I, self.cat, other, node))
        return None


_PARSED = {}


def parse_literal(I, text, node=None):
    """the value the real Category.parse gives for a literal (executed concretely), or None if it raises"""
    if text in _PARSED:
        return _PARSED[text]
    m = I.load_module('depccg.cat')
    cls = m.env.lookup('Category')
    f, _ = cls.lookup('parse')
    saved = (I.target, I.depth)
    try:
        v = I.inline(f, [cls, text], {}, node)
        r = v.e if isinstance(v, Z) and I.sort_name(v) == 'Cat' else None
    except PyRaise:
        r = None
    finally:
        I.target, I.depth = saved
    _PARSED[text] = r
    return r


def inj_rule(I, cat, text, node):
    if not isinstance(text, str):
        return None
    p = parse_literal(I, text, node)
    I.used_lib.add('INJ: str is injective on well-formed categories (C05), literal comparisons become value comparisons')
    if p is None:
        return z3.BoolVal(False)
    if I.w.canon_text(I.w.to_py(p)) != text:
        return z3.BoolVal(False)
    return cat == p


def install_inj():
    if inj_rule not in catc.STR_EQ_RULE:
        catc.STR_EQ_RULE.append(inj_rule)
    catc.CategoryStr.apply = lambda self, I, args, kwargs, node: CatText(I, args[0].e)


# ------------------------------------------------------------------------------ spec helpers
def lit(I, text):
    p = parse_literal(I, text)
    if p is None:
        raise CheckerError(f'schema literal {text} does not parse')
    return p


def is_modifier(w, c):
    return z3.And(w.recog('Functor')(c), w.acc('Functor', 'left')(c) == w.acc('Functor', 'right')(c))


def is_punct(w, c):
    import string
    b = w.acc('Atom', 'base')(c)
    first = z3.SubString(b, 0, 1)
    names = z3.Or(*[b == z3.StringVal(n) for n in ('LRB', 'RRB', 'LQU', 'RQU')])
    return z3.And(w.recog('Atom')(c), z3.Or(z3.Not(z3.Contains(z3.StringVal(string.ascii_letters), first)), names))


def feats_from(w, rcat, x, y, g):
    return z3.Implies(w.hasfeat(rcat, g), z3.Or(w.hasfeat(x, g), w.hasfeat(y, g)))


def INVM(w, M, x, y):
    return z3.Function('INVM', w.FeatMap, w.Cat, w.Cat, z3.BoolSort())(M, x, y)


def IDM(w, M):
    return z3.Function('IDM', w.FeatMap, z3.BoolSort())(M)


def idm_at(w, M, f):
    e = M[f]
    return z3.Or(z3.Not(w.OptFeat.is_SomeF(e)), w.OptFeat.f(e) == f)


def grammar_lemmas(w):
    FM = w.FeatMap
    out = dict(uc.uni_lemmas(w))
    out['subst_features_from_inputs'] = Lemma(
        'subst_features_from_inputs',
        lambda w, c, M, g, x, y: z3.Implies(INVM(w, M, x, y), z3.Implies(w.hasfeat(w.subst(c, M), g), z3.Or(w.hasfeat(c, g), w.hasfeat(x, g), w.hasfeat(y, g)))),
        params=[('M', FM), ('g', w.Feat), ('x', w.Cat), ('y', w.Cat)],
        def_hyps=lambda w, c, M, g, x, y: [z3.Implies(INVM(w, M, x, y), uc.inv_m(w, M, x, y)(w.acc('Atom', 'feature')(c)))])
    out['head_atom_is_atom'] = Lemma('head_atom_is_atom', lambda w, c: w.recog('Atom')(w.head_atom(c)))
    out['nargs_nonneg'] = Lemma('nargs_nonneg', lambda w, c: w.nargs(c) >= 0)
    out['subst_identity'] = Lemma(
        'subst_identity', lambda w, c, M: z3.Implies(IDM(w, M), w.subst(c, M) == c), params=[('M', FM)],
        def_hyps=lambda w, c, M: [z3.Implies(IDM(w, M), idm_at(w, M, w.acc('Atom', 'feature')(c)))])
    return out


class SchemaAlt:
    """one way a result with a given (label, symbol) can be justified"""
    def __init__(self, name, fn):
        self.name, self.fn = name, fn          # fn(I, x, y, rcat, g) -> z3 Bool (g: skolem feature for "features come from the inputs")


def uni_alt(name, px, py, skeleton, modifier, other, side=None):
    """schema through a pattern pair: the inputs match the patterns (contract of C06), a modifier returns the other input
    unchanged, otherwise the result has the schema's skeleton and only features of the inputs"""
    ppx, ppy = uc.pattern_of_text(px), uc.pattern_of_text(py)

    def fn(I, x, y, rcat, g):
        w = I.w
        m, binds, shared = uc.match_spec(w, ppx, ppy, x, y)
        mod = is_modifier(w, x if modifier == 'x' else y)
        oth = x if other == 'x' else y
        sk = skeleton(w, {v: w.strip(t) for v, t in binds.items()}, x, y)
        res = z3.If(mod, rcat == oth, z3.And(w.strip(rcat) == sk, feats_from(w, rcat, x, y, g)))
        conj = [m, res]
        if side is not None:
            conj.append(side(I, binds, x, y))
        return z3.And(*conj)
    return SchemaAlt(name, fn)


def F(w, l, s, r):
    return w.functor(l, s if z3.is_expr(s) else z3.StringVal(s), r)


def not_bare_n_np(var):
    def side(I, binds, x, y):
        w = I.w
        return z3.And(binds[var] != w.atom('N'), binds[var] != w.atom('NP'))
    return side


def en_schemas():
    SLx = lambda w, x: w.acc('Functor', 'slash')(x)
    t = {}
    t[('fa', '>')] = [uni_alt('X/Y Y => X', 'a/b', 'b', lambda w, b, x, y: b['a'], 'x', 'y')]
    t[('ba', '<')] = [uni_alt('Y X\\Y => X', 'b', 'a\\b', lambda w, b, x, y: b['a'], 'y', 'x')]
    t[('fc', '>B')] = [uni_alt('X/Y Y/Z => X/Z', 'a/b', 'b/c', lambda w, b, x, y: F(w, b['a'], '/', b['c']), 'x', 'y')]
    t[('bx', '<B')] = [uni_alt('Y/Z X\\Y => X/Z', 'b/c', 'a\\b', lambda w, b, x, y: F(w, b['a'], '/', b['c']), 'y', 'x', side=not_bare_n_np('b'))]
    t[('gfc', '>B')] = [uni_alt('X/Y (Y/Z)|W => (X/Z)|W', 'a/b', '(b/c)|d',
                                lambda w, b, x, y: F(w, F(w, b['a'], '/', b['c']), SLx(w, y), b['d']), 'x', 'y')]
    t[('gbx', '<B')] = [uni_alt('(Y/Z)|W X\\Y => (X/Z)|W', '(b/c)|d', 'a\\b',
                                lambda w, b, x, y: F(w, F(w, b['a'], '/', b['c']), SLx(w, x), b['d']), 'y', 'x', side=not_bare_n_np('b'))]

    def conj1(I, x, y, rcat, g):
        w = I.w
        return z3.And(z3.Or(x == w.atom(','), x == w.atom(';'), x == w.atom('conj')), rcat == F(w, y, '\\', y))

    def conj2(I, x, y, rcat, g):
        w = I.w
        return z3.And(x == w.atom('conj'), y == lit(I, 'NP\\NP'), rcat == y)
    t[('conj', '<Φ>')] = [SchemaAlt('conj Y => Y\\Y', conj1), SchemaAlt('conj NP\\NP => NP\\NP', conj2)]

    def lp1(I, x, y, rcat, g):
        return z3.And(is_punct(I.w, x), rcat == y)

    def lp2(I, x, y, rcat, g):
        w = I.w
        return z3.And(z3.Or(x == w.atom('LQU'), x == w.atom('LRB')), rcat == F(w, y, '\\', y))
    t[('lp', '<lp>')] = [SchemaAlt('punct Y => Y', lp1), SchemaAlt('LQU/LRB Y => Y\\Y', lp2)]
    t[('rp', '<rp>')] = [SchemaAlt('X punct => X', lambda I, x, y, rcat, g: z3.And(is_punct(I.w, y), rcat == x))]

    def tc1(I, x, y, rcat, g):
        w = I.w
        return z3.And(x == w.atom(','), z3.Or(y == lit(I, 'S[ng]\\NP'), y == lit(I, 'S[pss]\\NP')), rcat == lit(I, '(S\\NP)\\(S\\NP)'))

    def tc2(I, x, y, rcat, g):
        w = I.w
        return z3.And(x == w.atom(','), y == lit(I, 'S[dcl]/S[dcl]'), rcat == lit(I, '(S\\NP)/(S\\NP)'))
    t[('lp', '<*>')] = [SchemaAlt(', S[ng|pss]\\NP => (S\\NP)\\(S\\NP)', tc1), SchemaAlt(', S[dcl]/S[dcl] => (S\\NP)/(S\\NP)', tc2)]
    return t, True


def ja_schemas(I):
    w = I.w
    L = lambda c: w.acc('Functor', 'left')(c)
    SL = lambda c: w.acc('Functor', 'slash')(c)
    t = {}
    t[('fa', '>')] = [uni_alt('X/Y Y => X', 'a/b', 'b', lambda w, b, x, y: b['a'], 'x', 'y')]
    t[('ba', '<')] = [uni_alt('Y X\\Y => X', 'b', 'a\\b', lambda w, b, x, y: b['a'], 'y', 'x')]
    t[('fc', '>B')] = [uni_alt('X/Y Y/Z => X/Z', 'a/b', 'b/c', lambda w, b, x, y: F(w, b['a'], '/', b['c']), 'x', 'y')]
    t[('bx', '<B1')] = [uni_alt('Y\\Z X\\Y => X\\Z', 'b\\c', 'a\\b', lambda w, b, x, y: F(w, b['a'], '\\', b['c']), 'y', 'x')]
    t[('bx', '<B2')] = [uni_alt('(Y\\Z)|W X\\Y => (X\\Z)|W', '(b\\c)|d', 'a\\b',
                                lambda w, b, x, y: F(w, F(w, b['a'], '\\', b['c']), SL(x), b['d']), 'y', 'x')]
    t[('bx', '<B3')] = [uni_alt('((Y\\Z)|W)|V X\\Y => ((X\\Z)|W)|V', '((b\\c)|d)|e', 'a\\b',
                                lambda w, b, x, y: F(w, F(w, F(w, b['a'], '\\', b['c']), SL(L(x)), b['d']), SL(x), b['e']), 'y', 'x')]
    t[('bx', '<B4')] = [uni_alt('(((Y\\Z)|W)|V)|U X\\Y => (((X\\Z)|W)|V)|U', '(((b\\c)|d)|e)|f', 'a\\b',
                                lambda w, b, x, y: F(w, F(w, F(w, F(w, b['a'], '\\', b['c']), SL(L(L(x))), b['d']), SL(L(x)), b['e']), SL(x), b['f']),
                                'y', 'x')]
    # crossed composition keeps the slash of the secondary functor (the pattern's backslash)
    t[('fx', '>Bx1')] = [uni_alt('X/Y Y\\Z => X\\Z', 'a/b', 'b\\c', lambda w, b, x, y: F(w, b['a'], '\\', b['c']), 'x', 'y')]
    t[('fx', '>Bx2')] = [uni_alt('X/Y (Y\\Z)|W => (X\\Z)|W', 'a/b', '(b\\c)|d',
                                 lambda w, b, x, y: F(w, F(w, b['a'], '\\', b['c']), SL(y), b['d']), 'x', 'y')]
    t[('fx', '>Bx3')] = [uni_alt('X/Y ((Y\\Z)|W)|V => ((X\\Z)|W)|V', 'a/b', '((b\\c)|d)|e',
                                 lambda w, b, x, y: F(w, F(w, F(w, b['a'], '\\', b['c']), SL(L(y)), b['d']), SL(y), b['e']), 'x', 'y')]
    roots = root_categories(I)

    def sseq(I, x, y, rcat, g):
        return z3.And(z3.Or(*[x == r for r in roots]), z3.Or(*[y == r for r in roots]), rcat == y)
    t[('other', 'SSEQ')] = [SchemaAlt('sentence sequencing between root categories', sseq)]
    return t, False


def root_categories(I):
    m = I.load_module('depccg.grammar.ja')
    rs = m.env.lookup('_possible_root_categories')
    if not (isinstance(rs, list) and all(isinstance(r, Z) and I.sort_name(r) == 'Cat' for r in rs) and rs):
        raise CheckerError('_possible_root_categories is not a non-empty list of categories')
    return [r.e for r in rs]


# ------------------------------------------------------------------------------ the generic combinator contract
class Combinator(Contract):
    def __init__(self, rel, fname, lang):
        self.rel, self.qualname, self.lang = rel, fname, lang

    def schemas(self, I):
        return en_schemas() if self.lang == 'en' else ja_schemas(I)

    def cases(self, I):
        w = I.w

        def build(I):
            x, y = z3.Const('x', w.Cat), z3.Const('y', w.Cat)
            I.uni_maps = []
            I.unif_inputs = (x, y)
            return [Z(x), Z(y)], {}, [w.wf(x), w.wf(y)], dict(x=x, y=y)
        yield Case('sound', build)

    def lemma_hyps(self, I, x, y, g):
        """instances of the induction lemmas (proved in the same run) for the mappings / bindings of this path"""
        w = I.w
        lem = grammar_lemmas(w)
        hyps = []
        for M, ux, uy, terms in getattr(I, 'uni_maps', []):
            # definition of the opaque INVM at the absent feature: it is not a variable, hence not a key of the mapping
            hyps.append(z3.Implies(INVM(w, M, ux, uy), uc.inv_m(w, M, ux, uy)(w.none_feat())))
            for c in terms:
                hyps.append(lem['subst_keeps_skeleton'].stmt(w, c, M))
                hyps.append(lem['subst_features_from_inputs'].stmt(w, c, M, g, ux, uy))
        return hyps

    def post(self, I, case, args, result):
        w = I.w
        x, y = args[0].e, args[1].e
        if result is None:
            return z3.BoolVal(True)
        ok, rcat, label, head = decode_result(I, result)
        if not ok:
            return z3.BoolVal(False)
        table, head_left = self.schemas(I)
        alts = table.get(label)
        if alts is None:
            return z3.BoolVal(False)
        g = z3.Const('g_feat', w.Feat)
        just = z3.Or(*[a.fn(I, x, y, rcat, g) for a in alts])
        hyps = self.lemma_hyps(I, x, y, g)
        return z3.Implies(z3.And(*hyps) if hyps else z3.BoolVal(True), z3.And(just, z3.BoolVal(head is head_left)))

    def raises(self, I, case, args, exc):
        return None

    def apply(self, I, args, kwargs, node):
        raise CheckerError('combinators are only called through apply_binary_rules (opaque loop)')


def decode_result(I, result):
    if not (isinstance(result, NTObj) and result.cls.name == 'CombinatorResult'):
        return False, None, None, None
    a = result.attrs
    cat, ls, sym, head = a.get('cat'), a.get('op_string'), a.get('op_symbol'), a.get('head_is_left')
    if not (isinstance(cat, Z) and I.sort_name(cat) == 'Cat' and isinstance(ls, str) and isinstance(sym, str) and isinstance(head, bool)):
        return False, None, None, None
    return True, cat.e, (ls, sym), head


class Complete(Contract):
    """converse clause: a schema whose premises hold with identical matched parts yields its result"""
    def __init__(self, rel, fname, lang, name, shape, expect, label, extra=None):
        self.rel, self.qualname, self.lang = rel, fname, lang
        self.cname, self.shape, self.expect, self.label, self.extra = name, shape, expect, label, extra

    @property
    def name(self):
        return f'{self.rel}::{self.qualname}[complete:{self.cname}]'

    def cases(self, I):
        w = I.w

        def build(I):
            vs = {n: z3.Const(n, w.Cat) for n in 'ABCD'}
            ws = {n: z3.Const(n, z3.StringSort()) for n in ('W',)}
            x, y = self.shape(w, vs, ws)
            I.uni_maps = []
            I.unif_inputs = (x, y)
            assumes = [w.wf(x), w.wf(y)]
            # AC is reflexive (compat is reflexive: obligation spec::compat_reflexive of C06)
            assumes += [uc.AC(w, v, v) for v in vs.values()]
            if self.extra:
                assumes += self.extra(I, vs, ws)
            self._vs, self._ws = vs, ws
            inputs = dict(vs)
            inputs.update(ws)
            return [Z(x), Z(y)], {}, assumes, inputs
        yield Case('complete', build)

    def post(self, I, case, args, result):
        w = I.w
        ok, rcat, label, head = decode_result(I, result) if result is not None else (False, None, None, None)
        lem = grammar_lemmas(w)
        hyps = []
        for M, ux, uy, terms in getattr(I, 'uni_maps', []):
            for c in terms:
                hyps.append(lem['subst_identity'].stmt(w, c, M))
        if not ok:
            body = z3.BoolVal(False)        # the premises hold: returning no result must be impossible
        else:
            want = self.expect(w, self._vs, self._ws, args[0].e, args[1].e)
            body = z3.And(rcat == want, z3.BoolVal(label == self.label))
        return z3.Implies(z3.And(*hyps) if hyps else z3.BoolVal(True), body)


def en_completeness(rel='depccg/grammar/en.py'):
    Fz = lambda w, l, s, r: w.functor(l, z3.StringVal(s) if isinstance(s, str) else s, r)
    mod = lambda w, a, b, other, res: z3.If(a == b, other, res)

    def nb(I, vs, ws):       # side condition of the crossed rules: Y is not a bare N / NP
        w = I.w
        return [vs['B'] != w.atom('N'), vs['B'] != w.atom('NP')]

    def slashW(I, vs, ws):
        W = ws['W']
        return [z3.Or(W == z3.StringVal('/'), W == z3.StringVal('\\'), W == z3.StringVal('|'))]
    return [
        Complete(rel, 'forward_application', 'en', 'X/Y Y', lambda w, v, s: (Fz(w, v['A'], '/', v['B']), v['B']),
                 lambda w, v, s, x, y: mod(w, v['A'], v['B'], y, v['A']), ('fa', '>')),
        Complete(rel, 'backward_application', 'en', 'Y X\\Y', lambda w, v, s: (v['B'], Fz(w, v['A'], '\\', v['B'])),
                 lambda w, v, s, x, y: mod(w, v['A'], v['B'], x, v['A']), ('ba', '<')),
        Complete(rel, 'forward_composition', 'en', 'X/Y Y/Z', lambda w, v, s: (Fz(w, v['A'], '/', v['B']), Fz(w, v['B'], '/', v['C'])),
                 lambda w, v, s, x, y: mod(w, v['A'], v['B'], y, Fz(w, v['A'], '/', v['C'])), ('fc', '>B')),
        Complete(rel, 'backward_composition', 'en', 'Y/Z X\\Y', lambda w, v, s: (Fz(w, v['B'], '/', v['C']), Fz(w, v['A'], '\\', v['B'])),
                 lambda w, v, s, x, y: mod(w, v['A'], v['B'], x, Fz(w, v['A'], '/', v['C'])), ('bx', '<B'), extra=nb),
        Complete(rel, 'generalized_forward_composition', 'en', 'X/Y (Y/Z)|W',
                 lambda w, v, s: (Fz(w, v['A'], '/', v['B']), Fz(w, Fz(w, v['B'], '/', v['C']), s['W'], v['D'])),
                 lambda w, v, s, x, y: mod(w, v['A'], v['B'], y, Fz(w, Fz(w, v['A'], '/', v['C']), s['W'], v['D'])), ('gfc', '>B'), extra=slashW),
        Complete(rel, 'generalized_backward_composition', 'en', '(Y/Z)|W X\\Y',
                 lambda w, v, s: (Fz(w, Fz(w, v['B'], '/', v['C']), s['W'], v['D']), Fz(w, v['A'], '\\', v['B'])),
                 lambda w, v, s, x, y: mod(w, v['A'], v['B'], x, Fz(w, Fz(w, v['A'], '/', v['C']), s['W'], v['D'])), ('gbx', '<B'),
                 extra=lambda I, vs, ws: nb(I, vs, ws) + slashW(I, vs, ws)),
    ]


# ------------------------------------------------------------------------------ apply_binary_rules / apply_unary_rules
class OpaqueCombinator:
    """an arbitrary element of the `combinators` list: a pure function of its two arguments returning None or a result"""
    def __init__(self, log):
        self.log = log

    def call(self, I, args, kwargs, node):
        self.log.append((list(args), dict(kwargs)))
        isnone = I.fresh('comb_none', z3.BoolSort())
        if I.branch(isnone, node):
            return None
        r = Foreign()
        self.log.append(('result', r))
        return r


class CombinatorList:
    """the module-level list `combinators` during the verification of apply_binary_rules: iteration is replaced by the
    loop rule for `for c in L: r = c(*key); if r is not None: results.append(r)` (one arbitrary iteration)"""
    def __init__(self):
        self.iterations = []

    def for_loop(self, I, st, env, module, qual):
        log = []
        # state before an arbitrary iteration
        names = [n for n in env.vars if isinstance(env.vars[n], list)]
        before = {n: list(env.vars[n]) for n in names}
        I.assign(st.target, OpaqueCombinator(log), env, module)
        I.exec_block(st.body, env, module, qual)
        after = {n: list(env.vars[n]) for n in names if isinstance(env.vars.get(n), list)}
        self.iterations.append(dict(log=log, before=before, after=after))
        if st.orelse:
            raise CheckerError('for/else over combinators')


def _comb_comprehension(self, I, e, env, module):
    """[f(c) for c in combinators]: the element expression is evaluated once for an ARBITRARY element of the list (same rule as the for loop)"""
    import ast
    from vc.pyvc import Env as _Env
    g = e.generators[0]
    if g.ifs or not isinstance(g.target, ast.Name):
        raise CheckerError('comprehension over `combinators` with a filter or a pattern target')
    log = []
    sub = _Env(env)
    sub.set(g.target.id, OpaqueCombinator(log))
    v = I.eval(e.elt, sub, module)
    return MappedCombinators(self, v, log)


CombinatorList.comprehension = _comb_comprehension


class MappedCombinators:
    """the list [f(c) for c in combinators], known through its arbitrary element; filtering it gives the contribution of that element to the result"""
    def __init__(self, cl, value, log):
        self.cl, self.value, self.log = cl, value, log

    def comprehension(self, I, e, env, module):
        import ast
        from vc.pyvc import Env as _Env
        g = e.generators[0]
        if not isinstance(g.target, ast.Name) or not isinstance(e.elt, ast.Name) or e.elt.id != g.target.id:
            raise CheckerError('comprehension over the mapped combinators other than [r for r in xs if cond(r)]')
        sub = _Env(env)
        sub.set(g.target.id, self.value)
        keep = all(I.truth(I.eval(c, sub, module), c) for c in g.ifs)
        out = [self.value] if keep else []
        self.cl.iterations.append(dict(log=self.log, before={'$result': []}, after={'$result': list(out)}))
        return out

    def for_loop(self, I, st, env, module, qual):
        names = [n for n in env.vars if isinstance(env.vars[n], list)]
        before = {n: list(env.vars[n]) for n in names}
        I.assign(st.target, self.value, env, module)
        I.exec_block(st.body, env, module, qual)
        after = {n: list(env.vars[n]) for n in names if isinstance(env.vars.get(n), list)}
        self.cl.iterations.append(dict(log=self.log, before=before, after=after))
        if st.orelse:
            raise CheckerError('for/else over the mapped combinators')


class ApplyBinary(Contract):
    def __init__(self, rel, lang):
        self.rel, self.qualname, self.lang = rel, 'apply_binary_rules', lang

    def cases(self, I):
        w = I.w
        for mode in ('unrestricted', 'seen'):
            def build(I, mode=mode):
                x, y = z3.Const('x', w.Cat), z3.Const('y', w.Cat)
                f = I.target
                self._cl = CombinatorList()
                menv = f.module.env
                self._orig = menv.vars.get('combinators')
                if not (isinstance(self._orig, (list, CombinatorList))):
                    raise CheckerError('`combinators` is not a module-level list')
                if isinstance(self._orig, list):
                    self._orig_list = self._orig
                menv.vars['combinators'] = self._cl
                self._seen = SeenSet(w) if mode == 'seen' else None
                args = [Z(x), Z(y)] + ([self._seen] if mode == 'seen' else [])
                return args, {}, [w.wf(x), w.wf(y)], dict(x=x, y=y)
            yield Case(mode, build)

    def expected_key(self, w, x, y):
        if self.lang == 'en':
            nb = z3.SetAdd(z3.EmptySet(w.Feat), w.unary('nb'))
            return w.erase(x, nb), w.erase(y, nb)
        return x, y

    def expected_seen_key(self, w, x, y):
        if self.lang == 'en':
            s = z3.SetAdd(z3.SetAdd(z3.EmptySet(w.Feat), w.unary('X')), w.unary('nb'))
            return w.erase(x, s), w.erase(y, s)
        return x, y

    def post(self, I, case, args, result):
        w = I.w
        x, y = args[0].e, args[1].e
        if not isinstance(result, list):
            return z3.BoolVal(False)
        its = self._cl.iterations
        conj = []
        gate_open = True
        if case.name == 'seen':
            q = self._seen.queries
            if len(q) != 1:
                return z3.BoolVal(False)
            sk = self.expected_seen_key(w, x, y)
            conj.append(z3.And(q[0][0] == sk[0], q[0][1] == sk[1]))
            gate_open = q[0][2]
        if not gate_open:
            return z3.And(z3.BoolVal(len(result) == 0 and len(its) == 0), *conj)
        if len(its) != 1:
            return z3.BoolVal(False)
        it = its[0]
        calls = [e for e in it['log'] if e[0] != 'result']
        res = [e[1] for e in it['log'] if e[0] == 'result']
        if len(calls) != 1 or calls[0][1]:
            return z3.BoolVal(False)
        cargs = calls[0][0]
        k = self.expected_key(w, x, y)
        if len(cargs) != 2 or not all(isinstance(a, Z) and I.sort_name(a) == 'Cat' for a in cargs):
            return z3.BoolVal(False)
        conj.append(z3.And(cargs[0].e == k[0], cargs[1].e == k[1]))
        # the only list the loop may change is the returned one: unchanged on None, extended by exactly the result otherwise
        changed = [n for n in it['before'] if it['before'][n] != it['after'].get(n)]
        if res:
            ok = (len(changed) == 1 and it['after'][changed[0]] == it['before'][changed[0]] + res and result is not None
                  and it['before'][changed[0]] == [] and result == res)
        else:
            ok = (not changed and result == [])
        conj.append(z3.BoolVal(bool(ok)))
        return z3.And(*conj)


class SeenSet:
    """an arbitrary set of category pairs: membership is an uninterpreted predicate of the pair"""
    def __init__(self, w):
        self.w = w
        self.queries = []

    def contains(self, I, item, node):
        if not (isinstance(item, tuple) and len(item) == 2 and all(isinstance(a, Z) and I.sort_name(a) == 'Cat' for a in item)):
            raise CheckerError('seen_rules queried with something that is not a pair of categories')
        p = z3.Function('InSeen', self.w.Cat, self.w.Cat, z3.BoolSort())(item[0].e, item[1].e)
        d = I.branch(p, node)
        self.queries.append((item[0].e, item[1].e, d))
        return d

    def is_none(self, I):
        return False


# ------------------------------------------------------------------------------ unary rules
class UnaryTable:
    """an arbitrary Dict[Category, List[Category]]: membership is an uninterpreted predicate, the value a list of
    unknown length whose iteration is handled by the map-loop rule (one arbitrary element)"""
    def __init__(self, w):
        self.w = w
        self.queries = []
        self.lookups = []

    def contains(self, I, item, node):
        if not (isinstance(item, Z) and I.sort_name(item) == 'Cat'):
            raise CheckerError('unary_rules queried with a non-category')
        p = z3.Function('InUnary', self.w.Cat, z3.BoolSort())(item.e)
        d = I.branch(p, node)
        self.queries.append((item.e, d))
        return d

    def getitem(self, I, k, node):
        if not (isinstance(k, Z) and I.sort_name(k) == 'Cat'):
            raise CheckerError('unary_rules indexed with a non-category')
        known = [d for e, d in self.queries if e.eq(k.e)]
        if not known:
            # dict[k] without a preceding membership test: KeyError when absent
            if not I.branch(z3.Function('InUnary', self.w.Cat, z3.BoolSort())(k.e), node):
                # a table that is a collections.defaultdict (depccg/allennlp/utils.py builds one) is EXTENDED by this subscript instead of raising:
                # the caller's argument would change
                I.oblige('frame', z3.BoolVal(False), node, extra='unary_rules[x] is evaluated for a key that may be absent: a defaultdict table would be modified (arguments must stay unchanged)')
                raise PyRaise('KeyError', 'category not in unary_rules', node)
        elif known[-1] is False:
            raise PyRaise('KeyError', 'category not in unary_rules', node)
        t = TargetList(k.e)
        self.lookups.append(t)
        return t

    def getattr(self, I, name, node):
        if name == 'get':
            tbl = self

            class _Get:
                def call(self_, I2, args, kwargs, node2):
                    if tbl.contains(I2, args[0], node2):
                        return tbl.getitem(I2, args[0], node2)
                    return args[1] if len(args) > 1 else None
            return _Get()
        raise CheckerError(f'dict.{name} on the unary table is not modelled')


class TargetList:
    """unary_rules[x]: iterated by the map-loop rule"""
    def __init__(self, key):
        self.key = key
        self.iteration = None

    def for_loop(self, I, st, env, module, qual):
        if self.iteration is not None or st.orelse:
            raise CheckerError('the target list is iterated more than once / for-else')
        names = [n for n in env.vars if isinstance(env.vars[n], list)]
        before = {n: list(env.vars[n]) for n in names}
        e = z3.Const('target', I.w.Cat)
        I.assign(st.target, Z(e), env, module)
        I.exec_block(st.body, env, module, qual)
        after = {n: list(env.vars[n]) for n in names if isinstance(env.vars.get(n), list)}
        changed = [n for n in before if before[n] != after.get(n)]
        self.iteration = dict(elem=e, before=before, after=after, changed=changed)
        for n in changed:
            # the list now stands for  before ++ map(template, targets)
            env.vars[n] = MappedList(before[n], after[n][len(before[n]):], self, after[n][:len(before[n])] == before[n])


def _targets_comprehension(self, I, e, env, module):
    """[template(t) for t in unary_rules[x]]: the comprehension form of the map loop"""
    from vc.pyvc import Env
    if self.iteration is not None or len(e.generators) != 1 or e.generators[0].ifs or not isinstance(e, ast.ListComp):
        raise CheckerError('the target list is iterated more than once / by a filtering or nested comprehension')
    elem = z3.Const('target', I.w.Cat)
    cenv = Env(env)
    I.assign(e.generators[0].target, Z(elem), cenv, module)
    v = I.eval(e.elt, cenv, module)
    self.iteration = dict(elem=elem, before={}, after={}, changed=[])
    return MappedList([], [v], self, True)


TargetList.comprehension = _targets_comprehension


class MappedList(list):
    def __init__(self, prefix, appended, targets, wellformed):
        list.__init__(self)
        self.prefix, self.appended, self.targets, self.wellformed = prefix, appended, targets, wellformed


class ApplyUnary(Contract):
    def __init__(self, rel, lang):
        self.rel, self.qualname, self.lang = rel, 'apply_unary_rules', lang

    def cases(self, I):
        w = I.w

        def build(I):
            x = z3.Const('x', w.Cat)
            self._tbl = UnaryTable(w)
            assumes = [w.wf(x), w.recog('Atom')(w.head_atom(x)), w.nargs(x) >= 0]     # lemmas head_atom_is_atom, nargs_nonneg
            if self.lang == 'ja':
                assumes.append(w.recog('TernaryFeature')(w.acc('Atom', 'feature')(head_atom_term(w, x))))
            return [Z(x), self._tbl], {}, assumes, dict(x=x)
        yield Case('any-table', build)

    def post(self, I, case, args, result):
        w = I.w
        x = args[0].e
        tbl = self._tbl
        member = [d for e, d in tbl.queries if e.eq(x)]
        if not tbl.lookups:
            # nothing for categories that are not in the table
            return z3.BoolVal(isinstance(result, list) and not isinstance(result, MappedList) and len(result) == 0 and (not member or member[-1] is False))
        if not (isinstance(result, MappedList) and len(tbl.lookups) == 1 and tbl.lookups[0].key.eq(x)):
            return z3.BoolVal(False)
        if not (result.wellformed and result.prefix == [] and len(result.appended) == 1 and result.targets is tbl.lookups[0]):
            return z3.BoolVal(False)
        ok, rcat, label, head = decode_result(I, result.appended[0])
        if not ok:
            return z3.BoolVal(False)
        e = tbl.lookups[0].iteration['elem']
        conj = [rcat == e]          # exactly the configured targets, in order (map over the list)
        if self.lang == 'ja':
            conj.append(ja_unary_label(w, x, label))
        return z3.And(*conj)


def head_atom_term(w, x):
    """x.arg(0): the innermost result category (leftmost atom of the functor spine)"""
    return w.head_atom(x)


def ja_unary_label(w, x, label):
    """statement of C04: the label is determined by the mod value of the first-argument feature and the number of missing
    arguments: adn: 0 -> ADNext, 1 -> ADNint; adv: 0/1/2 -> ADV0/ADV1/ADV2 (larger arities are left unspecified);
    the two label fields coincide"""
    T = 'TernaryFeature'
    f = w.acc('Atom', 'feature')(head_atom_term(w, x))
    def has(k, v):
        return z3.Or(*[z3.And(w.acc(T, f'kv{i}_0')(f) == z3.StringVal(k), w.acc(T, f'kv{i}_1')(f) == z3.StringVal(v)) for i in (1, 2, 3)])
    n = w.nargs(x)
    adn, adv = has('mod', 'adn'), z3.And(z3.Not(has('mod', 'adn')), has('mod', 'adv'))
    ls, sym = label
    want = lambda name: z3.BoolVal(ls == name and sym == name)
    return z3.And(z3.BoolVal(ls == sym),
                  z3.Implies(z3.And(adn, n == 0), want('ADNext')), z3.Implies(z3.And(adn, n == 1), want('ADNint')),
                  z3.Implies(z3.And(adv, n == 0), want('ADV0')), z3.Implies(z3.And(adv, n == 1), want('ADV1')),
                  z3.Implies(z3.And(adv, n == 2), want('ADV2')))


def ja_completeness():
    return []


# ------------------------------------------------------------------------------ guess_combinator_by_triplet (C12, reader half)
class RuleList:
    """binary_rules(x, y): a list of unknown length of CombinatorResult records; iteration by the find-first loop rule"""
    def __init__(self, I):
        self.I = I
        self.mode = None
        self.target = None

    def for_loop(self, I, st, env, module, qual):
        """find-first loop rule.  The loop is left in one of three ways: (a) no iteration left it early (every element was visited by an iteration that
        completed normally; the else block runs), (b) the iteration over an arbitrary element returns or breaks (the code after the loop runs with
        what this iteration assigned), (c) the iteration over an arbitrary element completes normally - allowed only if the element does not derive
        the target and the iteration assigned nothing but the loop variable (otherwise the state an arbitrary iteration starts from would not be the
        state before the loop)."""
        from vc.pyvc import PathDone, _Return, _Break, _Continue
        w = I.w
        target = self.target
        if I.branch(I.fresh('loop_exit', z3.BoolSort()), st):
            self.mode = 'exit'
            I.exec_block(st.orelse, env, module, qual)
            return
        m = I.load_module('depccg.types')
        cls = m.env.lookup('CombinatorResult')
        elem = NTObj(cls)
        elem.attrs = dict(cat=Z(z3.Const('rule_cat', w.Cat)), op_string=Z(z3.Const('rule_op_string', z3.StringSort())),
                          op_symbol=Z(z3.Const('rule_op_symbol', z3.StringSort())), head_is_left=Z(z3.Const('rule_head', z3.BoolSort())))
        self.elem = elem
        before = dict(env.vars)
        I.assign(st.target, elem, env, module)
        loopvars = {n.id for n in ast.walk(st.target) if isinstance(n, ast.Name)}
        try:
            I.exec_block(st.body, env, module, qual)
        except _Return:
            self.mode = 'match'
            raise
        except _Break:
            self.mode = 'match'
            return
        except _Continue:
            pass
        # the iteration completed without leaving the loop: allowed only if this element does not derive the target
        I.oblige('loop-first-match', elem.attrs['cat'].e != target.e, st,
                 extra='an iteration over a rule whose category equals the target must leave the loop with that rule (otherwise a derivable node is labelled unknown)')
        changed = sorted(k for k in env.vars if k not in loopvars and (k not in before or env.vars[k] is not before[k]))
        if changed:
            I.oblige('loop-frame', z3.BoolVal(False), st, extra=f'an iteration that does not leave the loop assigns {changed}: outside the find-first loop rule')
        raise PathDone()


class OpaqueRules:
    def __init__(self):
        self.calls = []

    def call(self, I, args, kwargs, node):
        self.calls.append((args, kwargs))
        self.result = RuleList(I)
        self.result.target = self.target
        return self.result


class GuessCombinator(Contract):
    rel, qualname = 'depccg/grammar/__init__.py', 'guess_combinator_by_triplet'

    def cases(self, I):
        w = I.w

        def build(I):
            t, x, y = z3.Const('target', w.Cat), z3.Const('x', w.Cat), z3.Const('y', w.Cat)
            self._rules = OpaqueRules()
            self._rules.target = Z(t)
            return [self._rules, Z(t), Z(x), Z(y)], {}, [], dict(target=t, x=x, y=y)
        yield Case('any-rules', build)

    def post(self, I, case, args, result):
        rl = getattr(self._rules, 'result', None)
        calls = self._rules.calls
        if rl is None or len(calls) != 1 or calls[0][1] or len(calls[0][0]) != 2 or calls[0][0][0] is not args[2] or calls[0][0][1] is not args[3]:
            return z3.BoolVal(False)        # the grammar must be applied exactly once, to (x, y)
        if rl.mode == 'match':
            # left from inside the loop: the result is the very rule being visited, and it derives the target
            return z3.And(z3.BoolVal(result is rl.elem), rl.elem.attrs['cat'].e == args[1].e)
        if rl.mode != 'exit':
            return z3.BoolVal(False)
        ok, rcat, label, head = decode_result(I, result)
        if not ok:
            return z3.BoolVal(False)
        return z3.And(rcat == args[1].e, z3.BoolVal(label == ('unk', '<unk>') and head is True))


def call_site_obligations():
    """data flow at the call sites of guess_combinator_by_triplet (decided on the ast): the grammar is queried with (cat, left.cat, right.cat), and the
    node is built with Tree.make_binary(cat, left, right, rule.op_string, rule.op_symbol, <head>) where <head> is rule.head_is_left unless the file
    format carries its own head flag (AUTO).  Three-valued: `failed` only for a recognised flow that is wrong (label and symbol exchanged, a literal label,
    a constant or dropped head flag, children exchanged); a shape this reading does not recognise (the call moved into a helper, aliases, several
    make_binary calls) is `unknown` - undecided, never a violation.  Returns (rel, qual, line, verdict, why)."""
    from vc.sorts import parse_source
    sites = [('depccg/tools/reader.py', '_AutoLineReader.parse_tree', 'file'), ('depccg/tools/reader.py', 'read_xml', 'rule'),
             ('depccg/tools/reader.py', 'read_jigg_xml', 'rule'), ('depccg/tools/reader.py', '_parse_ptb', 'rule'), ('depccg/tree.py', 'Tree.of_nltk_tree', 'rule')]
    out = []
    sig = make_binary_signature()
    for rel, qual, head_src in sites:
        tree = parse_source(rel)
        fn = _find_def(tree, qual.split('.'))
        if fn is None:
            out.append((rel, qual, 0, 'unknown', 'function not found (renamed or moved): not recognised'))
            continue
        found = False
        for scope in [n for n in ast.walk(fn) if isinstance(n, ast.FunctionDef)]:
            for n in ast.walk(scope):
                if not (isinstance(n, ast.Assign) and isinstance(n.value, ast.Call) and _callee(n.value) == 'guess_combinator_by_triplet' and isinstance(n.targets[0], ast.Name)):
                    continue
                if any(n in ast.walk(inner) for inner in ast.walk(scope) if isinstance(inner, ast.FunctionDef) and inner is not scope):
                    continue          # belongs to a nested function: reported there
                var, call = n.targets[0].id, n.value
                found = True
                bad, unk = [], []
                args = call.args
                ok_q = (len(args) == 4 and not call.keywords and isinstance(args[1], ast.Name) and
                        all(isinstance(a, ast.Attribute) and a.attr == 'cat' and isinstance(a.value, ast.Name) for a in args[2:]))
                if not ok_q:
                    unk.append('the grammar query is not of the form (rules, cat, left.cat, right.cat)')
                mb = [c for c in ast.walk(scope) if isinstance(c, ast.Call) and _callee(c) == 'make_binary']
                if len(mb) != 1:
                    unk.append(f'{len(mb)} make_binary calls in scope')
                else:
                    c = mb[0]
                    names = dict(zip(sig['all'], c.args))
                    for kw in c.keywords:
                        if kw.arg is None or kw.arg in names or kw.arg not in sig['all']:
                            unk.append('make_binary called with **kwargs / duplicate / unknown keyword')
                        else:
                            names[kw.arg] = kw.value
                    if len(c.args) > len(sig['all']) or any(r not in names for r in sig['required']):
                        unk.append(f'make_binary call does not fit the signature {sig["all"]}')

                    def of_rule(e):
                        return e.attr if isinstance(e, ast.Attribute) and isinstance(e.value, ast.Name) and e.value.id == var else None

                    def label(arg, want):
                        e = names.get(arg)
                        if e is None:
                            return
                        if of_rule(e) == want:
                            return
                        if of_rule(e) is not None:
                            bad.append(f'{arg} is rule.{of_rule(e)}, not rule.{want}')
                        elif isinstance(e, ast.Constant):
                            bad.append(f'{arg} is the literal {e.value!r}, not rule.{want}')
                        else:
                            unk.append(f'{arg} is `{ast.unparse(e)}`: not recognised as rule.{want}')
                    label('op_string', 'op_string')
                    label('op_symbol', 'op_symbol')
                    if ok_q:
                        cat, l, r = names.get('cat'), names.get('left'), names.get('right')
                        if not (isinstance(cat, ast.Name) and cat.id == args[1].id):
                            unk.append('node category is not (recognisably) the queried category')
                        ql, qr = args[2].value.id, args[3].value.id
                        if isinstance(l, ast.Name) and isinstance(r, ast.Name) and (l.id, r.id) == (qr, ql) and ql != qr:
                            bad.append('children are exchanged with respect to the grammar query')
                        elif not (isinstance(l, ast.Name) and isinstance(r, ast.Name) and (l.id, r.id) == (ql, qr)):
                            unk.append('children are not (recognisably) the queried (left, right)')
                    h = names.get('head_is_left')
                    if head_src == 'rule':
                        if h is None:
                            bad.append('head direction of the rule is dropped (make_binary defaults to head_is_left=True)')
                        elif of_rule(h) == 'head_is_left':
                            pass
                        elif of_rule(h) is not None or isinstance(h, ast.Constant):
                            bad.append(f'head direction is `{ast.unparse(h)}`, not rule.head_is_left')
                        else:
                            unk.append(f'head direction is `{ast.unparse(h)}`: not recognised as rule.head_is_left')
                    else:
                        if h is None or isinstance(h, ast.Constant) or of_rule(h) is not None:
                            bad.append('head direction is not the flag read from the file (the format records its own head)')
                        elif not isinstance(h, ast.Name):
                            unk.append(f'head direction is `{ast.unparse(h)}`: not recognised as the flag read from the file')
                out.append((rel, qual, n.lineno, 'failed' if bad else ('unknown' if unk else 'discharged'), '; '.join(bad + unk)))
        if not found:
            out.append((rel, qual, 0, 'unknown', 'no call of guess_combinator_by_triplet in this function (moved into a helper?): not recognised'))
    return out


def _callee(c):
    f = c.func
    return f.id if isinstance(f, ast.Name) else (f.attr if isinstance(f, ast.Attribute) else None)


def _find_def(tree, parts):
    cur = tree
    for p in parts:
        nxt = None
        for n in ast.walk(cur):
            if isinstance(n, (ast.FunctionDef, ast.ClassDef)) and n.name == p and n is not cur:
                nxt = n
                break
        if nxt is None:
            return None
        cur = nxt
    return cur


def make_binary_signature():
    from vc.sorts import parse_source
    tree = parse_source('depccg/tree.py')
    fn = _find_def(tree, ['Tree', 'make_binary'])
    if fn is None:
        raise CheckerError('Tree.make_binary not found')
    names = [a.arg for a in fn.args.args]
    nd = len(fn.args.defaults)
    return dict(all=names, required=names[:len(names) - nd])
