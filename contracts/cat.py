"""Contracts for depccg/cat.py (C13, C05; used as callee contracts everywhere else).

Virtual contracts state what a call `x.m(...)` means for a receiver of unknown constructor;
every implementation (Atom.m, Functor.m, UnaryFeature.m, TernaryFeature.m) is verified against it.
"""
import z3
from vc.engine import Contract, Case
from vc.pyvc import Z, Foreign, VarArgs, PyRaise, is_native
from vc.sorts import CheckerError


def tern_parse():
    return z3.Function('tern_parse', z3.StringSort(), _W.Feat)


_W = None


def bind_world(w):
    global _W
    _W = w


def feat_parse_spec(w, text):
    """spec of Feature.parse on a symbolic text: unary unless the text has both '=' and ','.
    The three-part branch is an uninterpreted function of the text (str.split is not modelled)."""
    t = text
    return z3.If(z3.And(z3.Contains(t, z3.StringVal('=')), z3.Contains(t, z3.StringVal(','))),
                 z3.Function('tern_parse', z3.StringSort(), w.Feat)(t), w.unary(t))


def as_bool(I, v):
    if isinstance(v, bool):
        return z3.BoolVal(v)
    if isinstance(v, Z) and I.sort_name(v) == 'Bool':
        return v.e
    return None


def eq_val(I, result, spec):
    """z3 Bool: the value `result` computed by the code is the spec term `spec`"""
    if spec.sort() == z3.BoolSort():
        b = as_bool(I, result)
        return z3.BoolVal(False) if b is None else b == spec
    if isinstance(result, Z) and result.e.sort() == spec.sort():
        return result.e == spec
    if isinstance(result, Z) and I.sort_name(result) == 'OptStr' and spec.sort() == z3.StringSort():
        return result.e == I.w.OptStr.SomeS(spec)
    if isinstance(result, str) and spec.sort() == z3.StringSort():
        return z3.StringVal(result) == spec
    if isinstance(result, int) and not isinstance(result, bool) and spec.sort() == z3.IntSort():
        return z3.IntVal(result) == spec
    return z3.BoolVal(False)


class Virtual(Contract):
    """contract of x.method(...) for x of sort `base` (Category / Feature), whatever its class"""
    base = None
    method = None
    rel = 'depccg/cat.py'

    @property
    def virtual(self):
        return (self.base, self.method)

    @property
    def qualname(self):
        return f'{self.base}.{self.method}'

    def spec(self, I, recv, args, node):
        raise NotImplementedError

    def apply(self, I, args, kwargs, node):
        if kwargs:
            raise CheckerError(f'{self.name}: keyword arguments at a call under contract')
        v = self.spec(I, args[0], args[1:], node)
        return I.wrap(v) if z3.is_expr(v) else v


class Impl(Contract):
    """one implementation of a virtual contract, verified for receivers of its own class"""
    rel = 'depccg/cat.py'
    ctor = None
    virt = None
    other_kinds = ()

    def __init__(self, virt, ctor, qualname, other_kinds=(None,)):
        self.virt, self.ctor, self.qualname, self.other_kinds = virt, ctor, qualname, other_kinds

    def mk_self(self, I):
        w = I.w
        s = z3.Const('self', w.sort_of_ctor(self.ctor))
        return s, [w.recog(self.ctor)(s)]

    def cases(self, I):
        w = I.w
        for kind in self.other_kinds:
            def build(I, kind=kind):
                s, assumes = self.mk_self(I)
                inputs = {'self': s}
                if kind is None:
                    return [Z(s)], {}, assumes, inputs
                if kind == 'cat':
                    o = z3.Const('other', w.Cat)
                elif kind == 'feat':
                    o = z3.Const('other', w.Feat)
                elif kind == 'str':
                    o = z3.Const('other', z3.StringSort())
                elif kind == 'foreign':
                    return [Z(s), Foreign()], {}, assumes, inputs
                elif kind == 'none':
                    return [Z(s), None], {}, assumes, inputs
                elif kind == 'varargs':
                    n = z3.Const('N', w.FeatSet)
                    inputs['N'] = n
                    return [Z(s), VarArgs(n)], {}, assumes, inputs
                elif kind == 'int':
                    o = z3.Const('index', z3.IntSort())
                inputs['other'] = o
                return [Z(s), Z(o)], {}, assumes, inputs
            yield Case(kind or 'self', build)

    def post(self, I, case, args, result):
        sp = self.virt.spec(I, args[0], args[1:], None)
        if z3.is_expr(sp):
            return eq_val(I, result, sp)
        if sp is None:
            return z3.BoolVal(result is None)
        if isinstance(sp, bool):
            b = as_bool(I, result)
            return z3.BoolVal(False) if b is None else b == z3.BoolVal(sp)
        raise CheckerError('spec value kind')

    def raises(self, I, case, args, exc):
        return self.virt.raises(I, case, args, exc)


# ----------------------------------------------------------------------------- Feature
class FeatureEq(Virtual):
    base, method = 'Feature', '__eq__'

    def spec(self, I, recv, args, node):
        w = I.w
        o = args[0]
        if isinstance(o, Z) and I.sort_name(o) == 'Feat':
            return recv.e == o.e
        if isinstance(o, str):
            return recv.e == concrete_feat_parse(I, o, node)
        if isinstance(o, Z) and I.sort_name(o) == 'String':
            return recv.e == feat_parse_spec(w, o.e)
        return z3.BoolVal(False)


def concrete_feat_parse(I, text, node):
    """Feature.parse on a literal: the real code is run on it"""
    m = I.load_module('depccg.cat')
    cls = m.env.lookup('Feature')
    f, _ = cls.lookup('parse')
    v = I.inline(f, [cls, text], {}, node)
    if not (isinstance(v, Z) and I.sort_name(v) == 'Feat'):
        raise CheckerError(f'Feature.parse({text!r}) did not give a feature')
    return v.e


class FeatureStr(Virtual):
    base, method = 'Feature', '__str__'

    def spec(self, I, recv, args, node):
        return I.w.feat_text(recv.e)


class FeatureParse(Contract):
    rel, qualname = 'depccg/cat.py', 'Feature.parse'
    assumptions = ('Feature.parse: the three-part branch (text with both "=" and ",") is an uninterpreted function of the text; '
                   'str.split is not modelled (covered by the bounded CPython differential of C05)',)

    def cases(self, I):
        def build(I):
            t = z3.Const('text', z3.StringSort())
            cls = I.load_module('depccg.cat').env.lookup('Feature')
            # only the unary branch is verified deductively
            return [cls, Z(t)], {}, [z3.Not(z3.And(z3.Contains(t, z3.StringVal('=')), z3.Contains(t, z3.StringVal(','))))], {'text': t}
        yield Case('unary-text', build)

    def post(self, I, case, args, result):
        return eq_val(I, result, feat_parse_spec(I.w, args[1].e))

    def apply(self, I, args, kwargs, node):
        t = args[-1]
        if isinstance(t, str):
            return I.wrap(concrete_feat_parse(I, t, node))
        if isinstance(t, Z) and I.sort_name(t) == 'String':
            return I.wrap(feat_parse_spec(I.w, t.e))
        raise PyRaise('TypeError', 'Feature.parse of a non-string', node)


# ----------------------------------------------------------------------------- Category
class CategoryEq(Virtual):
    base, method = 'Category', '__eq__'

    def spec(self, I, recv, args, node):
        o = args[0]
        if isinstance(o, Z) and I.sort_name(o) == 'Cat':
            return recv.e == o.e
        if isinstance(o, (str, Z)) and I._strish(o):
            return str_eq(I, recv.e, o, node)
        return z3.BoolVal(False)


# hook: other properties install the injectivity rule (str(x) == literal  <=>  x == parse(literal)) here
STR_EQ_RULE = []


def str_eq(I, cat, text, node):
    for rule in STR_EQ_RULE:
        r = rule(I, cat, text, node)
        if r is not None:
            return r
    return I.w.str_spec(cat) == I.ex(text)


class CategoryStr(Virtual):
    base, method = 'Category', '__str__'

    def spec(self, I, recv, args, node):
        return I.w.str_spec(recv.e)


class CategoryXor(Virtual):
    base, method = 'Category', '__xor__'

    def spec(self, I, recv, args, node):
        o = args[0]
        if isinstance(o, Z) and I.sort_name(o) == 'Cat':
            return I.w.strip(recv.e) == I.w.strip(o.e)
        return z3.BoolVal(False)


class CategoryClear(Virtual):
    base, method = 'Category', 'clear_features'

    def spec(self, I, recv, args, node):
        w = I.w
        if len(args) == 1 and isinstance(args[0], VarArgs):
            return w.erase(recv.e, args[0].member)
        n = z3.EmptySet(w.Feat)
        for a in args:
            if isinstance(a, str):
                n = z3.SetAdd(n, concrete_feat_parse(I, a, node))
            elif isinstance(a, Z) and I.sort_name(a) == 'Feat':
                n = z3.SetAdd(n, a.e)
            elif isinstance(a, Z) and I.sort_name(a) == 'String':
                n = z3.SetAdd(n, feat_parse_spec(w, a.e))
            else:
                continue    # a value that equals no feature
        return w.erase(recv.e, n)


class CategoryNargs(Virtual):
    base, method = 'Category', 'nargs'
    is_property = True

    def spec(self, I, recv, args, node):
        return I.w.nargs(recv.e)


class CategoryArg(Virtual):
    """x.arg(0): the innermost result category.  Only index 0 is used in the repository and modelled."""
    base, method = 'Category', 'arg'

    def spec(self, I, recv, args, node):
        if len(args) == 1 and args[0] == 0 and not isinstance(args[0], bool):
            return I.w.head_atom(recv.e)
        raise CheckerError('Category.arg is only modelled for the literal index 0')


class ArgImpl(Impl):
    def cases(self, I):
        def build(I):
            s, assumes = self.mk_self(I)
            w = I.w
            # lemma nargs_nonneg (induction, proved in the same run) at the fields of self
            if self.ctor == 'Functor':
                assumes = assumes + [w.nargs(w.acc('Functor', 'left')(s)) >= 0]
            return [Z(s), 0], {}, assumes, {'self': s}
        yield Case('index0', build)


def cat_contracts():
    feq, fstr = FeatureEq(), FeatureStr()
    ceq, cstr, cxor, cclr = CategoryEq(), CategoryStr(), CategoryXor(), CategoryClear()
    cnargs, carg = CategoryNargs(), CategoryArg()
    impls = [
        Impl(feq, 'UnaryFeature', 'UnaryFeature.__eq__', ('feat', 'str', 'foreign', 'none')),
        Impl(feq, 'TernaryFeature', 'TernaryFeature.__eq__', ('feat', 'str', 'foreign', 'none')),
        Impl(fstr, 'UnaryFeature', 'UnaryFeature.__str__'),
        Impl(fstr, 'TernaryFeature', 'TernaryFeature.__str__'),
        Impl(ceq, 'Atom', 'Atom.__eq__', ('cat', 'str', 'foreign', 'none')),
        Impl(ceq, 'Functor', 'Functor.__eq__', ('cat', 'str', 'foreign', 'none')),
        Impl(cstr, 'Atom', 'Atom.__str__'),
        Impl(cstr, 'Functor', 'Functor.__str__'),
        Impl(cxor, 'Atom', 'Atom.__xor__', ('cat', 'str', 'foreign')),
        Impl(cxor, 'Functor', 'Functor.__xor__', ('cat', 'str', 'foreign')),
        Impl(cclr, 'Atom', 'Atom.clear_features', ('varargs',)),
        Impl(cclr, 'Functor', 'Functor.clear_features', ('varargs',)),
        FeatureParse(),
        Impl(cnargs, 'Atom', 'Atom.nargs'),
        Impl(cnargs, 'Functor', 'Functor.nargs'),
        ArgImpl(carg, 'Atom', 'Atom.arg'),
        ArgImpl(carg, 'Functor', 'Functor.arg'),
    ]
    virtuals = [feq, fstr, ceq, cstr, cxor, cclr, cnargs, carg]
    table = {}
    for c in virtuals + impls:
        table[c.name] = c
    return table, impls, virtuals
