"""Contracts for the helper code of depccg/parsing.h that parse_sentence's loop proofs used to ASSUME:

  utils::argmax<float>                      -> index of a maximum (loop invariant, variant)
  parsing::matrix::operator() / argmax      -> flat indexing, 2-D view justified by the index lemmas
  parsing::compute_outside_probabilities    -> out(i, j) = P(i) + P(length) - P(j) on the range the search uses (two loops, ghost prefix/suffix sums,
                                               induction lemma S(j) = P(length) - P(j))
  parsing::chart::cell::contains / emplace, chart::operator(), chart::update, chart::size
                                            -> the chart contract used by the search loop (nullptr iff 1-best and category present; otherwise the
                                               item is copied to the front of the cell, the cell is registered once in the start/end lists)
  parse_sentence lines "score setup"        -> best_tag / best_dep / dep_leaf_out_score / outside matrices = the ghost definitions of contracts/parsing_h.py

Everything is executed from clang's AST of the real header on every run (vc/cxxvc.py Exec); the loop rule is the classical one:
invariant holds on entry; from an arbitrary state satisfying invariant and condition the body re-establishes it and decreases the variant;
after the loop invariant and negated condition hold.  Ghost arrays (prefix sums ...) are updated by sidecar ghost statements at the end of a body.
"""
import z3

from vc.cxxvc import Exec, Item, Ptr, Rec, Abstract, BoundMember, AddrOf, CheckerError, line_of, strip_casts, body_of, explore, \
    _Break, _Continue, _Return, Infeasible, U32

I_, R_, B_ = z3.IntSort(), z3.RealSort(), z3.BoolSort()
ARR = z3.ArraySort(I_, R_)
ARR2 = z3.ArraySort(I_, ARR)
BARR = z3.ArraySort(I_, B_)
BARR2 = z3.ArraySort(I_, BARR)


# ---------------------------------------------------------------------------- values
class Vec:
    """std::vector<float> / float[]: contents as a z3 array, size as a term"""
    def __init__(self, arr, size, name):
        self.arr, self.size, self.name = arr, size, name

    def havoc(self, ex):
        return Vec(ex.fresh(self.name, ARR), self.size, self.name)


class PtrInto:
    """float* into a Vec"""
    def __init__(self, vec, off):
        self.vec, self.off = vec, off

    def havoc(self, ex):
        return PtrInto(self.vec, ex.fresh('ptr_off', I_))


class Mat2:
    """parsing::matrix seen through its contract: cell (r, c), r < rows, c < cols"""
    def __init__(self, arr, rows, cols, name):
        self.arr, self.rows, self.cols, self.name = arr, rows, cols, name

    def havoc(self, ex):
        return Mat2(ex.fresh(self.name, ARR2), self.rows, self.cols, self.name)

    def at(self, r, c):
        return z3.Select(z3.Select(self.arr, r), c)


class CellRef:
    """lvalue: element of a Vec / Mat2"""
    def __init__(self, obj, idx):
        self.obj, self.idx = obj, idx


class PQVec:
    """std::vector<std::priority_queue<pair<float, category_id>>>: queue t holds the pairs (score[t][c], c) for the c with has[t][c]"""
    def __init__(self, has, score, size):
        self.has, self.score, self.size = has, score, size

    def havoc(self, ex):
        return PQVec(ex.fresh('pq_has', BARR2), ex.fresh('pq_score', ARR2), self.size)


class PQRef:
    """a reference to queue t of a PQVec (auto &q = scored_cats[t]): the queue itself lives in the vector, so a havoc of the vector covers it"""
    def __init__(self, pqs, t):
        self.pqs, self.t = pqs, t

    def havoc(self, ex):
        # the loop changes the vector THROUGH this reference: the vector it refers to is set to an arbitrary state (in place: every name of it sees that)
        self.pqs.has, self.pqs.score = ex.fresh('pq_has', BARR2), ex.fresh('pq_score', ARR2)
        return self


class Obj(Rec):
    """a struct/class object with named fields (this of the method under verification, chart cells)"""
    def __init__(self, kind, fields, name=''):
        Rec.__init__(self, kind, fields)
        self.name = name


def havoc(ex, v, name='v'):
    if hasattr(v, 'havoc'):
        return v.havoc(ex)
    if z3.is_expr(v):
        return ex.fresh(name, v.sort())
    if v is None:
        return None
    raise CheckerError(f'cannot havoc a value of kind {type(v).__name__} ({name})')


# ---------------------------------------------------------------------------- loops
class LoopSpec:
    """inv(env) -> Bool; variant(env) -> Int; ghost(env): ghost statements at the end of the body (before the increment);
    pre_ghost(env): ghost statements just before the loop; ghost_names: ghost variables the loop updates"""
    def __init__(self, inv, variant=None, ghost=None, ghost_names=(), what='', pre_ghost=None):
        self.inv, self.variant, self.ghost, self.ghost_names, self.what, self.pre_ghost = inv, variant, ghost, tuple(ghost_names), what, pre_ghost


MUTATORS = {'emplace', 'push_back', 'push_front', 'push', 'pop', 'sort', 'insert', 'clear', 'emplace_back', 'resize'}


def root_name(n):
    n = strip_casts(n)
    k = n.get('kind')
    if k == 'DeclRefExpr':
        return n['referencedDecl'].get('name')
    if k in ('CXXOperatorCallExpr',):
        return root_name(n['inner'][1])
    if k in ('MemberExpr', 'UnaryOperator', 'ArraySubscriptExpr', 'CXXMemberCallExpr'):
        return root_name(n['inner'][0])
    if k == 'CXXThisExpr':
        return 'this'
    return None


def _walk_all(n):
    if isinstance(n, dict):
        yield n
        for c in n.get('inner', []) or []:
            yield from _walk_all(c)


def assigned_names(*nodes):
    """names of the variables a statement may modify (syntactic, conservative)"""
    out = set()

    def walk(n):
        if not isinstance(n, dict):
            return
        k = n.get('kind')
        if (k == 'BinaryOperator' and n.get('opcode') == '=') or k == 'CompoundAssignOperator' or (k == 'UnaryOperator' and n.get('opcode') in ('++', '--')):
            r = root_name(n['inner'][0])
            if r is None:
                raise CheckerError(f'store through an expression without a named root at parsing.h:{line_of(n)}')
            out.add(r)
        if k == 'CXXOperatorCallExpr' and strip_casts(n['inner'][0]).get('referencedDecl', {}).get('name') == 'operator=':
            r = root_name(n['inner'][1])
            if r:
                out.add(r)
        if k == 'CXXMemberCallExpr':
            callee = strip_casts(n['inner'][0])
            if callee.get('name') in MUTATORS:
                r = root_name(callee['inner'][0])
                if r is None:
                    raise CheckerError(f'mutating call on an expression without a named root at parsing.h:{line_of(n)}')
                out.add(r)
        if k == 'CallExpr':
            for a in n['inner'][1:]:
                r = root_name(a)
                if r and 'float' not in a.get('type', {}).get('qualType', 'float') and 'int' not in a.get('type', {}).get('qualType', ''):
                    out.add(r)
        if k == 'DeclStmt':
            for d in n.get('inner', []):
                if d.get('kind') == 'VarDecl':
                    out.add(d['name'])
        for c in n.get('inner', []) or []:
            walk(c)
    for n in nodes:
        if n:
            walk(n)
    # references: `T &x = <expression rooted at y>` makes x a name for (part of) y - what is done to x is done to y
    alias = {}
    for n in nodes:
        for d in (_walk_all(n) if n else ()):
            if d.get('kind') == 'VarDecl' and d.get('type', {}).get('qualType', '').rstrip().endswith('&'):
                init = [c for c in d.get('inner', []) if c.get('kind')]
                r = root_name(init[0]) if init else None
                if r:
                    alias[d['name']] = r
    changed = True
    while changed:
        changed = False
        for x, y in alias.items():
            if x in out and y not in out:
                out.add(y)
                changed = True
    return out


class HModel:
    """contracts of what the helper functions touch + the generic loop rule"""
    def __init__(self, ast, loops, hooks=None):
        self.ast = ast
        self.loops = list(loops)
        self.loop_no = 0
        self.hooks = hooks or {}
        self.LOWEST = z3.Real('float_lowest')
        self.fields = ast.fields('cell_item')

    def begin_path(self):
        self.loop_no = 0

    # ---- declarations
    def declare(self, ex, name, ty, init, env, static=False):
        if static:
            raise CheckerError(f'static local {name} in a helper')
        h = self.hooks.get('declare')
        if h is not None:
            r = h(ex, name, ty, init, env)
            if r is not NotImplemented:
                return r
        t = ty.replace('const ', '')
        if t.startswith('std::vector<float>'):
            args = []
            if init is not None:
                c = strip_casts(init)
                args = [ex.ev(a, env) for a in c.get('inner', []) if 'kind' in a and a['kind'] != 'CXXDefaultArgExpr']
            if len(args) not in (1, 2):
                raise CheckerError(f'std::vector<float> {name} constructed from {len(args)} arguments')
            fill = args[1] if len(args) == 2 else z3.RealVal(0)
            if z3.is_expr(fill) and fill.sort() == I_:
                fill = z3.ToReal(fill)
            return Vec(z3.K(I_, fill), args[0], name)
        if init is None:
            if 'float' in t:
                return ex.fresh(name + '_uninit', R_)
            if t in ('unsigned int', 'int', 'unsigned'):
                return ex.fresh(name + '_uninit', I_)
            raise CheckerError(f'declaration of {name}: {ty} without initialiser')
        v = ex.ev(init, env)
        if isinstance(v, CellRef) and not t.endswith('&'):
            return read_ref(v)
        if isinstance(v, Item) and not t.endswith('&') and '*' not in t:
            return Item(dict(v.f), v.name + "'")
        return v

    def assign(self, ex, tgt, val, env, node):
        k = tgt.get('kind')
        if k == 'DeclRefExpr':
            name = tgt['referencedDecl']['name']
            cur = env.get(name)
            if z3.is_expr(cur) and z3.is_expr(val) and cur.sort() == R_ and val.sort() == I_:
                val = z3.ToReal(val)
            env[name] = val
            return val
        if k == 'MemberExpr':
            base = ex.ev(tgt['inner'][0], env)
            if isinstance(base, Ptr):
                base = base.target
            if isinstance(base, (Obj, Item, Rec)):
                base.f[tgt['name']] = val
                return val
        if k in ('CXXOperatorCallExpr', 'UnaryOperator', 'ArraySubscriptExpr'):
            ref = ex.ev(tgt, env, ) if False else self.lvalue(ex, tgt, env)
            if isinstance(ref, CellRef):
                if z3.is_expr(val) and val.sort() == I_:
                    val = z3.ToReal(val)
                if isinstance(ref.obj, Vec):
                    ref.obj.arr = z3.Store(ref.obj.arr, ref.idx, val)
                else:
                    r, c = ref.idx
                    ref.obj.arr = z3.Store(ref.obj.arr, r, z3.Store(z3.Select(ref.obj.arr, r), c, val))
                return val
        raise CheckerError(f'assignment to {k} at parsing.h:{line_of(node)} is not modelled')

    def lvalue(self, ex, tgt, env):
        self.want_ref = True
        try:
            return ex.ev(tgt, env)
        finally:
            self.want_ref = False

    def global_ref(self, ex, name, node):
        if name == 'UINT_MAX':
            return z3.IntVal(U32 - 1)
        h = self.hooks.get('global_ref')
        if h is not None:
            r = h(ex, name, node)
            if r is not NotImplemented:
                return r
        raise CheckerError(f'reference to unknown name {name} at parsing.h:{line_of(node)}')

    def init_list(self, ex, ty, vals, node):
        raise CheckerError(f'initialiser list of type {ty}')

    def construct(self, ex, ty, args, node):
        if len(args) == 1:
            return args[0]
        raise CheckerError(f'construction of {ty} at parsing.h:{line_of(node)}')

    def lambda_(self, ex, e, env):
        return Abstract('lambda', node=e)          # a value; executed only where a contract applies it (the comparator of cell::sort)

    def call(self, ex, name, args, node, env):
        if name == 'lowest':
            return self.LOWEST
        h = self.hooks.get('call')
        if h is not None:
            r = h(ex, name, args, node, env)
            if r is not NotImplemented:
                return r
        raise CheckerError(f'call of {name} at parsing.h:{line_of(node)} is not modelled')

    def call_value(self, ex, f, args, node):
        raise CheckerError('call through a function pointer in a helper')

    def operator(self, ex, opname, args, node):
        want_ref, self.want_ref = getattr(self, 'want_ref', False), False
        obj = args[0]
        if isinstance(obj, AddrOf):
            obj = obj.v
        if opname == 'operator[]' and isinstance(obj, Vec):
            i = args[1]
            ex.oblige('bounds', z3.And(i >= 0, i < obj.size), node, f'{obj.name}[i] inside the vector')
            return CellRef(obj, i) if want_ref else z3.Select(obj.arr, i)
        if opname == 'operator()' and isinstance(obj, Mat2):
            r, c = args[1], args[2]
            # precondition of matrix::operator() (proved below to be what keeps the flat index inside the buffer and the 2-D view faithful)
            ex.oblige('bounds', z3.And(r >= 0, r < obj.rows, c >= 0, c < obj.cols), node, f'{obj.name}(row, column) inside the matrix')
            return CellRef(obj, (r, c)) if want_ref else obj.at(r, c)
        if opname == 'operator[]' and isinstance(obj, PQVec):
            i = args[1]
            ex.oblige('bounds', z3.And(i >= 0, i < obj.size), node, 'scored_cats[token] inside the vector')
            return PQRef(obj, i)
        if opname in ('operator!=', 'operator==') and len(args) == 2 and all(isinstance(a, Rec) and a.kind == 'iterator' for a in args):
            same = args[0].f['valid'] == args[1].f['valid']
            return same if opname == 'operator==' else z3.Not(same)
        if opname in ('operator*', 'operator->') and len(args) == 1 and isinstance(obj, Rec) and obj.kind == 'list_iter':
            if obj.elem is None:
                raise CheckerError('begin() of the list is dereferenced before anything was inserted: the older elements are opaque in this model')
            return obj.elem if opname == 'operator*' else Ptr(obj.elem)
        h = self.hooks.get('operator')
        if h is not None:
            r = h(ex, opname, args, node, want_ref)
            if r is not NotImplemented:
                return r
        raise CheckerError(f'operator {opname} on {args[0]!r} at parsing.h:{line_of(node)} is not modelled')

    def method(self, ex, obj, name, args, node):
        if isinstance(obj, PQRef):
            pqs, t = obj.pqs, obj.t
            has_t, score_t = z3.Select(pqs.has, t), z3.Select(pqs.score, t)
            if name == 'emplace':
                s, c = args
                # abstraction of the queue: one entry per category (a second entry with the same category is outside it)
                ex.oblige('pq-abstraction', z3.Not(z3.Select(has_t, c)), node, 'a category is put into the candidate queue of a token once')
                pqs.has = z3.Store(pqs.has, t, z3.Store(has_t, c, z3.BoolVal(True)))
                pqs.score = z3.Store(pqs.score, t, z3.Store(score_t, c, s))
                return None
            if name == 'top':
                k = z3.Int('k!pq')
                ex.oblige('pq-nonempty', z3.Exists([k], z3.Select(has_t, k)), node, 'top() of a non-empty queue')
                c = ex.fresh('top_cat', I_)
                s = z3.Select(score_t, c)
                ex.assume(z3.Select(has_t, c))
                ex.assume(z3.ForAll([k], z3.Implies(z3.Select(has_t, k), z3.Select(score_t, k) <= s)))
                return Rec('pair', dict(first=s, second=c))
        h = self.hooks.get('method')
        if h is not None:
            r = h(ex, obj, name, args, node)
            if r is not NotImplemented:
                return r
        r = self.inline_own_method(ex, obj, name, args, node)
        if r is not NotImplemented:
            return r
        raise CheckerError(f'method {name} on {obj!r} at parsing.h:{line_of(node)} is not modelled')

    def inline_own_method(self, ex, obj, name, args, node):
        """a call of another method of the class under verification that has no contract of its own here (a private helper such as an index
        computation): its body is executed in place, with `this` bound to the same object"""
        record = 'cell_item' if isinstance(obj, Item) else (obj.kind if isinstance(obj, Obj) else None)
        if record not in ('matrix', 'chart', 'cell', 'cell_item') or getattr(ex, '_inline_depth', 0) > 3:
            return NotImplemented
        try:
            fn_ = self.ast.method(record, name)
        except CheckerError:
            return NotImplemented
        params = [c['name'] for c in fn_.get('inner', []) if c.get('kind') == 'ParmVarDecl']
        if len(params) != len(args):
            return NotImplemented
        env2 = {'this': Ptr(obj)}
        env2.update(dict(zip(params, args)))
        ex._inline_depth = getattr(ex, '_inline_depth', 0) + 1
        try:
            ex.run(body_of(fn_), env2)
            return None
        except _Return as r:
            return r.v
        finally:
            ex._inline_depth -= 1

    # ---- the loop rule
    def for_loop(self, ex, st, env):
        if self.loop_no >= len(self.loops):
            raise CheckerError(f'loop at parsing.h:{line_of(st)} has no invariant in the sidecar (loops are matched in order of occurrence)')
        spec = self.loops[self.loop_no]
        no = self.loop_no
        self.loop_no += 1
        inner = [c for c in st['inner']]
        if st['kind'] == 'ForStmt':
            init, cond, inc, body = inner[0], inner[2], inner[3], inner[4]
        else:
            ii = [c for c in inner if c.get('kind')]
            init, cond, inc, body = None, ii[0], None, ii[-1]
        if spec.pre_ghost:
            spec.pre_ghost(env)
        if init and init.get('kind'):
            ex.run(init, env)
        ex.oblige('loop-init', spec.inv(env), st, f'invariant of loop {no} holds on entry: {spec.what}')
        mods = assigned_names(body, inc if inc and inc.get('kind') else None) | set(spec.ghost_names)
        for name in sorted(mods):
            if name in env:
                env[name] = havoc(ex, env[name], name)
        ex.assume(spec.inv(env))
        c = ex.truth(ex.ev(cond, env)) if cond and cond.get('kind') else z3.BoolVal(True)
        if ex.branch(c):
            v0 = spec.variant(env) if spec.variant else None
            saved_no = self.loop_no
            try:
                ex.run(body, env)
            except _Continue:
                pass
            except _Break:
                raise CheckerError(f'break inside a loop verified by the generic invariant rule (parsing.h:{line_of(st)})')
            self.loop_no = saved_no + count_loops(body)
            if spec.ghost:
                spec.ghost(env)
            if inc and inc.get('kind'):
                ex.ev(inc, env)
            ex.oblige('loop-preserved', spec.inv(env), st, f'the body of loop {no} re-establishes: {spec.what}')
            if v0 is not None:
                ex.oblige('loop-variant', z3.And(v0 >= 0, spec.variant(env) < v0), st, f'loop {no} terminates (variant decreases and is bounded below)')
            raise Infeasible()          # this path ends here; the obligations it recorded are kept
        self.loop_no = no + 1 + count_loops(body)
        return None

    def range_loop(self, ex, st, env):
        """range-for whose body modifies nothing (a search with early exits): the body is executed once for an ARBITRARY element; the path that
        falls through continues after the loop with the state unchanged (what the loop learnt about the other elements is dropped: sound, incomplete)"""
        inner = [c for c in st['inner'] if 'kind' in c]
        rng_decl = inner[0]['inner'][0]
        rng = ex.ev([c for c in rng_decl['inner'] if 'kind' in c][0], env)
        var = inner[-2]['inner'][0]
        body = inner[-1]
        mods = assigned_names(body)
        if mods:
            raise CheckerError(f'range-for at parsing.h:{line_of(st)} modifies {sorted(mods)}: needs an invariant in the sidecar')
        h = self.hooks.get('range_elem')
        elem = h(ex, rng, st) if h else NotImplemented
        if elem is NotImplemented:
            raise CheckerError(f'range-for over {rng!r} at parsing.h:{line_of(st)} is not modelled')
        if ex.branch(ex.fresh('range_nonempty', B_)):
            env2 = dict(env)
            env2[var['name']] = elem
            try:
                ex.run(body, env2)
            except (_Continue, _Break):
                pass
        return None


def count_loops(n):
    k = 0

    def walk(x):
        nonlocal k
        if isinstance(x, dict):
            if x.get('kind') in ('ForStmt', 'WhileStmt'):
                k += 1
            for c in x.get('inner', []) or []:
                walk(c)
    walk(n)
    return k


def read_ref(ref):
    if isinstance(ref.obj, Vec):
        return z3.Select(ref.obj.arr, ref.idx)
    return ref.obj.at(*ref.idx)


class HExec(Exec):
    """Exec + pointer arithmetic into a Vec, dereference, increments (helper subset)"""
    def ev_UnaryOperator(self, e, env):
        op = e['opcode']
        if op == '*':
            want_ref, self.model.want_ref = getattr(self.model, 'want_ref', False), False
            v = self.ev(e['inner'][0], env)
            if isinstance(v, PtrInto):
                self.oblige('bounds', z3.And(v.off >= 0, v.off < v.vec.size), e, 'dereferenced pointer inside the buffer')
                return CellRef(v.vec, v.off) if want_ref else z3.Select(v.vec.arr, v.off)
            if isinstance(v, Ptr):
                if v.target is None:
                    self.oblige('nonnull', z3.BoolVal(False), e, 'dereference of a null pointer')
                    raise Infeasible()
                return v.target
            return v
        if op in ('++', '--'):
            v = self.ev(e['inner'][0], env)
            if isinstance(v, PtrInto):
                new = PtrInto(v.vec, v.off + (1 if op == '++' else -1))
                # one past the end is a valid pointer value
                self.oblige('bounds', z3.And(new.off >= 0, new.off <= v.vec.size), e, 'pointer stays inside the buffer (or one past its end)')
                self.model.assign(self, strip_casts(e['inner'][0]), new, env, e)
                return v if e.get('isPostfix') else new
            new = v + 1 if op == '++' else v - 1
            ty = e['type']['qualType']
            if 'unsigned' in ty:
                self.oblige('nowrap', z3.And(new >= 0, new < U32), e, f'unsigned {op} does not wrap')
            else:
                self.oblige('nowrap', z3.And(new >= -2 ** 31, new < 2 ** 31), e, f'int {op} does not overflow')
            self.model.assign(self, strip_casts(e['inner'][0]), new, env, e)
            return v if e.get('isPostfix') else new
        if op == '&':
            v = self.ev(e['inner'][0], env)
            if isinstance(v, (Item, Obj)):
                return Ptr(v)
            return AddrOf(v)
        return Exec.ev_UnaryOperator(self, e, env)

    def ev_BinaryOperator(self, e, env):
        op = e['opcode']
        if op in ('+', '-', '==', '!=', '<', '<='):
            a_node, b_node = e['inner'][0], e['inner'][1]
            ta, tb = a_node.get('type', {}).get('qualType', ''), b_node.get('type', {}).get('qualType', '')
            if ta.replace('const', '').strip().endswith('*') and 'float' in ta:
                a = self.ev(a_node, env)
                b = self.ev(b_node, env)
                if isinstance(a, Vec):
                    a = PtrInto(a, z3.IntVal(0))
                if isinstance(b, Vec):
                    b = PtrInto(b, z3.IntVal(0))
                if isinstance(a, PtrInto) and isinstance(b, PtrInto):
                    if a.vec is not b.vec:
                        raise CheckerError('comparison of pointers into different buffers')
                    return {'==': a.off == b.off, '!=': a.off != b.off, '<': a.off < b.off, '<=': a.off <= b.off}[op]
                if isinstance(a, PtrInto) and op in ('+', '-'):
                    new = PtrInto(a.vec, a.off + b if op == '+' else a.off - b)
                    self.oblige('bounds', z3.And(new.off >= 0, new.off <= a.vec.size), e, 'pointer arithmetic stays inside the buffer (or one past its end)')
                    return new
                raise CheckerError(f'pointer operation {op} at parsing.h:{line_of(e)}')
        return Exec.ev_BinaryOperator(self, e, env)

    def ev_ImplicitCastExpr(self, e, env):
        ck = e.get('castKind')
        if ck == 'IntegralCast':
            v = self.ev(e['inner'][0], env)
            frm = e['inner'][0].get('type', {}).get('qualType', '')
            to = e['type']['qualType']
            if z3.is_expr(v) and v.sort() == I_ and not z3.is_int_value(v) and 'unsigned' in to and 'unsigned' not in frm and frm in ('int', 'long'):
                self.oblige('nowrap-cast', v >= 0, e, 'a signed value converted to unsigned is not negative')
            desugared = e['type'].get('desugaredQualType', to)
            for narrow, bound in (('unsigned short', 2 ** 16), ('unsigned char', 2 ** 8), ('short', 2 ** 15), ('signed char', 2 ** 7), ('char', 2 ** 7)):
                if (to.replace('const ', '') == narrow or desugared.replace('const ', '') == narrow) and z3.is_expr(v) and v.sort() == I_:
                    self.oblige('nowrap-cast', z3.And(v >= (0 if 'unsigned' in narrow else -bound), v < bound), e, f'a value converted to {narrow} fits into it (no truncation)')
                    break
            if z3.is_int_value(v) and v.as_long() < 0 and 'unsigned' in to:
                return z3.IntVal(v.as_long() % U32)
            return v
        if ck == 'LValueToRValue':
            v = self.ev(e['inner'][0], env)
            if isinstance(v, CellRef):
                return read_ref(v)
            return v
        if ck == 'ArrayToPointerDecay':
            return self.ev(e['inner'][0], env)
        return Exec.ev_ImplicitCastExpr(self, e, env)

    def st_ReturnStmt(self, st, env):
        inner = [c for c in st.get('inner', []) if 'kind' in c]
        def has_value_cast(n):
            while n.get('kind') in ('ImplicitCastExpr', 'ParenExpr', 'ExprWithCleanups') and n.get('inner'):
                if n.get('castKind') in ('IntegralCast', 'LValueToRValue', 'FloatingCast', 'IntegralToFloating'):
                    return True
                n = n['inner'][0]
            return n.get('kind') in ('BinaryOperator', 'IntegerLiteral', 'FloatingLiteral', 'ConditionalOperator')
        if inner and self.model.hooks.get('ret_ref') and getattr(self, '_inline_depth', 0) == 0 and not has_value_cast(inner[0]):
            raise _Return(self.model.lvalue(self, strip_casts(inner[0]), env))
        raise _Return(self.ev(inner[0], env) if inner else None)

    def ev_ArraySubscriptExpr(self, e, env):
        want_ref, self.model.want_ref = getattr(self.model, 'want_ref', False), False
        base = self.ev(e['inner'][0], env)
        idx = self.ev(e['inner'][1], env)
        h = self.model.hooks.get('subscript')
        if h is not None:
            r = h(self, base, idx, e, want_ref)
            if r is not NotImplemented:
                return r
        if isinstance(base, PtrInto):
            off = base.off + idx
            self.oblige('bounds', z3.And(off >= 0, off < base.vec.size), e, 'subscript inside the buffer')
            return CellRef(base.vec, off) if want_ref else z3.Select(base.vec.arr, off)
        if isinstance(base, Vec):
            self.oblige('bounds', z3.And(idx >= 0, idx < base.size), e, 'subscript inside the buffer')
            return CellRef(base, idx) if want_ref else z3.Select(base.arr, idx)
        raise CheckerError(f'subscript of {base!r} at parsing.h:{line_of(e)}')


# ---------------------------------------------------------------------------- function-level harness
def verify_function(ast, fn, title, setup, post, loops, props, hooks=None, region=None):
    """executes the body of `fn` (or the statements `region(body)` selects) from the state `setup(ex)` builds (which assumes the precondition),
    and obliges `post(ex, env, ret)` at every exit.  Returns obligation records in the format of contracts/parsing_h.py."""
    m = HModel(ast, loops, hooks)
    ex = HExec(ast, m)
    body = body_of(fn)
    stmts = region(body) if region else [body]

    def run():
        m.begin_path()
        env = setup(ex, m)
        ret = None
        try:
            for s in stmts:
                ex.run(s, env)
        except _Return as r:
            ret = r.v
        if m.loop_no != len(m.loops):
            raise CheckerError(f'{title}: {len(m.loops)} loop invariants in the sidecar, {m.loop_no} loops met on this path')
        for kind, goal, what in post(ex, env, ret):
            ex.oblige(kind, goal, fn, what)
        return 'end', None
    outs = explore(ex, run)
    recs = []
    ends = 0
    seen = set()
    for pi, o in enumerate(outs):
        if o['kind'] == 'end':
            ends += 1
        for ob in o['obligations']:
            key = (ob['kind'], ob['line'], ob['goal'].sexpr() if z3.is_expr(ob['goal']) else str(ob['goal']), tuple(c.sexpr() for c in ob['pc']))
            if key in seen:          # the same obligation met again on a sibling path
                continue
            seen.add(key)
            recs.append(dict(kind=ob['kind'], line=ob['line'] or line_of(fn), goal=ob['goal'], pc=ob['pc'], what=f'{title}: ' + ob['what'], props=tuple(props),
                             path=pi, facts=[], site=title))
    if not ends:
        raise CheckerError(f'{title}: no path reaches the end of the function (vacuous contract?)')
    # vacuity: the precondition together with the path condition of some complete path is satisfiable
    ok = False
    for o in outs:
        if o['kind'] != 'end':
            continue
        s = z3.Solver()
        s.set('timeout', 5000)
        for c in o['pc']:
            s.add(c)
        r = s.check()
        if r == z3.sat:
            ok = True
            break
        if r == z3.unknown:
            ok = None
    if ok is False:
        # on the unchanged tree this would be a vacuous sidecar contract; after a change it means no execution can leave the loops with the stated invariants
        recs.append(dict(kind='cover', line=line_of(fn), goal=z3.BoolVal(False), pc=[], what=f'{title}: some complete path through the function is feasible under the precondition and the loop invariants',
                         props=tuple(props), path=0, facts=[], site=title))
    return recs


# ---------------------------------------------------------------------------- utils::argmax<float>
def _q(name='k'):
    return z3.Int(name + '!q')


def instantiated(ast, name, sig_has):
    for d in ast.docs.get(name, []):
        if d.get('kind') == 'FunctionTemplateDecl' and d.get('name') == name:
            for c in d.get('inner', []):
                if c.get('kind') == 'FunctionDecl' and sig_has in c.get('type', {}).get('qualType', '') and any(x.get('kind') == 'CompoundStmt' for x in c.get('inner', [])):
                    return c
    raise CheckerError(f'no instantiation of {name} for {sig_has} in parsing.h')


def argmax_spec(arr, a, n, ret):
    """ret is the (last) index of a maximum of arr[a .. a+n) ; -1 for an empty range"""
    k = _q()
    return z3.And(z3.Implies(n == 0, ret == -1),
                  z3.Implies(n > 0, z3.And(ret >= 0, ret < n,
                                           z3.ForAll([k], z3.Implies(z3.And(k >= 0, k < n), z3.Select(arr, a + k) <= z3.Select(arr, a + ret))),
                                           z3.ForAll([k], z3.Implies(z3.And(k > ret, k < n), z3.Select(arr, a + k) < z3.Select(arr, a + ret))))))


def argmax_records(ast):
    fn = instantiated(ast, 'argmax', 'float *')
    st = {}
    ps, ints = params_of(fn), locals_of_type(fn, 'int')
    ptrs = [x for x in locals_of_type(fn, 'float *')]
    fls = [x for x in locals_of_type(fn, 'float') if x not in ptrs]
    # roles: the index that is returned, the other int (the position counter), the running maximum, the cursor (a local pointer if there is one, else the first parameter)
    rets = [strip_casts(c) for r in _walk(body_of(fn)) if r.get('kind') == 'ReturnStmt' for c in r.get('inner', [])[:1]]
    rets = {r['referencedDecl']['name'] for r in rets if r.get('kind') == 'DeclRefExpr'}
    if len(ps) != 2 or len(fls) != 1 or len(ints) != 2 or len(ptrs) > 1 or len(rets) != 1 or not rets <= set(ints):
        raise CheckerError(f'utils::argmax: expected 2 parameters, 1 float local, 2 int locals one of which is returned, at most one local pointer '
                           f'(found {len(ps)}, {len(fls)}, {len(ints)}, {len(ptrs)}, returned {sorted(rets)}): the sidecar invariant does not fit')
    mi = next(iter(rets))
    R = dict(frm=ps[0], to=ps[1], mv=fls[0], mi=mi, i=[x for x in ints if x != mi][0], cur=ptrs[0] if ptrs else ps[0])

    def setup(ex, m):
        N = ex.fresh('buffer_size', I_)
        vec = Vec(ex.fresh('data', ARR), N, 'data')
        a, b = ex.fresh('from', I_), ex.fresh('to', I_)
        k = _q()
        ex.assume(z3.And(a >= 0, a <= b, b <= N, N < 2 ** 31))
        # precondition on the DATA: finite, non-NaN floats (every float except -inf and NaN is >= numeric_limits<float>::lowest())
        ex.assume(z3.ForAll([k], z3.Select(vec.arr, k) >= m.LOWEST))
        st.update(vec=vec, a=a, b=b)
        return {R['frm']: PtrInto(vec, a), R['to']: PtrInto(vec, b)}

    def inv(env):
        vec, a, b = st['vec'], st['a'], st['b']
        off, i, mi, mv = env[R['cur']].off, env[R['i']], env[R['mi']], env[R['mv']]
        k = _q()
        return z3.And(a <= off, off <= b, i == off - a,
                      z3.Implies(i == 0, z3.And(mi == -1, mv == z3.Real('float_lowest'))),
                      z3.Implies(i > 0, z3.And(mi >= 0, mi < i, mv == z3.Select(vec.arr, a + mi))),
                      z3.ForAll([k], z3.Implies(z3.And(k >= 0, k < i), z3.Select(vec.arr, a + k) <= mv)),
                      z3.ForAll([k], z3.Implies(z3.And(k > mi, k < i), z3.Select(vec.arr, a + k) < mv)))

    def post(ex, env, ret):
        vec, a, b = st['vec'], st['a'], st['b']
        return [('post', argmax_spec(vec.arr, a, b - a, ret), 'returns the (last) index of a maximum of [from, to), -1 for an empty range')]
    loops = [LoopSpec(inv, variant=lambda env: st['b'] - env[R['cur']].off, what='max_val/max_idx describe the maximum of the elements seen so far')]
    return verify_function(ast, fn, 'utils::argmax<float>', setup, post, loops, ('C01', 'C09'))


# ---------------------------------------------------------------------------- parsing::matrix
def index_lemmas():
    """the arithmetic behind the 2-D view of data_[row * column_ + column]"""
    r1, c1, r2, c2, rows, cols = z3.Ints('r1 c1 r2 c2 rows cols')
    rng = z3.And(r1 >= 0, r2 >= 0, c1 >= 0, c2 >= 0, c1 < cols, c2 < cols, r1 < rows, r2 < rows)
    recs = []
    recs.append(dict(kind='lemma-index-injective', line=0, goal=z3.Implies(z3.And(rng, r1 * cols + c1 == r2 * cols + c2), z3.And(r1 == r2, c1 == c2)), pc=[], facts=[],
                     props=('C01', 'C09'), path=0, site='parsing::matrix', what='parsing::matrix: different in-range (row, column) pairs are different elements of the buffer'))
    recs.append(dict(kind='lemma-index-inside', line=0, goal=z3.Implies(rng, z3.And(r1 * cols + c1 >= 0, r1 * cols + c1 < rows * cols)), pc=[], facts=[],
                     props=('C01', 'C09'), path=0, site='parsing::matrix', what='parsing::matrix: an in-range (row, column) pair is an element of the row_ * column_ buffer'))
    return recs


def _matrix_this(ex, m):
    rows, cols = ex.fresh('row_', I_), ex.fresh('column_', I_)
    vec = Vec(ex.fresh('data_', ARR), rows * cols, 'data_')
    this = Obj('matrix', dict(data_=PtrInto(vec, z3.IntVal(0)), row_=rows, column_=cols, own_=ex.fresh('own_', B_)), 'this')
    ex.assume(z3.And(rows >= 0, cols >= 0, rows * cols < U32))
    return this, vec, rows, cols


def matrix_records(ast):
    recs = index_lemmas()
    # ---- operator(): a reference to data_[row * column_ + column], inside the buffer
    fn = ast.method('matrix', 'operator()')
    st = {}

    def setup(ex, m):
        this, vec, rows, cols = _matrix_this(ex, m)
        r, c = ex.fresh('row', I_), ex.fresh('column', I_)
        ex.assume(z3.And(r >= 0, c >= 0, r < rows, c < cols))                 # the precondition obliged at every call site ('bounds')
        # lemma-index-inside, instantiated (nonlinear arithmetic is not the solver's strength: the lemma is proved on its own above)
        ex.assume(z3.And(r * cols + c >= 0, r * cols + c < rows * cols))
        st.update(vec=vec, r=r, c=c, cols=cols)
        return {'this': Ptr(this), 'row': r, 'column': c}

    def post(ex, env, ret):
        ok = isinstance(ret, CellRef) and ret.obj is st['vec']
        return [('post', z3.And(z3.BoolVal(ok), ret.idx == st['r'] * st['cols'] + st['c']) if ok else z3.BoolVal(False),
                 'returns a reference to data_[row * column_ + column]')]
    m_hooks = dict(ret_ref=True)
    recs += verify_function(ast, fn, 'parsing::matrix::operator()', setup, post, [], ('C01', 'C09'), hooks=m_hooks)
    # ---- argmax(row): index of a maximum of row `row`
    fn2 = ast.method('matrix', 'argmax')
    st2 = {}

    def setup2(ex, m):
        this, vec, rows, cols = _matrix_this(ex, m)
        r = ex.fresh('row', I_)
        k = _q()
        ex.assume(z3.And(r >= 0, r < rows, cols >= 1, rows * cols < 2 ** 31))
        ex.assume(z3.And(r * cols >= 0, r * cols + cols <= rows * cols))       # lemma-index-inside at (row, 0) and (row, column_ - 1)
        ex.assume(z3.ForAll([k], z3.Select(vec.arr, k) >= m.LOWEST))           # finite scores
        st2.update(vec=vec, r=r, cols=cols)
        return {'this': Ptr(this), 'row': r}

    def call(ex, name, args, node, env):
        if name == 'argmax':
            a, b = args
            if not (isinstance(a, PtrInto) and isinstance(b, PtrInto) and a.vec is b.vec):
                raise CheckerError('utils::argmax called with pointers into different buffers')
            k = _q()
            ex.oblige('pre', z3.And(a.off >= 0, a.off <= b.off, b.off <= a.vec.size, a.vec.size < 2 ** 31), node, 'precondition of utils::argmax: [from, to) inside the buffer')
            ex.oblige('pre', z3.ForAll([k], z3.Select(a.vec.arr, k) >= z3.Real('float_lowest')), node, 'precondition of utils::argmax: finite data')
            ret = ex.fresh('argmax', I_)
            ex.assume(argmax_spec(a.vec.arr, a.off, b.off - a.off, ret))
            return ret
        return NotImplemented

    def post2(ex, env, ret):
        vec, r, cols = st2['vec'], st2['r'], st2['cols']
        k = _q()
        return [('post', z3.And(ret >= 0, ret < cols, z3.ForAll([k], z3.Implies(z3.And(k >= 0, k < cols), z3.Select(vec.arr, r * cols + k) <= z3.Select(vec.arr, r * cols + ret)))),
                 'returns a column of row `row` holding a maximum of that row')]
    recs += verify_function(ast, fn2, 'parsing::matrix::argmax', setup2, post2, [], ('C01', 'C09'), hooks=dict(call=call))
    return recs


# ---------------------------------------------------------------------------- roles: the sidecar invariants name program variables by ROLE, the names are read from the AST
def _walk(n):
    if isinstance(n, dict):
        yield n
        for c in n.get('inner', []) or []:
            yield from _walk(c)


def params_of(fn):
    return [c['name'] for c in fn.get('inner', []) if c.get('kind') == 'ParmVarDecl']


def loops_of(fn):
    return [n for n in _walk(body_of(fn)) if n.get('kind') in ('ForStmt', 'WhileStmt')]


def counter_of(loop):
    """the variable a loop counts with: declared in the init of a for loop; for a while loop the first local named in its condition"""
    if loop['kind'] == 'ForStmt':
        init = loop['inner'][0]
        for n in _walk(init):
            if n.get('kind') == 'VarDecl':
                return n['name']
    cond = loop['inner'][2] if loop['kind'] == 'ForStmt' else [c for c in loop['inner'] if c.get('kind')][0]
    for n in _walk(cond):
        if n.get('kind') == 'DeclRefExpr' and n.get('referencedDecl', {}).get('kind') == 'VarDecl':
            return n['referencedDecl']['name']
    raise CheckerError(f'loop at parsing.h:{line_of(loop)}: cannot tell its counter')


def locals_of_type(fn, prefix):
    return [n['name'] for n in _walk(body_of(fn)) if n.get('kind') == 'VarDecl' and n.get('type', {}).get('qualType', '').replace('const ', '').startswith(prefix)]


# ---------------------------------------------------------------------------- parsing::compute_outside_probabilities
def prefix_rec(P, probs, n):
    """P is the prefix-sum array of probs on [0, n]"""
    k = _q()
    return z3.And(z3.Select(P, 0) == 0, z3.ForAll([k], z3.Implies(z3.And(k >= 0, k < n), z3.Select(P, k + 1) == z3.Select(P, k) + z3.Select(probs, k))))


def outside_contract(out, P, length):
    """what the search loop reads: out(a, b) = P(a) + P(length) - P(b) wherever 0 <= a <= b <= length, a < length, 1 <= b"""
    a, b = _q('a'), _q('b')
    return z3.ForAll([a, b], z3.Implies(z3.And(a >= 0, a <= b, b <= length, a < length, b >= 1),
                                        out.at(a, b) == z3.Select(P, a) + z3.Select(P, length) - z3.Select(P, b)))


def outside_records(ast):
    fn = ast.function('compute_outside_probabilities')
    st = {}
    ps, vecs, lps = params_of(fn), locals_of_type(fn, 'std::vector<float>'), loops_of(fn)
    if len(ps) != 3 or len(vecs) != 2 or len(lps) != 3:
        raise CheckerError(f'compute_outside_probabilities: expected 3 parameters, 2 float vectors and 3 loops (found {len(ps)}, {len(vecs)}, {len(lps)}): the sidecar invariants do not fit')
    R = dict(probs=ps[0], length=ps[1], out=ps[2], fl=vecs[0], fr=vecs[1], i1=counter_of(lps[0]), i2=counter_of(lps[1]), j3=counter_of(lps[2]))

    def setup(ex, m):
        length = ex.fresh('length', I_)
        probs = Vec(ex.fresh('probs', ARR), ex.fresh('probs_size', I_), 'probs')
        out = Mat2(ex.fresh('out', ARR2), ex.fresh('out_rows', I_), ex.fresh('out_cols', I_), 'out')
        ex.assume(z3.And(length >= 1, length < 2 ** 30, probs.size >= length, out.rows >= length + 1, out.cols >= length + 1))
        P = z3.Store(ex.fresh('ghostP', ARR), 0, z3.RealVal(0))
        S = z3.Store(ex.fresh('ghostS', ARR), length, z3.RealVal(0))
        st.update(length=length, probs=probs, out=out)
        return {R['probs']: probs, R['length']: length, R['out']: out, '$P': P, '$S': S}

    def recs_PS(env, i):
        """the ghost recurrences as far as loop 1 has got: P on [0, i], S on [length - i, length]"""
        L, pr, P, S = st['length'], st['probs'].arr, env['$P'], env['$S']
        k = _q()
        return z3.And(z3.Select(P, 0) == 0, z3.Select(S, L) == 0,
                      z3.ForAll([k], z3.Implies(z3.And(k >= 0, k < i), z3.Select(P, k + 1) == z3.Select(P, k) + z3.Select(pr, k))),
                      z3.ForAll([k], z3.Implies(z3.And(k > L - i, k <= L), z3.Select(S, k - 1) == z3.Select(S, k) + z3.Select(pr, k - 1))))

    def inv1(env):
        L = st['length']
        i, FL, FR, P, S = env[R['i1']], env[R['fl']], env[R['fr']], env['$P'], env['$S']
        k = _q()
        return z3.And(i >= 0, i <= L - 1, recs_PS(env, i),
                      z3.ForAll([k], z3.Implies(z3.And(k >= 0, k <= i), z3.Select(FL.arr, k) == z3.Select(P, k))),
                      z3.ForAll([k], z3.Implies(z3.And(k >= L - i, k <= L), z3.Select(FR.arr, k) == z3.Select(S, k))))

    def ghost1(env):
        L, pr, i = st['length'], st['probs'].arr, env[R['i1']]
        j = L - i
        env['$P'] = z3.Store(env['$P'], i + 1, z3.Select(env['$P'], i) + z3.Select(pr, i))
        env['$S'] = z3.Store(env['$S'], j - 1, z3.Select(env['$S'], j) + z3.Select(pr, j - 1))

    def pre_ghost2(env):
        # the two sums the first loop does not need: P(length) and S(0)
        L, pr = st['length'], st['probs'].arr
        env['$P'] = z3.Store(env['$P'], L, z3.Select(env['$P'], L - 1) + z3.Select(pr, L - 1))
        env['$S'] = z3.Store(env['$S'], 0, z3.Select(env['$S'], 1) + z3.Select(pr, 0))

    def filled(env, i, upto_j=None):
        """out(a, b) = from_left[a] + from_right[b] for the cells written so far (rows < i completely, row i up to column j)"""
        L, out, FL, FR = st['length'], env[R['out']], env[R['fl']], env[R['fr']]
        a, b = _q('a'), _q('b')
        parts = [z3.ForAll([a, b], z3.Implies(z3.And(a >= 0, a < i, a <= b, b <= L), out.at(a, b) == z3.Select(FL.arr, a) + z3.Select(FR.arr, b)))]
        if upto_j is not None:
            parts.append(z3.ForAll([b], z3.Implies(z3.And(b >= i, b < upto_j), out.at(i, b) == z3.Select(FL.arr, i) + z3.Select(FR.arr, b))))
        return z3.And(parts)

    def inv2(env):
        L = st['length']
        i = env[R['i2']]
        return z3.And(i >= 0, i <= L + 1, filled(env, i))

    def inv3(env):
        L = st['length']
        i, j = env[R['i2']], env[R['j3']]
        return z3.And(i >= 0, i < L + 1, j >= i, j <= L + 1, filled(env, i, j))

    def post(ex, env, ret):
        L, pr, P, S, out = st['length'], st['probs'].arr, env['$P'], env['$S'], env[R['out']]
        k, a, b = _q(), _q('a'), _q('b')
        st['final'] = dict(P=P, S=S, out=out, pc=list(ex.pc))
        return [('post', prefix_rec(P, pr, L), 'ghost P is the prefix-sum array of probs on [0, length]'),
                ('post', z3.And(z3.Select(S, L) == 0, z3.ForAll([k], z3.Implies(z3.And(k >= 1, k <= L), z3.Select(S, k - 1) == z3.Select(S, k) + z3.Select(pr, k - 1)))),
                 'ghost S is the suffix-sum array of probs on [0, length]'),
                ('post', z3.ForAll([a, b], z3.Implies(z3.And(a >= 0, a <= b, b <= L, a < L, b >= 1), out.at(a, b) == z3.Select(P, a) + z3.Select(S, b))),
                 'out(a, b) = P(a) + S(b) for 0 <= a <= b <= length, a < length, 1 <= b (the cells (length, length) and (0, 0) hold other values: from_left[length] and from_right[0] are never computed)'),
                ('frame', z3.And(env[R['probs']].arr == st['probs'].arr, env[R['length']] == st['length']), 'probs and length are not modified')]
    loops = [LoopSpec(inv1, variant=lambda env: st['length'] - 1 - env[R['i1']], ghost=ghost1, ghost_names=('$P', '$S'),
                      what='from_left[0..i] are prefix sums, from_right[length-i..length] are suffix sums'),
             LoopSpec(inv2, variant=lambda env: st['length'] + 1 - env[R['i2']], pre_ghost=pre_ghost2, what='rows < i of the upper triangle are filled'),
             LoopSpec(inv3, variant=lambda env: st['length'] + 1 - env[R['j3']], what='rows < i and columns < j of row i are filled')]
    recs = verify_function(ast, fn, 'parsing::compute_outside_probabilities', setup, post, loops, ('C01',))
    # ---- induction lemma: S(j) = P(length) - P(j) for 0 <= j <= length (downward induction on j; base j = length; step j -> j - 1)
    L = z3.Int('length')
    P, S, pr = z3.Const('P', ARR), z3.Const('S', ARR), z3.Const('probs', ARR)
    k, j = _q(), z3.Int('j')
    hyp = [L >= 1, prefix_rec(P, pr, L), z3.Select(S, L) == 0,
           z3.ForAll([k], z3.Implies(z3.And(k >= 1, k <= L), z3.Select(S, k - 1) == z3.Select(S, k) + z3.Select(pr, k - 1)))]
    claim = lambda x: z3.Select(S, x) == z3.Select(P, L) - z3.Select(P, x)
    recs.append(dict(kind='lemma-base', line=line_of(fn), goal=claim(L), pc=hyp, facts=[], props=('C01',), path=0, site='suffix = total - prefix',
                     what='parsing::compute_outside_probabilities: S(length) = P(length) - P(length)'))
    recs.append(dict(kind='lemma-step', line=line_of(fn), goal=claim(j - 1), pc=hyp + [j >= 1, j <= L, claim(j)], facts=[], props=('C01',), path=0, site='suffix = total - prefix',
                     what='parsing::compute_outside_probabilities: S(j) = P(length) - P(j) implies S(j-1) = P(length) - P(j-1) (induction step; the induction principle itself is the meta-rule)'))
    return recs


# ---------------------------------------------------------------------------- parsing::chart
class USet(Obj):
    """std::unordered_set<category_id>: membership array"""
    def __init__(self, ids):
        Obj.__init__(self, 'uset', dict(ids=ids))


class IList(Obj):
    """std::list<cell_item>: n0 old elements (opaque) behind the elements pushed to the front during this call"""
    def __init__(self, n0):
        Obj.__init__(self, 'ilist', dict(n0=n0))
        self.new = []


class CellObj(Obj):
    def __init__(self, ex, name, idx=None):
        Obj.__init__(self, 'cell', dict(seen=ex.fresh(name + '.seen', B_), category_ids=USet(ex.fresh(name + '.category_ids', BARR)),
                                        items=IList(ex.fresh(name + '.size', I_))), name)
        self.idx = idx
        self.f0 = dict(seen=self.f['seen'], ids=self.f['category_ids'].f['ids'], n0=self.f['items'].f['n0'])
        ex.assume(self.f0['n0'] >= 0)


class CellArray:
    """chart_: the cells are created when the body names them (one per distinct index term)"""
    def __init__(self):
        self.cells = {}


class PtrVecArray:
    def __init__(self, which, log):
        self.which, self.log = which, log


class PtrVecRef:
    def __init__(self, arr, idx):
        self.arr, self.idx = arr, idx


def chart_methods(ast):
    out = {}

    def walk(n, owner):
        if isinstance(n, dict):
            if n.get('kind') == 'CXXRecordDecl' and n.get('name'):
                owner = n['name']
            if n.get('kind') == 'CXXMethodDecl' and any(x.get('kind') == 'CompoundStmt' for x in n.get('inner', [])):
                params = [c for c in n.get('inner', []) if c.get('kind') == 'ParmVarDecl']
                key = (owner, n.get('name'))
                if n.get('name') == 'operator()' and not (len(params) == 2 and all('unsigned' in p['type']['qualType'] for p in params)):
                    key = None                 # the comparison lambda of cell::sort
                if key and key not in out:
                    out[key] = n
            for c in n.get('inner', []) or []:
                walk(c, owner)
    walk(ast.record('chart'), None)
    return out


def item_eq(a, b, fields):
    cs = []
    for n, t in fields:
        x, y = a.f.get(n), b.f.get(n)
        if isinstance(x, Ptr) or isinstance(y, Ptr) or x is None or y is None:
            cs.append(z3.BoolVal((x is y) or (isinstance(x, Ptr) and isinstance(y, Ptr) and x.target is y.target)))
        else:
            cs.append(x == y)
    return z3.And(cs)


def chart_records(ast):
    from contracts.parsing_h import new_item
    ms = chart_methods(ast)
    for key in (('cell', 'contains'), ('cell', 'emplace'), ('cell', 'size'), ('chart', 'operator()'), ('chart', 'update'), ('chart', 'size')):
        if key not in ms:
            raise CheckerError(f'parsing::chart: method {key[0]}::{key[1]} not found')
    fields = ast.fields('cell_item')
    recs = []

    def sym_item(ex, name):
        it = new_item(ex, name, fields)
        it.f['left'], it.f['right'] = Ptr(Item({}, name + '.left')), Ptr(Item({}, name + '.right'))
        return it

    # ---- STL contracts used by the cell methods (assumed): unordered_set::count / emplace, list::push_front / front / size
    def stl(ex, obj, name, args, node):
        if isinstance(obj, USet):
            if name == 'count':
                return z3.If(z3.Select(obj.f['ids'], args[0]), z3.IntVal(1), z3.IntVal(0))
            if name in ('emplace', 'insert'):
                obj.f['ids'] = z3.Store(obj.f['ids'], args[0], z3.BoolVal(True))
                return None
            if name == 'find':
                return Rec('iterator', dict(valid=z3.Select(obj.f['ids'], args[0])))       # end() iff the key is absent
            if name in ('end', 'cend'):
                return Rec('iterator', dict(valid=z3.BoolVal(False)))
        if isinstance(obj, IList):
            if name == 'push_front':
                src = args[0]
                obj.new.insert(0, Item(dict(src.f), 'copy@front'))
                return None
            if name == 'front':
                if obj.new:
                    return obj.new[0]
                ex.oblige('pre', obj.f['n0'] > 0, node, 'front() of a non-empty list')
                return sym_item(ex, 'old-front')
            if name == 'size':
                return obj.f['n0'] + len(obj.new)
            if name in ('begin', 'cbegin'):
                it = Rec('list_iter', {})
                it.lst, it.ver, it.elem = obj, len(obj.new), (obj.new[0] if obj.new else None)
                return it
            if name in ('insert', 'emplace') and len(args) == 2 and isinstance(args[0], Rec) and args[0].kind == 'list_iter':
                # insertion before begin() = push_front; any other position is outside the model of the list (front + opaque older elements)
                if args[0].lst is not obj or args[0].ver != len(obj.new):
                    raise CheckerError('list::insert at a position other than the current begin()')
                obj.new.insert(0, Item(dict(args[1].f), 'copy@front'))
                it = Rec('list_iter', {})
                it.lst, it.ver, it.elem = obj, len(obj.new), obj.new[0]
                return it
        return NotImplemented

    # ---- cell::contains
    st = {}

    def setup_c(ex, m):
        cell = CellObj(ex, 'this')
        cat = ex.fresh('cat', I_)
        st.update(cell=cell, cat=cat)
        return {'this': Ptr(cell), 'cat': cat}
    recs += verify_function(ast, ms[('cell', 'contains')], 'parsing::chart::cell::contains', setup_c,
                            lambda ex, env, ret: [('post', ex.truth(ret) == z3.Select(st['cell'].f0['ids'], st['cat']), 'true iff the category is in category_ids'),
                                                  ('frame', cell_unchanged(st['cell']), 'the cell is not modified')],
                            [], ('C02', 'C10'), hooks=dict(method=stl))

    # ---- cell::emplace
    def setup_e(ex, m):
        cell = CellObj(ex, 'this')
        item = sym_item(ex, 'item')
        st.update(cell=cell, item=item)
        return {'this': Ptr(cell), 'item': item}

    def post_e(ex, env, ret):
        cell, item = st['cell'], st['item']
        lst = cell.f['items']
        ok = isinstance(ret, Item) and len(lst.new) == 1 and ret is lst.new[0]
        return [('post', z3.BoolVal(ok), 'exactly one element is added, at the front of the list, and the reference returned is that element'),
                ('post', item_eq(ret, item, fields) if ok else z3.BoolVal(False), 'the stored element is a field-by-field copy of the argument'),
                ('post', cell.f['category_ids'].f['ids'] == z3.Store(cell.f0['ids'], item.f['cat'], z3.BoolVal(True)), 'category_ids gains exactly the category of the item'),
                ('frame', z3.And(cell.f['seen'] == cell.f0['seen'], lst.f['n0'] == cell.f0['n0']), 'the seen flag and the older elements are untouched')]
    recs += verify_function(ast, ms[('cell', 'emplace')], 'parsing::chart::cell::emplace', setup_e, post_e, [], ('C02', 'C10'), hooks=dict(method=stl, ret_ref=True))

    # ---- cell::sort: the list is sorted with a comparator that means `the first argument has the higher score` (list::sort(cmp) assumed: a permutation
    # ordered by cmp), nothing else of the cell changes
    def setup_sort(ex, m):
        cell = CellObj(ex, 'this')
        st.update(cell=cell, sorts=[])
        return {'this': Ptr(cell)}

    def method_sort(ex, obj, name, args, node):
        if isinstance(obj, IList) and name == 'sort' and len(args) == 1:
            st['sorts'].append(args[0].v if isinstance(args[0], AddrOf) else args[0])
            return None
        return stl(ex, obj, name, args, node)

    def global_sort(ex, name, node):
        if ('cell', name) in ms:
            return Abstract('function', fn=ms[('cell', name)])
        return NotImplemented

    def apply_comparator(ex, cmp, a, b):
        if isinstance(cmp, Abstract) and cmp.kind == 'lambda':
            meth = [n for n in _walk(cmp.node) if n.get('kind') == 'CXXMethodDecl' and n.get('name') == 'operator()']
            bodies = [c for c in cmp.node.get('inner', []) if c.get('kind') == 'CompoundStmt']
            if not meth or not bodies:
                raise CheckerError('comparator lambda of cell::sort has no analysable body')
            params, body = [c['name'] for c in meth[0].get('inner', []) if c.get('kind') == 'ParmVarDecl'], bodies[-1]
        elif isinstance(cmp, Abstract) and cmp.kind == 'function':
            params, body = [c['name'] for c in cmp.fn.get('inner', []) if c.get('kind') == 'ParmVarDecl'], body_of(cmp.fn)
        else:
            raise CheckerError(f'comparator of cell::sort is {cmp!r}: not a lambda or a function of the cell')
        if len(params) != 2:
            raise CheckerError('comparator of cell::sort does not take two items')
        try:
            ex.run(body, {params[0]: a, params[1]: b})
        except _Return as r:
            return r.v
        raise CheckerError('comparator of cell::sort returns nothing')

    def post_sort(ex, env, ret):
        cell = st['cell']
        lst = cell.f['items']
        ok = len(st['sorts']) == 1 and isinstance(lst, IList) and not lst.new
        out = [('post', z3.BoolVal(bool(ok)), 'the item list is sorted exactly once and nothing is inserted')]
        if ok:
            a, b = sym_item(ex, 'first'), sym_item(ex, 'second')
            r = apply_comparator(ex, st['sorts'][0], a, b)
            out.append(('post', ex.truth(r) == (a.f['in_score'] + a.f['out_score'] > b.f['in_score'] + b.f['out_score']),
                        'the comparator orders an item before another iff its score (inside + outside) is strictly higher: best first'))
        out.append(('frame', z3.And(cell.f['seen'] == cell.f0['seen'], cell.f['category_ids'].f['ids'] == cell.f0['ids'], lst.f['n0'] == cell.f0['n0']),
                    'seen flag, category set and number of items are untouched'))
        return out
    if ('cell', 'sort') not in ms:
        raise CheckerError('parsing::chart: method cell::sort not found')
    recs += verify_function(ast, ms[('cell', 'sort')], 'parsing::chart::cell::sort', setup_sort, post_sort, [], ('C10',), hooks=dict(method=method_sort, global_ref=global_sort))

    # ---- cell::size
    recs += verify_function(ast, ms[('cell', 'size')], 'parsing::chart::cell::size', setup_c,
                            lambda ex, env, ret: [('post', ret == st['cell'].f0['n0'], 'number of items in the cell'), ('frame', cell_unchanged(st['cell']), 'the cell is not modified')],
                            [], ('C10',), hooks=dict(method=stl))

    # ---- chart: this object
    def chart_this(ex):
        log = []
        L = ex.fresh('length_', I_)
        this = Obj('chart', dict(length_=L, nbest_=ex.fresh('nbest_', B_), chart_=CellArray(), ending_cells_=PtrVecArray('ending', log),
                                 starting_cells_=PtrVecArray('starting', log)), 'this')
        ex.assume(z3.And(L >= 1, L * L < U32))
        return this, L, log

    def subscript(ex, base, idx, node, want_ref):
        if isinstance(base, CellArray):
            key = z3.simplify(idx).sexpr()
            if key not in base.cells:
                if base.cells:
                    raise CheckerError('a chart method names two cells: aliasing is outside the model')
                base.cells[key] = CellObj(ex, 'cell', idx)
                ex.oblige('bounds', z3.And(idx >= 0, idx < st['L'] * st['L']), node, 'chart_[index] inside the length_ * length_ cells')
            return base.cells[key]
        if isinstance(base, PtrVecArray):
            ex.oblige('bounds', z3.And(idx >= 0, idx <= st['L']), node, f'{base.which}_cells_[index] inside the length_ + 1 lists')
            return PtrVecRef(base, idx)
        return NotImplemented

    def inline_own(ex, obj, name, args, node):
        """a call of another method of the class under verification that has no contract here: its body is executed in place"""
        key = ('cell' if isinstance(obj, CellObj) else 'chart', name)
        if key not in ms or getattr(ex, '_inline_depth', 0) > 3:
            return NotImplemented
        fn_ = ms[key]
        params = [c['name'] for c in fn_.get('inner', []) if c.get('kind') == 'ParmVarDecl']
        env2 = {'this': Ptr(obj)}
        env2.update(dict(zip(params, args)))
        ex._inline_depth = getattr(ex, '_inline_depth', 0) + 1
        try:
            ex.run(body_of(fn_), env2)
            return None
        except _Return as r:
            return r.v
        finally:
            ex._inline_depth -= 1

    def chart_method(ex, obj, name, args, node):
        if isinstance(obj, Obj) and obj.kind == 'chart':
            r = inline_own(ex, obj, name, args, node)
            if r is not NotImplemented:
                return r
        if isinstance(obj, PtrVecRef) and name == 'push_back':
            p = args[0]
            obj.arr.log.append((obj.arr.which, obj.idx, p.target if isinstance(p, Ptr) else p, list(ex.pc)))
            return None
        return stl(ex, obj, name, args, node)

    # ---- chart::operator()
    def setup_o(ex, m):
        this, L, log = chart_this(ex)
        r, c = ex.fresh('row', I_), ex.fresh('column', I_)
        st.update(this=this, L=L, log=log, r=r, c=c)
        # precondition (obliged at the call sites in parse_sentence): the span (row, row + column + 1) lies inside the sentence
        ex.assume(z3.And(r >= 0, c >= 0, r + c + 1 <= L))
        ex.assume(z3.And(r * L + c >= 0, r * L + c < L * L))          # lemma-index-inside at (row, column), rows = cols = length_
        return {'this': Ptr(this), 'row': r, 'column': c}

    def post_o(ex, env, ret):
        this, L, log, r, c = st['this'], st['L'], st['log'], st['r'], st['c']
        cells = list(this.f['chart_'].cells.values())
        ok = len(cells) == 1 and ret is cells[0]
        if not ok:
            return [('post', z3.BoolVal(False), 'returns the cell chart_[row * length_ + column]')]
        cell = cells[0]
        seen0 = cell.f0['seen']
        reg = [(w, i, t) for (w, i, t, pc) in log]
        want_new = len(reg) == 2 and sorted(w for w, _, _ in reg) == ['ending', 'starting'] and all(t is cell for _, _, t in reg)
        goals = [('post', cell.idx == r * L + c, 'returns the cell chart_[row * length_ + column]'),
                 ('post', ex.truth(cell.f['seen']), 'the cell is marked seen'),
                 ('post', z3.If(seen0, z3.BoolVal(len(reg) == 0), z3.BoolVal(want_new)),
                  'a cell seen before is not registered again; a new cell is appended once to one ending list and one starting list'),
                 ('frame', z3.And(cell.f['category_ids'].f['ids'] == cell.f0['ids'], cell.f['items'].f['n0'] == cell.f0['n0'], z3.BoolVal(not cell.f['items'].new)),
                  'items and category_ids of the cell are untouched')]
        for w, i, t in reg:
            goals.append(('post', i == (r + c + 1 if w == 'ending' else r), f'the {w} list the cell is appended to is the one of its {"end" if w == "ending" else "start"} position'))
        return goals
    recs += verify_function(ast, ms[('chart', 'operator()')], 'parsing::chart::operator()', setup_o, post_o, [], ('C02', 'C10'),
                            hooks=dict(method=chart_method, subscript=subscript, ret_ref=True))

    # ---- chart::update (against the contracts of operator(), contains, emplace)
    def setup_u(ex, m):
        this, L, log = chart_this(ex)
        r, c = ex.fresh('row', I_), ex.fresh('column', I_)
        item = sym_item(ex, 'item')
        st.update(this=this, L=L, log=log, r=r, c=c, item=item, cell=None)
        ex.assume(z3.And(r >= 0, c >= 0, r + c + 1 <= L))
        return {'this': Ptr(this), 'row': r, 'column': c, 'item': item}

    def op_u(ex, opname, args, node, want_ref):
        if opname == 'operator()' and isinstance(args[0], Obj) and args[0].kind == 'chart':
            r, c = args[1], args[2]
            ex.oblige('pre', z3.And(r >= 0, c >= 0, r + c + 1 <= st['L']), node, 'precondition of chart::operator(): the span lies inside the sentence')
            if st['cell'] is not None:
                raise CheckerError('chart::update names two cells')
            cell = CellObj(ex, 'cell', r * st['L'] + c)
            cell.f['seen'] = z3.BoolVal(True)           # contract of operator(): marked seen (and registered once)
            st['cell'] = cell
            return cell
        return NotImplemented

    def method_u(ex, obj, name, args, node):
        if isinstance(obj, CellObj):
            if name == 'contains':
                return z3.Select(obj.f['category_ids'].f['ids'], args[0])
            if name == 'emplace':
                src = args[0]
                new = Item(dict(src.f), 'copy@front')
                obj.f['items'].new.insert(0, new)
                obj.f['category_ids'].f['ids'] = z3.Store(obj.f['category_ids'].f['ids'], src.f['cat'], z3.BoolVal(True))
                return new
            if name in ('size', 'begin', 'end'):
                return NotImplemented
            # any other method of the cell called from update: nothing is known about it - the cell may have been changed in any way
            # (stored items are relied upon by the search: their fields and positions never change once stored)
            obj.f['category_ids'].f['ids'] = ex.fresh('ids_after_' + name, BARR)
            obj.f['items'].f['n0'] = ex.fresh('size_after_' + name, I_)
            obj.tampered = name
            return Ptr(None) if ex.branch(ex.fresh(name + '_returns_null', B_)) else Ptr(sym_item(ex, name + '_result'))
        return NotImplemented

    def post_u(ex, env, ret):
        this, item, cell = st['this'], st['item'], st['cell']
        if cell is None:
            return [('post', z3.BoolVal(False), 'update goes through the cell (row, column)')]
        nb = this.f['nbest_']
        had = z3.Select(cell.f0['ids'], item.f['cat'])
        lst = cell.f['items']
        if isinstance(ret, Ptr) and ret.target is None:
            return [('post', z3.And(z3.Not(nb), had), 'nullptr is returned only in 1-best mode for a category the cell already holds (in n-best mode every item is kept)'),
                    ('frame', z3.And(cell.f['category_ids'].f['ids'] == cell.f0['ids'], lst.f['n0'] == cell.f0['n0'], z3.BoolVal(not lst.new and getattr(cell, 'tampered', None) is None)),
                     'a rejected item leaves the cell as it was: the items already stored are never modified or replaced (the search relies on their scores, heads and children)')]
        ok = isinstance(ret, Ptr) and isinstance(ret.target, Item) and len(lst.new) == 1 and ret.target is lst.new[0]
        return [('frame', z3.BoolVal(getattr(cell, 'tampered', None) is None), 'the items already stored are never modified or replaced'),
                ('post', z3.Not(z3.And(z3.Not(nb), had)), 'an item is stored unless (1-best mode and the cell already holds its category): at most one item per category and cell in 1-best mode'),
                ('post', z3.BoolVal(ok), 'exactly one element is added to the cell and the pointer returned is that element'),
                ('post', item_eq(ret.target, item, fields) if ok else z3.BoolVal(False), 'the stored element is a field-by-field copy of the argument (category, children, scores, span, head, rule index)'),
                ('post', cell.f['category_ids'].f['ids'] == z3.Store(cell.f0['ids'], item.f['cat'], z3.BoolVal(True)), 'category_ids gains exactly the category of the item'),
                ('post', cell.idx == st['r'] * st['L'] + st['c'], 'the cell is (row, column)')]
    def range_elem(ex, rng, node):
        if isinstance(rng, (CellObj, IList)):
            return sym_item(ex, 'element')            # an arbitrary item the cell already holds
        return NotImplemented
    recs += verify_function(ast, ms[('chart', 'update')], 'parsing::chart::update', setup_u, post_u, [], ('C02', 'C10', 'C09', 'C01'),
                            hooks=dict(method=method_u, operator=op_u, range_elem=range_elem))

    # ---- chart::size: number of items of the full-span cell (row 0, column length_ - 1)
    def setup_s(ex, m):
        this, L, log = chart_this(ex)
        st.update(this=this, L=L, log=log)
        return {'this': Ptr(this)}

    def method_s(ex, obj, name, args, node):
        if isinstance(obj, CellObj) and name == 'size':
            return obj.f['items'].f['n0']
        if isinstance(obj, Obj) and obj.kind == 'chart':
            return inline_own(ex, obj, name, args, node)
        return NotImplemented

    def post_s(ex, env, ret):
        cells = list(st['this'].f['chart_'].cells.values())
        if len(cells) != 1:
            return [('post', z3.BoolVal(False), 'size() reads one cell')]
        return [('post', z3.And(cells[0].idx == 0 * st['L'] + (st['L'] - 1), ret == cells[0].f0['n0']), 'number of items in the cell (row 0, column length_ - 1): the full-span items'),
                ('frame', cell_unchanged(cells[0]), 'the cell is not modified')]
    recs += verify_function(ast, ms[('chart', 'size')], 'parsing::chart::size', setup_s, post_s, [], ('C10',), hooks=dict(method=method_s, subscript=subscript))
    return recs


def cell_unchanged(cell):
    return z3.And(cell.f['seen'] == cell.f0['seen'], cell.f['category_ids'].f['ids'] == cell.f0['ids'], cell.f['items'].f['n0'] == cell.f0['n0'],
                  z3.BoolVal(not cell.f['items'].new))


# ---------------------------------------------------------------------------- parse_sentence: the score setup (from the score vectors to the two compute_outside calls)
def setup_records(ast):
    """establishes, from the code, the facts the loop proofs of contracts/parsing_h.py take as the meaning of their ghost symbols:
       BT(t) = best_tag_scores[t] >= tag(t, c), attained;  BD(t) = best_dep_scores[t] >= dep(t, h);  Ptag / Pdep = prefix sums of BT / BD;
       tag_out / dep_out (a, b) = P(a) + P(length) - P(b) on the range read;  dep_leaf_out_score = Pdep(length);
       queue t holds exactly the pairs (tag(t, c), c), c < num_tags."""
    from contracts.parsing_h import find_loops, parse_sentence_roles
    RN = parse_sentence_roles(ast)          # the variables of parse_sentence by role (type / initialiser / parameter position), not by spelling
    fn = ast.function('parse_sentence')
    body, fors = find_loops(fn)
    stmts = body['inner']
    first = None
    for i, s in enumerate(stmts):
        if s.get('kind') == 'DeclStmt' and any(d.get('name') == RN['best_tag_scores'] for d in s.get('inner', [])):
            first = i
    if first is None:
        raise CheckerError('parse_sentence: declaration of the best-tag-score vector not found')
    inner_loops = [n for n in _walk(fors[0]) if n.get('kind') in ('ForStmt', 'WhileStmt') and n is not fors[0]]
    if len(inner_loops) != 1:
        raise CheckerError(f'parse_sentence: the score setup loop contains {len(inner_loops)} inner loops (expected the one over the categories)')
    TOK, CATV = counter_of(fors[0]), counter_of(inner_loops[0])
    last = stmts.index(fors[1])
    region = stmts[first:last]
    if fors[0] not in region:
        raise CheckerError('parse_sentence: the score setup loop is not between best_tag_scores and the leaf loop')
    st = {}
    LOW = z3.Real('float_lowest')

    def setup(ex, m):
        L, NT = ex.fresh('length', I_), ex.fresh('num_tags', I_)
        TAG = Mat2(ex.fresh('tag_scores', ARR2), L, NT, 'tag_in_scores')
        DEP = Mat2(ex.fresh('dep_scores', ARR2), L, L + 1, 'dep_in_scores')
        a, b = _q('a'), _q('b')
        # precondition of parse_sentence: a non-empty sentence, a non-empty tag inventory, finite (non-NaN, non-infinite) scores
        ex.assume(z3.And(L >= 1, L < 2 ** 15, NT >= 1, NT < 2 ** 15))
        ex.assume(z3.ForAll([a, b], DEP.at(a, b) >= LOW))
        cfg = Obj('config', dict(num_tags=NT), 'config')
        st.update(L=L, NT=NT, TAG=TAG, DEP=DEP, calls=[], last_top=None, ex=ex)
        env0 = {RN['length']: L, RN['config']: Ptr(cfg), RN['tag_scores']: 'tag_scores', RN['dep_scores']: 'dep_scores', '$PD': z3.Store(ex.fresh('ghostPD', ARR), 0, z3.RealVal(0)),
                '$TC': ex.fresh('ghostTC', z3.ArraySort(I_, I_))}
        st['env0'] = env0
        return env0

    def declare(ex, name, ty, init, env):
        t = ty.replace('const ', '')
        if t == 'parsing::matrix':
            c = strip_casts(init)
            args = [ex.ev(a_, env) for a_ in c.get('inner', []) if 'kind' in a_]
            if len(args) == 2:
                return Mat2(ex.fresh(name, ARR2), args[0], args[1], name)
            if len(args) == 3 and args[0] == 'tag_scores':
                ex.oblige('ctor', z3.And(args[1] == st['L'], args[2] == st['NT']), init, 'tag_in_scores views tag_scores as length x num_tags')
                return st['TAG']
            if len(args) == 3 and args[0] == 'dep_scores':
                ex.oblige('ctor', z3.And(args[1] == st['L'], args[2] == st['L'] + 1), init, 'dep_in_scores views dep_scores as length x (length + 1)')
                return st['DEP']
            raise CheckerError(f'parsing::matrix {name} constructed from unexpected arguments')
        if name == RN['agenda'] or t.startswith('std::priority_queue<parsing::cell_item>'):
            return Abstract('agenda')
        if name == RN['scored_cats'] or t.startswith('std::vector<std::priority_queue<scored_category>'):
            c = strip_casts(init)
            args = [ex.ev(a_, env) for a_ in c.get('inner', []) if 'kind' in a_ and a_['kind'] != 'CXXDefaultArgExpr']
            return PQVec(z3.K(I_, z3.K(I_, z3.BoolVal(False))), ex.fresh('pq_score', ARR2), args[0])
        return NotImplemented

    def method(ex, obj, name, args, node):
        if isinstance(obj, Mat2) and name == 'argmax':
            row = args[0]
            a, b, k = _q('a'), _q('b'), _q()
            # contract of parsing::matrix::argmax (proved above)
            ex.oblige('pre', z3.And(row >= 0, row < obj.rows, obj.cols >= 1, obj.rows * obj.cols < 2 ** 31), node, 'precondition of matrix::argmax: row inside, at least one column')
            ex.oblige('pre', z3.ForAll([a, b], obj.at(a, b) >= LOW), node, 'precondition of matrix::argmax: finite scores')
            r = ex.fresh('max_id', I_)
            ex.assume(z3.And(r >= 0, r < obj.cols, z3.ForAll([k], z3.Implies(z3.And(k >= 0, k < obj.cols), obj.at(row, k) <= obj.at(row, r)))))
            return r
        return NotImplemented

    def call(ex, name, args, node, env):
        if name == 'compute_outside_probabilities':
            probs, length, out = args
            if isinstance(out, AddrOf):
                out = out.v
            ex.oblige('pre', z3.And(length >= 1, length < 2 ** 30, probs.size >= length, out.rows >= length + 1, out.cols >= length + 1), node,
                      'precondition of compute_outside_probabilities')
            out.arr = ex.fresh(out.name, ARR2)
            P = ex.fresh('P_' + probs.name, ARR)
            # contract (posts + induction lemma of compute_outside_probabilities, proved above)
            ex.assume(prefix_rec(P, probs.arr, length))
            ex.assume(outside_contract(out, P, length))
            st['calls'].append((probs, out, P))
            return None
        return NotImplemented

    def queues_full(env, T, upto=None):
        """queues of the tokens < T are complete; (row T holds the categories < upto); later rows are empty"""
        pqs, NT, TAG = env[RN['scored_cats']], st['NT'], st['TAG']
        t, c = _q('t'), _q('c')
        has = lambda t_, c_: z3.Select(z3.Select(pqs.has, t_), c_)
        sc = lambda t_, c_: z3.Select(z3.Select(pqs.score, t_), c_)
        parts = [z3.ForAll([t, c], z3.Implies(z3.And(t >= 0, t < T), z3.And(has(t, c) == z3.And(c >= 0, c < NT), z3.Implies(z3.And(c >= 0, c < NT), sc(t, c) == TAG.at(t, c)))))]
        if upto is None:
            parts.append(z3.ForAll([t, c], z3.Implies(z3.And(t >= T, t < st['L']), z3.Not(has(t, c)))))
        else:
            parts.append(z3.ForAll([c], z3.And(has(T, c) == z3.And(c >= 0, c < upto), z3.Implies(z3.And(c >= 0, c < upto), sc(T, c) == TAG.at(T, c)))))
            parts.append(z3.ForAll([t, c], z3.Implies(z3.And(t > T, t < st['L']), z3.Not(has(t, c)))))
        return z3.And(parts)

    def best_facts(env, T):
        L, NT, TAG, DEP = st['L'], st['NT'], st['TAG'], st['DEP']
        BT, BD, PD, TC = env[RN['best_tag_scores']].arr, env[RN['best_dep_scores']].arr, env['$PD'], env['$TC']
        t, c, h, k = _q('t'), _q('c'), _q('h'), _q()
        return z3.And(
            z3.ForAll([t, c], z3.Implies(z3.And(t >= 0, t < T, c >= 0, c < NT), z3.Select(BT, t) >= TAG.at(t, c))),
            z3.ForAll([t], z3.Implies(z3.And(t >= 0, t < T), z3.And(z3.Select(TC, t) >= 0, z3.Select(TC, t) < NT, z3.Select(BT, t) == TAG.at(t, z3.Select(TC, t))))),
            z3.ForAll([t, h], z3.Implies(z3.And(t >= 0, t < T, h >= 0, h <= L), z3.Select(BD, t) >= DEP.at(t, h))),
            z3.Select(PD, 0) == 0,
            z3.ForAll([k], z3.Implies(z3.And(k >= 0, k < T), z3.Select(PD, k + 1) == z3.Select(PD, k) + z3.Select(BD, k))),
            env[RN['dep_leaf_out_score']] == z3.Select(PD, T))

    def inv_outer(env):
        T = env[TOK]
        return z3.And(T >= 0, T <= st['L'], queues_full(env, T), best_facts(env, T))

    def inv_inner(env):
        T, C = env[TOK], env[CATV]
        return z3.And(T >= 0, T < st['L'], C >= 0, C <= st['NT'], queues_full(env, T, C))

    def ghost_outer(env):
        T = env[TOK]
        env['$PD'] = z3.Store(env['$PD'], T + 1, z3.Select(env['$PD'], T) + z3.Select(env[RN['best_dep_scores']].arr, T))
        # the witness of "best_tag_scores[t] is attained": the category top() returned in this iteration (unknown if the body did not ask the queue)
        env['$TC'] = z3.Store(env['$TC'], T, st['last_top'] if st['last_top'] is not None else st['ex'].fresh('no_top', I_))
        st['last_top'] = None

    def method2(ex, obj, name, args, node):
        r = method(ex, obj, name, args, node)
        return r

    m_holder = {}

    def post(ex, env, ret):
        L, NT, TAG, DEP = st['L'], st['NT'], st['TAG'], st['DEP']
        BT, BD, PD = env[RN['best_tag_scores']], env[RN['best_dep_scores']], env['$PD']
        goals = [('setup-post', z3.And(queues_full(env, L), best_facts(env, L)),
                  'queue t = {(tag(t, c), c) : c < num_tags}; best_tag_scores[t] = max_c tag(t, c); best_dep_scores[t] >= dep(t, h) for h <= length; dep_leaf_out_score = sum of best_dep_scores'),
                 ('setup-post', z3.And(BT.size == L, BD.size == L), 'best_tag_scores / best_dep_scores have one entry per token')]
        calls = st['calls']
        ok = len(calls) == 2 and calls[0][0] is BT and calls[0][1] is env.get(RN['tag_out_scores']) and calls[1][0] is BD and calls[1][1] is env.get(RN['dep_out_scores'])
        goals.append(('setup-post', z3.BoolVal(ok), 'tag_out_scores is computed from best_tag_scores and dep_out_scores from best_dep_scores'))
        if ok:
            k = _q()
            Pt, Pd = calls[0][2], calls[1][2]
            goals.append(('setup-post', z3.And(prefix_rec(Pt, BT.arr, L), outside_contract(env[RN['tag_out_scores']], Pt, L)), 'tag_out_scores(a, b) = Ptag(a) + Ptag(length) - Ptag(b), Ptag the prefix sums of best_tag_scores'))
            # Pd and the ghost PD of the loop obey the same recurrence: equal on [0, length] (lemma prefix-unique below)
            goals.append(('setup-post', z3.Implies(z3.ForAll([k], z3.Implies(z3.And(k >= 0, k <= L), z3.Select(Pd, k) == z3.Select(PD, k))),
                                                   z3.And(prefix_rec(PD, BD.arr, L), outside_contract(env[RN['dep_out_scores']], PD, L), env[RN['dep_leaf_out_score']] == z3.Select(PD, L))),
                          'dep_out_scores(a, b) = Pdep(a) + Pdep(length) - Pdep(b) and dep_leaf_out_score = Pdep(length), Pdep the prefix sums of best_dep_scores'))
        return goals

    class _M(dict):
        pass
    hooks = dict(declare=declare, method=method, call=call)
    loops = [LoopSpec(inv_outer, variant=lambda env: st['L'] - env[TOK], ghost=ghost_outer, ghost_names=('$PD', '$TC'),
                      what='the tokens before token_id have their queue, best tag score, best head score and prefix sum'),
             LoopSpec(inv_inner, variant=lambda env: st['NT'] - env[CATV], what='the queue of token_id holds the categories before category_id')]

    # the category returned by top() is needed by the ghost statement of the outer loop: remember it
    orig_method = HModel.method

    def method_with_top(self, ex, obj, name, args, node):
        r = orig_method(self, ex, obj, name, args, node)
        if isinstance(obj, PQRef) and name == 'top':
            st['last_top'] = r.f['second']
        return r
    HModel.method = method_with_top
    try:
        recs = verify_function(ast, fn, 'parse_sentence (score setup)', setup, post, loops, ('C01', 'C09', 'C16'), hooks=hooks, region=lambda b: region)
    finally:
        HModel.method = orig_method
    # ---- lemma prefix-unique: two arrays with the same prefix recurrence agree on [0, n]
    n, j = z3.Int('n'), z3.Int('j')
    P, Q, pr = z3.Const('P', ARR), z3.Const('Q', ARR), z3.Const('probs', ARR)
    hyp = [n >= 0, prefix_rec(P, pr, n), prefix_rec(Q, pr, n)]
    recs.append(dict(kind='lemma-base', line=line_of(fn), goal=z3.Select(P, 0) == z3.Select(Q, 0), pc=hyp, facts=[], props=('C01',), path=0, site='prefix sums are unique',
                     what='parse_sentence (score setup): two prefix-sum arrays of the same vector agree at 0'))
    recs.append(dict(kind='lemma-step', line=line_of(fn), goal=z3.Select(P, j + 1) == z3.Select(Q, j + 1), pc=hyp + [j >= 0, j < n, z3.Select(P, j) == z3.Select(Q, j)], facts=[],
                     props=('C01',), path=0, site='prefix sums are unique', what='parse_sentence (score setup): ... and at j + 1 if they agree at j'))
    return recs


def helper_records(ast):
    """all obligations of this file"""
    return argmax_records(ast) + matrix_records(ast) + outside_records(ast) + chart_records(ast) + setup_records(ast)
