#!/bin/bash
# tools/seed_regress.sh [seed dirs...]: every stored seeded change must still be reported (exit 1 with a VIOLATION line) by the check of its property,
# run against a scratch copy of /repo carrying the patch.  Prints one line per seed.
cd /verif
SEEDS=${@:-$(ls seeded | grep -E '^C[0-9]+-[0-9]+$')}
for SD in $SEEDS; do
  P=${SD%%-*}
  S=$(mktemp -d /tmp/seedreg.XXXXXX)
  cp -r /repo/. $S/; rm -rf $S/.git
  ( cd $S && patch -p1 -s < /verif/seeded/$SD/patch.diff ) || { echo "$SD PATCH-DOES-NOT-APPLY"; rm -rf $S; continue; }
  VERIF_REPO=$S VERIF_EVIDENCE_DIR=$S/ev timeout 2400 ./check $P > $S/out.txt 2>&1; rc=$?
  nv=$(grep -c '^VIOLATION' $S/out.txt)
  echo "$SD rc=$rc violations_lines=$nv $(grep -m1 'CHECKER-ERROR\|UNDECIDED' $S/out.txt | cut -c1-120)"
  rm -rf $S
done
