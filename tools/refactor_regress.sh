#!/bin/bash
# tools/refactor_regress.sh [R1 R2 ...]: every stored behaviour-preserving refactoring (seeded/refactorings/R*/patch.diff) must leave the checks that
# depend on the refactored files green (exit 0) on a scratch copy of /repo carrying the patch.  Prints one line per refactoring and check.
cd /verif
declare -A CHECKS=(
 [R1]="C03 C14 C01" [R2]="C06 C03" [R3]="C13 C05 C14" [R4]="C01 C02 C09 C10 C11 C12 C16" [R5]="C07 C15" [R6]="C08 C12" [R7]="C17 C11"
 [R8]="C20 C04 C19" [R9]="C07 C15 C08 C20" [R10]="C08 C20 C12" [R11]="C12 C19 C18" [R12]="C01 C02 C09 C10 C11 C12 C16" [R13]="C14 C01 C03" [R14]="C13 C05 C06 C14"
 [RW]="C03 C12 C14 C20" [RX]="C07 C18 C19 C08"   # RW: C19 undecided for ja (exit 2)
 [RQ]="C01 C02 C09 C10 C12" [RR]="C13 C05 C14" [RS]="C06 C14" [RT]="C08 C12 C20" [RU]="C07 C08 C20 C18" [RV]="C07 C15 C18 C19 C08"
 [RK]="C15 C20 C07" [RL]="C19 C18 C07" [RM]="C11 C17" [RN]="C11" [RO]="C03 C04 C14 C12" [RP]="C18"   # RK: C12 / C08 undecided (exit 2), RN: C02 / C12 exit 3, RP: C07 exit 2, C15 exit 3 (contracts out of date, no alarm)
 [RF]="C11 C17" [RG]="C01 C02 C09 C10 C11 C12 C16" [RH]="C07 C15 C08 C20 C18 C19" [RI]="C08 C12 C15 C20" [RJ]="C07 C15 C18"
 [RA]="C02 C11 C12 C09 C10" [RB]="C20 C08 C19" [RC]="C07 C15 C18 C19" [RD]="C04 C14 C20" [RE]="C13")   # RE: C05 / C06 end in exit 3 (contracts out of date), see DESIGN 7b
RS=${@:-$(ls seeded/refactorings | sort -V)}
for R in $RS; do
  S=$(mktemp -d /tmp/refreg.XXXXXX)
  cp -r /repo/. $S/; rm -rf $S/.git
  ( cd $S && patch -p1 -s < /verif/seeded/refactorings/$R/patch.diff ) || { echo "$R PATCH-DOES-NOT-APPLY"; rm -rf $S; continue; }
  for C in ${CHECKS[$R]}; do
    VERIF_REPO=$S VERIF_EVIDENCE_DIR=$S/ev timeout 2400 ./check $C > $S/out.txt 2>&1; rc=$?
    echo "$R $C rc=$rc $(grep -v '^KNOWN-FINDING' $S/out.txt | tail -1 | cut -c1-160)"
  done
  rm -rf $S
done
