#!/usr/bin/env python3
"""regenerates /verif/MANIFEST.json from the table below and validates it against the schema"""
import json
import os

HERE = os.path.dirname(os.path.dirname(os.path.abspath(__file__)))
ALL = [f'C{i:02d}' for i in range(1, 21)]

TB_PY = ('PyVC (vc/pyvc.py) encodes the Python subset correctly (cross-checked by seeded mutants and replay on CPython); '
         'z3/cvc5; dataclass/hash/dict library contracts; structural induction schema; see evidence.assumptions')

CHECKS = {
    'C13': dict(
        category='proof',
        text=('Every method of depccg/cat.py that the property is anchored in (__eq__, __str__, __xor__, clear_features of the four dataclasses, '
              'Feature.parse unary branch) is symbolically executed from the ast of the working tree, path by path, against a sidecar contract '
              '(ADT equality, canonical text, kernel of strip, erase); all obligations are discharged by z3 for all category values, recursive calls '
              'use the callee contract; erase/strip algebra is proved by structural-induction lemmas; hash/eq coherence from the dataclass decision table.'),
        design_ref='DESIGN.md section 4, C13',
        note=TB_PY,
        technique='contract-based deductive verification: PyVC symbolic execution of the real source + z3, induction lemmas',
    ),
}

CHECKS['C05'] = dict(
    category='proof',
    text=('The body of the shift-reduce loop of Category.parse and its exit code are executed symbolically (real ast) as a step function on '
          'configurations with arbitrary bottoms; 17 chain links (atom with/without feature, openers, slash, functor reduction, redundant round/angle '
          'brackets, rejection of two unbracketed slashes inside brackets and at top level, exits) are discharged by z3 for all tokens and all '
          'sub-categories; printers are proved equal to the canonical-text spec. The tokenizer (re/split) and the three-part Feature.parse branch are '
          'assumed library contracts, and together with the whole round trip are additionally run as a BOUNDED check on the real code '
          '(all values up to 3-4 atoms, bracket/blank variants, every shipped category string) - the bounded part is labelled and not counted as proof.'),
    design_ref='DESIGN.md section 4, C05',
    note=TB_PY + '; tokenizer contract and the induction over the bracketing are on paper (DESIGN.md C05)',
    technique='contract-based deductive verification: chain links of the real loop body as step function + z3; bounded stand-in for the tokenizer',
)

CHECKS['C06'] = dict(
    category='proof',
    text=('Unification.__call__ (with its closure scan inlined), scan_deep, __getitem__ and rec are symbolically executed from the real ast. '
          '__call__ is verified once per pattern pair harvested from the grammars on this run, for ALL category pairs: result <=> Match spec '
          '(shape with | wildcard, repeated variables equal up to features, positional feature compatibility), bindings, success/done flags, '
          'second call raises, mapping invariant (keys are variable features, values are features of the inputs). The loop over the unordered key set '
          'is handled by a context-free body summary + invariant (init/preservation/exit), so every iteration order is covered. scan_deep/rec are proved '
          'against recursive spec functions with their own contracts at recursive calls; induction lemmas for nleaves/leaf/subst. '
          'A BOUNDED run-time contract on the real class (harvested + seeded random patterns) is added and labelled bounded.'),
    design_ref='DESIGN.md section 4, C06',
    note=TB_PY + '; uniform feature system precondition; key formatting abstraction (see evidence.assumptions)',
    technique='contract-based deductive verification: PyVC per-pattern symbolic execution with loop-summary rule + z3; bounded run-time contract as stand-in for random patterns',
)

CHECKS['C03'] = dict(
    category='proof',
    text=('Every function in en.combinators is symbolically executed (real ast) against one generic postcondition: result is None or Justified(x, y, result), '
          'Justified looked up in a schema table keyed by the (label, symbol) the result carries (patterns, result skeleton, modifier rule, features-from-inputs, '
          'N/NP side condition, head direction), for all well-formed category pairs; Unification enters only through its contract (C06). The converse clause '
          '(identical matched parts always yield the result) is proved per schema; apply_binary_rules is proved to call an arbitrary list element exactly once on '
          'the nb-erased pair, to collect exactly the non-None results in order and to gate on the (X,nb)-erased pair. A BOUNDED cross-check runs the real rules on '
          'the shipped inventories / seen rules / derived and synthetic categories against an executable twin of the table.'),
    design_ref='DESIGN.md section 4, C03',
    note=TB_PY + '; the schema tables are the oracle; INJ (C05) for literal comparisons; Unification contract (C06)',
    technique='contract-based deductive verification: PyVC + z3 against schema-table postconditions; bounded inventory cross-check',
)
CHECKS['C04'] = dict(
    category='proof',
    text=('Same construction as C03 over ja.combinators (>, <, >B, <B1..<B4, >Bx1..>Bx3, SSEQ; head right), plus apply_unary_rules: results are exactly the '
          'configured targets in order (map-loop rule over an arbitrary table) and the label is the one the statement assigns to the mod value and the number of '
          'missing arguments (ADNext/ADNint/ADV0/ADV1/ADV2). Bounded cross-check on the shipped Japanese inventory.'),
    design_ref='DESIGN.md section 4, C04',
    note=TB_PY + '; the schema tables are the oracle; Unification contract (C06); inputs over the three-part feature system',
    technique='contract-based deductive verification: PyVC + z3 against schema-table postconditions; bounded inventory cross-check',
)

NA_REASON = {}


def main():
    checks = []
    for pid in ALL:
        if pid not in CHECKS:
            continue
        c = CHECKS[pid]
        checks.append(dict(
            property_id=pid,
            quick_cmd=f'./check {pid} --tier quick',
            thorough_cmd=f'./check {pid} --tier thorough',
            evidence_file=f'/verif/evidence/{pid}.json',
            replay_cmd_template=f'./check {pid} --replay {{path}}',
            engine='pyvc',
            level_claimed=dict(category=c['category'], text=c['text'], design_ref=c['design_ref']),
            level_note=c['note'],
            technique=c['technique'],
        ))
    na = [dict(property_id=p, reason=NA_REASON.get(p, 'check not built yet (work in progress; see DESIGN.md section 8 for the order)'))
          for p in ALL if p not in CHECKS]
    man = dict(
        version=1,
        setup_cmd='true',
        hooks=dict(guard='DEPCCG_VERIF', enable='no hook is needed by the committed checks: they read /repo\'s working tree (python sources via ast, parsing.h via clang/g++) on every run',
                   baseline_off_cmd='cd /repo && /venv/bin/python -m pytest -ra -q -p no:cacheprovider --timeout=900 --continue-on-collection-errors',
                   source_commits=[], add_only=True),
        engines=[dict(name='pyvc', path='/verif/vc', serves_properties=sorted(CHECKS),
                      kind_free_text='verification-condition generator over the python ast of the real source + z3/cvc5 (contract-based deductive verification)')],
        checks=checks,
        notes='exit codes: 0 held, 1 violation (VIOLATION line), 2 undecided (never a violation), 3 checker error',
        not_applicable=na,
    )
    path = os.path.join(HERE, 'MANIFEST.json')
    json.dump(man, open(path, 'w'), indent=1)
    try:
        import jsonschema
        jsonschema.validate(man, json.load(open('/root/.vp/MANIFEST.schema.json')))
        print('MANIFEST valid;', len(checks), 'checks')
    except ImportError:
        print('written (jsonschema not available to validate)')


if __name__ == '__main__':
    main()
