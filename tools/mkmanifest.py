#!/usr/bin/env python3
"""regenerates /verif/MANIFEST.json from the table below and validates it against the schema"""
import json
import os

HERE = os.path.dirname(os.path.dirname(os.path.abspath(__file__)))
ALL = [f'C{i:02d}' for i in range(1, 21)]

TB_PY = ('PyVC (vc/pyvc.py) encodes the Python subset correctly (cross-checked by seeded mutants and replay on CPython); '
         'z3/cvc5; dataclass/hash/dict library contracts; structural induction schema; see evidence.assumptions')

CHECKS = {
    'C13': dict(
        category='proof',
        text=('Every method of depccg/cat.py that the property is anchored in (__eq__, __str__, __xor__, clear_features of the four dataclasses, '
              'Feature.parse unary branch) is symbolically executed from the ast of the working tree, path by path, against a sidecar contract '
              '(ADT equality, canonical text, kernel of strip, erase); all obligations are discharged by z3 for all category values, recursive calls '
              'use the callee contract; erase/strip algebra is proved by structural-induction lemmas; hash/eq coherence from the dataclass decision table. '
              'BOUNDED stand-in (never counted as proved): ==, hash, ^, text comparison and clear_features of the real classes against field-level twins on constructor-built categories of both '
              'feature systems - it turns an obligation the verifier cannot analyse (e.g. a rewritten method with a nested recursive helper) into a violation with a concrete value.'),
        design_ref='DESIGN.md section 4, C13',
        note=TB_PY,
        technique='contract-based deductive verification: PyVC symbolic execution of the real source + z3, induction lemmas',
    ),
}

CHECKS['C05'] = dict(
    category='proof',
    text=('The body of the shift-reduce loop of Category.parse and its exit code are executed symbolically (real ast) as a step function on '
          'configurations with arbitrary bottoms; 17 chain links (atom with/without feature, openers, slash, functor reduction, redundant round/angle '
          'brackets, rejection of two unbracketed slashes inside brackets and at top level, exits) are discharged by z3 for all tokens and all '
          'sub-categories; printers are proved equal to the canonical-text spec. The tokenizer (re/split) and the three-part Feature.parse branch are '
          'assumed library contracts, and together with the whole round trip are additionally run as a BOUNDED check on the real code '
          '(all values up to 3-4 atoms, bracket/blank variants, every shipped category string) - the bounded part is labelled and not counted as proof.'),
    design_ref='DESIGN.md section 4, C05',
    note=TB_PY + '; tokenizer contract and the induction over the bracketing are on paper (DESIGN.md C05)',
    technique='contract-based deductive verification: chain links of the real loop body as step function + z3; bounded stand-in for the tokenizer',
)

CHECKS['C06'] = dict(
    category='proof',
    text=('Unification.__call__ (with its closure scan inlined), scan_deep, __getitem__ and rec are symbolically executed from the real ast. '
          '__call__ is verified once per pattern pair harvested from the grammars on this run, for ALL category pairs: result <=> Match spec '
          '(shape with | wildcard, repeated variables equal up to features, positional feature compatibility), bindings, success/done flags, '
          'second call raises, mapping invariant (keys are variable features, values are features of the inputs). The loop over the unordered key set '
          'is handled by a context-free body summary + invariant (init/preservation/exit), so every iteration order is covered. scan_deep/rec are proved '
          'against recursive spec functions with their own contracts at recursive calls; induction lemmas for nleaves/leaf/subst. '
          'A BOUNDED run-time contract on the real class (harvested + seeded random patterns) is added and labelled bounded.'),
    design_ref='DESIGN.md section 4, C06',
    note=TB_PY + '; uniform feature system precondition; key formatting abstraction (see evidence.assumptions)',
    technique='contract-based deductive verification: PyVC per-pattern symbolic execution with loop-summary rule + z3; bounded run-time contract as stand-in for random patterns',
)

CHECKS['C03'] = dict(
    category='proof',
    text=('Every function in en.combinators is symbolically executed (real ast) against one generic postcondition: result is None or Justified(x, y, result), '
          'Justified looked up in a schema table keyed by the (label, symbol) the result carries (patterns, result skeleton, modifier rule, features-from-inputs, '
          'N/NP side condition, head direction), for all well-formed category pairs; Unification enters through its contract, whose obligations (the C06 obligations for the pattern pairs the grammars use, scan_deep, __getitem__, lemmas) are re-discharged inside this check. The converse clause '
          '(identical matched parts always yield the result) is proved per schema; apply_binary_rules is proved to call an arbitrary list element exactly once on '
          'the nb-erased pair, to collect exactly the non-None results in order and to gate on the (X,nb)-erased pair. A BOUNDED cross-check runs the real rules on '
          'the shipped inventories / seen rules / derived and synthetic categories against an executable twin of the table.'),
    design_ref='DESIGN.md section 4, C03',
    note=TB_PY + '; the schema tables are the oracle; INJ (C05) for literal comparisons; Unification contract (C06)',
    technique='contract-based deductive verification: PyVC + z3 against schema-table postconditions; bounded inventory cross-check',
)
CHECKS['C04'] = dict(
    category='proof',
    text=('Same construction as C03 over ja.combinators (>, <, >B, <B1..<B4, >Bx1..>Bx3, SSEQ; head right), plus apply_unary_rules: results are exactly the '
          'configured targets in order (map-loop rule over an arbitrary table) and the label is the one the statement assigns to the mod value and the number of '
          'missing arguments (ADNext/ADNint/ADV0/ADV1/ADV2); the obligations of the Unification contract are re-discharged inside this check. Bounded cross-check on the shipped Japanese inventory.'),
    design_ref='DESIGN.md section 4, C04',
    note=TB_PY + '; the schema tables are the oracle; Unification contract (C06); inputs over the three-part feature system',
    technique='contract-based deductive verification: PyVC + z3 against schema-table postconditions; bounded inventory cross-check',
)

TB_CXX = ('CxxVC (vc/cxxvc.py) encodes the C++14 subset correctly; unsigned as integers with no-wrap obligations, float as reals (finite scores); STL contracts; '
          'constructor initialiser lists read, not executed; the score setup, argmax, matrix, compute_outside_probabilities and the chart methods are proved (loop invariants in contracts/parsing_h_helpers.py), not assumed; grammar callback vector = k-th result with rule_id k; see evidence.assumptions')
CHECKS['C14'] = dict(
    category='proof',
    text=('Exception freedom of all 24 combinators, apply_binary_rules and apply_unary_rules of both grammars for well-formed inputs (noraise obligations of the '
          'symbolic execution), the seen-rule gate (all-or-nothing on the (X,nb)-erased pair), unary targets in order (map-loop rule), nb-independence (erase lemmas), '
          'purity by ast frame scans (no store to module state, no id/hash/clock/random), and reproducibility: the only iteration over an unordered collection '
          '(Unification.__call__ over the shared keys) must iterate over sorted(...) or satisfy a commute obligation on the loop-body summary. '
          'BOUNDED: real rules on shipped inventories/seen rules, two calls, argument snapshots, runs under several PYTHONHASHSEED values.'),
    design_ref='DESIGN.md section 4, C14', note=TB_PY + '; precondition: one feature system per call',
    technique='contract-based deductive verification: PyVC noraise/frame/commute obligations + z3; bounded hash-seed differential',
)
CHECKS['C09'] = dict(
    category='proof',
    text=('CxxVC generates, from clang\'s AST of the real parsing.h, one obligation per construction site of a chart item (leaf, goal, unary, two binary sites) and path: '
          'in_score equals the statement\'s recurrence (tag score; child - penalty; left + right + dep[non-head head][head head + 1]; + dep[head][0] at the root), head_id is the '
          'head of the head child per the head flag of the very rule result, all matrix indices in range, no unsigned wrap-around; discharged by z3 for all inputs (floats as reals). '
          'By induction the stored score is the model score of the derivation. BOUNDED: real parsing.h + DePyx pyx text against recomputation from the returned tree.'),
    design_ref='DESIGN.md section 4, C09', note=TB_CXX,
    technique='contract-based deductive verification: CxxVC (clang JSON AST -> z3) invariant rule over the search loop; bounded oracle run',
)
CHECKS['C16'] = dict(
    category='proof',
    text=('Leaf loop of parse_sentence: for an arbitrary token and an arbitrary iteration of the pruning loop the pushed leaf carries the popped candidate, '
          'i < pruning_size, and with the beta filter on exp(score) >= beta * exp(best tag score); a candidate is skipped only by a break that is sound because later '
          'candidates are no better; with the filter off every popped candidate becomes a leaf; the search loop never creates leaf items. BOUNDED oracle run on the real code.'),
    design_ref='DESIGN.md section 4, C16', note=TB_CXX + '; exp positive and monotone; priority_queue contract',
    technique='contract-based deductive verification: CxxVC loop rule over the leaf loop + z3; bounded oracle run',
)
CHECKS['C02'] = dict(
    category='proof',
    text=('Inv is re-established at every push site of the search loop: span inside the sentence, children adjacent and their union is the new span, left/right are '
          'the combined items, the category is the k-th result of the callback for the children\'s categories, goal items only for full-span items with an allowed root, '
          'unary steps not at the root of a multi-word sentence, leaf items only from the beam loop; index bounds and no unsigned wrap. '
          'Python half (parsing.pyx, verified on its mechanically extracted DePyx text with PyVC): retrieve_tree by structural induction over the item (leaves carry the tokens in order, every node the category '
          'its id stands for, labels from the cache entry of the children ids and the rule index, stack frame), scaffold, the two callbacks and the id table (invariant, ids only grow). '
          'The rest of run (sentence loop, pairing of trees and scores) is covered by the BOUNDED run on the DePyx text.'),
    design_ref='DESIGN.md section 4, C02', note=TB_CXX + '; views of C-level values in parsing.pyx assumed; rest of run bounded',
    technique='contract-based deductive verification: CxxVC invariant rule + z3; bounded real-code run for the pyx half',
)
CHECKS['C01'] = dict(
    category='proof',
    text=('Proved for all inputs: the outside estimate invariant (best remaining tag and head scores incl. the own head), the inside bound, and MONOTONE: every item pushed '
          'while processing a popped item has priority <= the popped priority (leaf, unary, both binary sites, goal); with top() a maximum this gives non-increasing popped '
          'priorities - the observable clause of C01. Optimality itself rests on the A* meta-theorem (assumed, named) and is checked BOUNDED against an exhaustive oracle '
          'on the real code with the pop hook. The premise that both shipped grammars share one head direction is a head-direction obligation on every rule function of en.py and ja.py (PyVC). '
          'Completeness of one search iteration (the premise of the meta-theorem that every licensed combination reaches the agenda): goal-complete, chart-complete, expand-root, '
          'expand-sites (unary results; cells starting at the end / ending at the start of the inserted item x their items x the rule results of the ordered pair; no break), '
          'expand-once (exactly one push per rule result) - proved per path of an arbitrary iteration.'),
    design_ref='DESIGN.md section 4, C01', note=TB_CXX + '; A* meta-theorem assumed; optimality clause bounded',
    technique='contract-based deductive verification: CxxVC invariant + monotonicity obligations + z3; bounded oracle for optimality',
)
CHECKS['C12'] = dict(
    category='proof',
    text=('Parser half: at every push site the stored rule_id is the index k of the very result being iterated and the head is taken per that result\'s head flag (CxxVC). '
          'Reader half: guess_combinator_by_triplet is proved by a find-first loop rule for an arbitrary rule function (first rule deriving the target, else unk) and every '
          'call site passes rule.op_string / rule.op_symbol / the right head source to Tree.make_binary with matching arity (ast data-flow obligations). '
          'parsing.pyx (DePyx text, PyVC): scaffold copies the k-th result field by field, the callbacks number the results by their position (rule_id = k), retrieve_tree takes label, symbol and head flag '
          'from cache[(children ids)][rule_id]. BOUNDED: labels/head flags of trees returned by the real parser (DePyx text) for grammars with distinct labels.'),
    design_ref='DESIGN.md section 4, C12', note=TB_CXX + '; ' + TB_PY,
    technique='contract-based deductive verification: CxxVC + PyVC loop rule + ast call-site obligations; bounded real-code run',
)
CHECKS['C10'] = dict(
    category='exploration',
    text=('Decided BOUNDED: run-time contract of the real parse_sentence (compiled from the working tree) against exhaustive enumeration of all derivations on seeded small '
          'cases: min(k, #derivations) parses, pairwise different, non-increasing, scores equal to the k largest. Deductive obligations (only final items reach the goal cell, '
          'only the goal site creates them; chart::update / chart::operator() / cell::emplace / contains / size proved against their contracts: in n-best mode every item is stored, as a field-by-field copy, in the cell of its span) '
          'and the completeness obligations of a search iteration (every popped final item is filed in the goal cell once; each pair of adjacent items is combined exactly once, when the later one is popped: expand-sites / expand-once) '
          'are included but the k-best clause itself has no contract-level proof here, so the level is exploration, not proof.'),
    design_ref='DESIGN.md section 4, C10', note='bounded oracle; float tolerance 2e-4 relative',
    technique='bounded run-time contract against an exhaustive oracle (stand-in; k-best meta-theorem not proved), plus CxxVC obligations on the goal cell and the chart methods',
)

BOUNDED_NOTE = ('bounded stand-in on the real code (labelled bounded, never counted as proved): seeded enumeration, independent spec decoders / oracle; '
                'see evidence.coverage.rule for the bound')
CHECKS['C11'] = dict(
    category='exploration',
    text=('Deductive parts: _chunks is proved (PyVC, one arbitrary iteration of range(0, n, splits) with exact ceiling division) to yield non-empty, contiguous, in-order slices covering the '
          'list; the two rule-cache lambdas of parsing.h are proved (CxxVC) to store the vector filled by scaffold unchanged under (x, y), to return the stored vector and to call nothing on a hit; '
          'frame of parse_sentence w.r.t. the run-wide config object: every iteration of the search loop and of the leaf loop leaves all fields of *config unchanged, and every use of the parameter is a member read. '
          'History/schedule independence, alignment for every chunking and process count, placeholders and shape rejection before parsing are decided BOUNDED by a differential run on the real code '
          '(parsing.h compiled, DePyx text of parsing.pyx, depccg/parsing.py with an in-process stand-in for Pool). Level is exploration because the headline clauses are bounded.'),
    design_ref='DESIGN.md section 4, C11', note=BOUNDED_NOTE + '; OS-level process scheduling not modelled',
    technique='contract-based deductive verification of _chunks (PyVC), of the memo lambdas and of the config frame (CxxVC); bounded differential stand-in for history independence',
)
CHECKS['C17'] = dict(
    category='exploration',
    text=('Deductive part (PyVC on the real parsing.py): _binarize is proved against the numpy contracts (mask = complement of the listed indices); apply_category_filters (list-of-sentences form) is executed over symbolic '
          'collections - comprehensions once for an arbitrary element, loops once for an arbitrary sentence and token with a frame obligation - and every cell is proved to be the large negative value iff the word is a key '
          'and the category of the column is not listed, the old score otherwise; the arguments are returned as given (token order; dependency scores never stored to). Preconditions: pairwise different categories, every dictionary '
          'category in the inventory. The data clause is checked exhaustively over the shipped cat_dict / targets / seen_rules / unary_rules files, and the real function incl. the single-sentence form is run BOUNDED as a '
          'run-time contract (every cell compared). Level exploration: the single-sentence form and the shape checks are bounded only.'),
    design_ref='DESIGN.md section 4, C17', note=BOUNDED_NOTE + '; numpy and dict-comprehension contracts assumed',
    technique='contract-based deductive verification of _binarize and apply_category_filters (PyVC, arbitrary-element rules for comprehensions and loops); bounded run-time contract + exhaustive data check',
)
CHECKS['C18'] = dict(
    category='proof',
    text=('Frame obligations for every encoder entry point and the Tree accessors they use: each store site (attribute/subscript store, del, mutating method call) must not target an object '
          'reachable from the arguments; decided on the ast by a flow-sensitive points-to abstraction with per-function return summaries; module-level tables are never stored to. '
          'State scan of depccg/types.py, tree.py, utils.py and the printer modules: no global statement, no store into module-level names, no mutation of objects obtained from memoised functions or module-level tables. '
          'With the frame, rendering twice / in any order of formats equals rendering a fresh copy. BOUNDED: random format sequences on shared token objects against deep copies on the real encoders; '
          'a batch mixing the failure placeholder with annotated sentences rendered before and after other batches.'),
    design_ref='DESIGN.md section 4, C18', note='the points-to abstraction (contracts/frame.py) and the library effect contracts are the trusted base; ' + BOUNDED_NOTE,
    technique='contract-based verification: frame (modifies = {}) obligations per store site discharged by points-to analysis of the real ast; bounded differential',
)
CHECKS['C19'] = dict(
    category='exploration',
    text=('Structural noraise obligations on the ast: the label vocabulary harvested from both grammars is contained in the key sets of the Prolog tables indexed with it, and no encoder reads a '
          'token attribute without default that the bare placeholder token lacks. Exception freedom of all encoders on grammar-licensed derivations, every label, the placeholder and mixed batches, '
          'in every CLI format except ccg2lambda / jigg_xml_ccg2lambda (libraries absent), is decided BOUNDED on the real encoders.'),
    design_ref='DESIGN.md section 4, C19', note=BOUNDED_NOTE,
    technique='structural noraise obligations (vocabulary closure) + bounded rendering of grammar-generated derivations',
)
for _p, _t in (('C07', 'every output format encodes the same derivation'), ('C08', 'AUTO text reads back to the same tree'),
               ('C15', 'XML formats round-trip; Jigg XML is self-contained'), ('C20', 'PTB and Japanese-bank text read back to the same tree')):
    CHECKS[_p] = dict(
        category='exploration',
        text=(f'{_t}: decided BOUNDED only - run-time contract decode(encode(t)) = view(t) with independent spec decoders and the repository readers applied to files the real encoders wrote, '
              'over seeded derivations licensed by the shipped grammars, arbitrary trees with both head directions and adversarial tokens, n-best batches. No contract-level proof was built for the '
              'recursive printers / cursor-based readers in the time available (DESIGN.md section 5 says which clauses would be provable).'),
        design_ref=f'DESIGN.md section 4, {_p}', note=BOUNDED_NOTE + '; lxml round trip assumed',
        technique='bounded run-time contract on the real encoders/readers against independent spec decoders (stand-in; not proved)',
    )
CHECKS['C07'] = dict(
    category='exploration',
    text=('Deductive parts (PyVC on the real printers, tree view checked against the real properties of tree.py): the conll dependency column - _resolve_dependencies and its nested recursive rec are '
          'proved, by structural induction with the recursive calls replaced by the contract, to yield exactly one root (the head word) and for every other word the head its head flags imply, inside the span; '
          'the element structure of C&C xml - _process_tree and rec proved equal to the recursive spec encoding (one lf per word with start = offset from 0 per tree, span 1, category text, token attributes; '
          'one rule per inner node with label and category text, children in order). All other formats and clauses (text layouts, numbering, category spellings, escapes) are decided BOUNDED: run-time contract '
          'decode(encode(t)) = view(t) with independent spec decoders and the repository readers on files the real encoders wrote. Level exploration because most clauses are bounded.'),
    design_ref='DESIGN.md section 4, C07', note=BOUNDED_NOTE + '; lxml contracts assumed; refuted or undecided obligations are replayed on the real code (bounded/view_replay.py)',
    technique='contract-based deductive verification of the conll dependency resolver and the C&C xml builder (PyVC, structural induction via recursive-call contracts); bounded run-time contract for the other encoders',
)
CHECKS['C15'] = dict(
    category='exploration',
    text=('Deductive part (PyVC on the real jigg_xml.py): _ConvertToJiggXML.process and its nested recursive traverse are proved against the spec function span_rec (spans in pre-order, span j with id p + j, '
          'child / terminal references, rule label, begin / end offsets; ids continue after those of the trees printed before on the same converter; first span is the root); lemmas over span_rec by structural '
          'induction give the sentence-level clauses: ids unique (also across an n-best list), references resolve inside the tree, offsets tile, one root; to_jigg_xml creates one converter per sentence '
          '(call-site obligation on the ast). Reading the XML back (read_xml, read_jigg_xml, ccg2lambda tree builder), C&C xml and the token elements are decided BOUNDED on the real code.'),
    design_ref='DESIGN.md section 4, C15', note=BOUNDED_NOTE + '; lxml contracts assumed; refuted or undecided obligations are replayed on the real code (bounded/view_replay.py)',
    technique='contract-based deductive verification of the Jigg span writer (PyVC, structural induction via recursive-call contracts, lemmas over the spec function); bounded run-time contract for readers and round trips',
)
CHECKS['C08'] = dict(
    category='exploration',
    text=('Deductive part (PyVC on the real auto.py and tools/reader.py): printer and reader are proved against one token-level specification toks(t) of the AUTO text. auto_of.rec returns text whose '
          'blank-separated pieces are toks(node); _AutoLineReader.parse_leaf / parse_tree (next_node inlined), given the pieces toks(t) at the cursor, return a tree iso to t (shape, category text, head flags, POS, '
          'escaped word) and leave the cursor behind them; recursive calls are replaced by the contracts (structural induction). Lemmas: the real body of next() returns a blank-free piece followed by a blank and '
          'skips the blank (z3/cvc5 strings); iso trees have the same pieces, so re-printing reproduces the line. The cursor methods are used through an assumed token-level abstraction justified by next-lemma. '
          'The conll fragment clause, escapes and the file-level reader are decided BOUNDED on the real code.'),
    design_ref='DESIGN.md section 4, C08', note=BOUNDED_NOTE + '; token-level abstraction of the cursor assumed (next-lemma proved); refuted or undecided obligations are replayed on the real code (bounded/view_replay.py)',
    technique='contract-based deductive verification of the AUTO printer and reader against a common token-level spec (PyVC, structural induction via recursive-call contracts, string lemma by z3/cvc5); bounded run-time contract for the rest',
)
CHECKS['C20'] = dict(
    category='exploration',
    text=('Deductive part, Japanese half (PyVC on the real printer/ja.py and tools/ja/reader.py): printer and reader are proved against one piece-level specification jtoks(t) of the bank text (opening piece, blank, '
          'category field, leaf body, closing brace). ja_of.rec returns text whose pieces are jtoks(node); _JaCCGLineReader.parse_leaf / parse_tree (next_node inlined), given jtoks(t) at the cursor, return a tree iso to t '
          '(shape, category text, rule symbol, word) and leave the cursor behind it; recursive calls are replaced by the contracts (structural induction). Lemma next-lemma-ja: the real body of next(target) returns a piece '
          'without the target followed by the target and skips it (z3/cvc5 strings). The cursor methods are used through an assumed piece-level abstraction with shape obligations at every use. The PTB half (stack reader), '
          'bank annotations on categories and the incomplete-line clause are decided BOUNDED on the real code (two known findings on bracket tokens in PTB).'),
    design_ref='DESIGN.md section 4, C20', note=BOUNDED_NOTE + '; piece-level abstraction of the cursor assumed (next-lemma-ja proved); refuted or undecided obligations are replayed on the real code when a replay exists',
    technique='contract-based deductive verification of the Japanese bank printer and reader against a common piece-level spec (PyVC, structural induction via recursive-call contracts, string lemma by z3/cvc5); bounded run-time contract for PTB and annotations',
)

NA_REASON = {}


def main():
    checks = []
    for pid in ALL:
        if pid not in CHECKS:
            continue
        c = CHECKS[pid]
        checks.append(dict(
            property_id=pid,
            quick_cmd=f'./check {pid} --tier quick',
            thorough_cmd=f'./check {pid} --tier thorough',
            evidence_file=f'/verif/evidence/{pid}.json',
            replay_cmd_template=f'./check {pid} --replay {{path}}',
            engine=c.get('engine', 'pyvc'),
            level_claimed=dict(category=c['category'], text=c['text'], design_ref=c['design_ref']),
            level_note=c['note'],
            technique=c['technique'],
        ))
    na = [dict(property_id=p, reason=NA_REASON.get(p, 'check not built yet (work in progress; see DESIGN.md section 8 for the order)'))
          for p in ALL if p not in CHECKS]
    man = dict(
        version=1,
        setup_cmd='true',
        hooks=dict(guard='DEPCCG_VERIF',
                   enable=('the only hook is in depccg/parsing.h (pop callback, inactive unless DEPCCG_VERIF is set and a callback is installed); the checks compile the working tree\'s '
                           'parsing.h with g++ themselves (vc/harness.py) and set DEPCCG_VERIF=1 for the bounded C01 run; the deductive obligations do not use it'),
                   baseline_off_cmd='cd /repo && env -u DEPCCG_VERIF /venv/bin/python -m pytest -ra -q -p no:cacheprovider --timeout=900 --continue-on-collection-errors',
                   source_commits=['0b0a8cf'], add_only=True),
        engines=[dict(name='pyvc', path='/verif/vc/pyvc.py', serves_properties=['C02', 'C03', 'C04', 'C05', 'C06', 'C07', 'C08', 'C11', 'C12', 'C13', 'C14', 'C15', 'C17', 'C20'],
                      kind_free_text='verification-condition generator (symbolic execution of the python ast of the real source, sidecar contracts in /verif/contracts) + z3/cvc5'),
                 dict(name='cxxvc', path='/verif/vc/cxxvc.py', serves_properties=['C01', 'C02', 'C09', 'C10', 'C11', 'C12', 'C16'],
                      kind_free_text='verification-condition generator over clang\'s JSON AST of depccg/parsing.h (invariant rule over the search loop) + z3/cvc5'),
                 dict(name='depyx', path='/verif/vc/depyx.py', serves_properties=['C02', 'C11', 'C12'],
                      kind_free_text='mechanical .pyx -> .py extraction of depccg/parsing.pyx (re-done on every run; drops cimport / extern blocks, C types, casts, & and exception specifications): the text PyVC verifies and the bounded harness executes'),
                 dict(name='frame', path='/verif/contracts/frame.py', serves_properties=['C18', 'C14'],
                      kind_free_text='frame (modifies-nothing) obligations per store site, decided by a flow-sensitive points-to abstraction of the real ast'),
                 dict(name='harness', path='/verif/vc/harness.py', serves_properties=['C01', 'C02', 'C07', 'C08', 'C09', 'C10', 'C11', 'C12', 'C15', 'C16', 'C17', 'C18', 'C19', 'C20'],
                      kind_free_text='bounded stand-ins and replays on the real code: parsing.h compiled by g++ + DePyx text of parsing.pyx via ctypes; real printers/readers with spec decoders')],
        checks=checks,
        notes='exit codes: 0 held, 1 violation (VIOLATION line), 2 undecided (never a violation), 3 checker error',
        not_applicable=na,
    )
    path = os.path.join(HERE, 'MANIFEST.json')
    json.dump(man, open(path, 'w'), indent=1)
    try:
        import jsonschema
        jsonschema.validate(man, json.load(open('/root/.vp/MANIFEST.schema.json')))
        print('MANIFEST valid;', len(checks), 'checks')
    except ImportError:
        print('written (jsonschema not available to validate)')


if __name__ == '__main__':
    main()
