#!/bin/bash
# tools/refactor_eval.sh <worktree> <checks...>: runs the checks against a scratch copy of /repo carrying the worktree's diff (a behaviour-preserving
# refactoring made by an independent agent): every check must still exit 0 (exit 1 would be a false alarm; 2 / 3 a robustness gap)
WT=$1; shift
S=$(mktemp -d /tmp/refrun.XXXXXX)
cp -r /repo/. $S/; rm -rf $S/.git
( cd $WT && git diff -- depccg ) > $S/refactor.diff
( cd $S && patch -p1 -s < refactor.diff ) || echo "PATCH DID NOT APPLY"
echo "changed: $(grep -c '^[-+][^-+]' $S/refactor.diff) lines"
( cd $S && timeout 900 /venv/bin/python -m pytest -q -p no:cacheprovider tests/test_cat.py tests/test_unification.py tests/grammar 2>&1 | tail -1 )
for C in "$@"; do
  ( cd /verif && VERIF_REPO=$S VERIF_EVIDENCE_DIR=$S/ev timeout 2400 ./check $C > $S/out_$C.txt 2>&1; rc=$?; echo "== $C rc=$rc  $(grep -v '^KNOWN-FINDING' $S/out_$C.txt | tail -2 | cut -c1-220 | tr '\n' ' ')" )
done
rm -rf $S
