#!/bin/bash
# tools/mut.sh <PROP> <file-relative-to-repo> <python-regex-old> <new>   -- run a check against a mutated scratch copy of /repo
# development aid only (seeded-mutant sanity); scratch copy lives under /tmp and is removed.
set -e
PROP=$1; FILE=$2; OLD=$3; NEW=$4
D=$(mktemp -d /tmp/mut.XXXXXX)
trap 'rm -rf "$D"' EXIT
cp -r /repo/. "$D"/ 2>/dev/null
rm -rf "$D/.git"
python3 - "$D/$FILE" "$OLD" "$NEW" <<'PY'
import sys
p, old, new = sys.argv[1:4]
s = open(p).read()
if old not in s:
    print('MUTATION DID NOT APPLY'); sys.exit(2)
s = s.replace(old, new, 1)
open(p, 'w').write(s)
PY
cd /verif
VERIF_REPO=$D VERIF_EVIDENCE_DIR=$D/ev ./check $PROP ${TIER:+--tier $TIER} 2>&1 | tail -${LINES_OUT:-6}
echo "rc=${PIPESTATUS[0]}"
python3 -c "
import json,sys
d=json.load(open('$D/ev/$PROP.json'))
print('  failed:', [x.split('/',1)[1][-70:] for x in d['coverage']['failed']][:12], 'undecided:', len(d['coverage']['undecided']))" 2>/dev/null
