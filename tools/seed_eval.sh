#!/bin/bash
# tools/seed_eval.sh <seed dir name, e.g. C12-1> [checks...]: confirms a stored seeded change (tests pass with it, demo fails with / passes without)
# in the property's scratch worktree /tmp/wt_<P> and runs the checks against a scratch copy of /repo with the patch applied.
set -u
SD=$1; shift; P=${SD%%-*}; CHECKS=${@:-$P}
WT=${WTPREFIX:-/tmp/wt_}$P
D=/verif/seeded/$SD
[ -d $WT ] || git -C /repo worktree add -q $WT HEAD
( cd $WT && git checkout -q -- . && git clean -fdq -e _seeded && git apply $D/patch.diff ) || { echo "PATCH DOES NOT APPLY"; exit 2; }
mkdir -p $WT/_seeded; cp $D/demo.* $D/run.sh $WT/_seeded/ 2>/dev/null
echo "== tests with change"; ( cd $WT && timeout 900 /venv/bin/python -m pytest -q -p no:cacheprovider tests/test_cat.py tests/test_unification.py tests/grammar 2>&1 | tail -1 )
echo "== demo with change"; ( cd $WT && WT=$WT timeout 600 sh _seeded/run.sh > /tmp/seed_with_$SD.txt 2>&1; echo "rc=$?"; tail -2 /tmp/seed_with_$SD.txt | cut -c1-300 )
( cd $WT && git checkout -q -- . )
echo "== demo without change"; ( cd $WT && WT=$WT timeout 600 sh _seeded/run.sh > /tmp/seed_without_$SD.txt 2>&1; echo "rc=$?"; tail -1 /tmp/seed_without_$SD.txt | cut -c1-300 )
S=$(mktemp -d /tmp/seedrun.XXXXXX)
cp -r /repo/. $S/ ; rm -rf $S/.git
( cd $S && patch -p1 -s < $D/patch.diff ) || echo "PATCH DID NOT APPLY to /repo HEAD"
for C in $CHECKS; do
  echo "== check $C on the seeded tree"
  ( cd /verif && VERIF_REPO=$S VERIF_EVIDENCE_DIR=$S/ev timeout 1800 ./check $C 2>&1 | tail -3 | cut -c1-300; echo "rc=${PIPESTATUS[0]}" )
  python3 -c "
import json
d=json.load(open('$S/ev/$C.json'))
print('  failed:', [x.split('/',1)[1][-80:] for x in d['coverage']['failed']][:8], 'undecided:', len(d['coverage']['undecided']))" 2>/dev/null
done
rm -rf $S
