#!/bin/bash
# tools/seed_store.sh <P>: copies the sub-agent's deliverables from /tmp/wt_<P>/_seeded into /verif/seeded/<P>-<n>/ and evaluates them
set -u
P=$1; shift
WT=${WTPREFIX:-/tmp/wt_}$P
N=$(ls -d /verif/seeded/$P-* 2>/dev/null | wc -l); N=$((N+1))
D=/verif/seeded/$P-$N
mkdir -p $D
( cd $WT && git diff -- . ':(exclude)_seeded' > $D/patch.diff )
[ -s $D/patch.diff ] || cp $WT/_seeded/patch.diff $D/patch.diff
cp $WT/_seeded/demo.* $WT/_seeded/run.sh $WT/_seeded/notes.md $D/ 2>/dev/null
exec /verif/tools/seed_eval.sh $P-$N "$@"
