"""Bounded cross-check for C03 / C04 (and the run-time half of C14) on the real code: every result of the real
apply_binary_rules on pairs from the shipped inventories, the seen-rule pairs, categories reachable by one round of rule
application and small synthetic categories must be justified by the executable schema table (vc/twin_grammar.py).
Prints one JSON object."""
import itertools
import json
import os
import random
import sys
import time

from depccg.cat import Category, Atom, Functor, UnaryFeature, TernaryFeature
from vc import twin, twin_grammar, jsonnet_lite
from vc.twin import same, str_spec, outcome, erase

lang = os.environ.get('VERIF_LANG', 'en')
tier = os.environ.get('VERIF_TIER', 'quick')
rng = random.Random(int(os.environ.get('VERIF_SEED', '0') or 0))
REPO = os.environ.get('VERIF_REPO', '/repo')
import importlib
G = importlib.import_module('depccg.grammar.' + lang)

md = os.path.join(REPO, 'depccg/models')


def load(name, key):
    try:
        return jsonnet_lite.load(os.path.join(md, name))[key]
    except Exception:
        return []


if lang == 'en':
    inv = load('targets.en.jsonnet', 'targets') + load('targets.en_rebank.jsonnet', 'targets')
    seen = load('seen_rules.en.jsonnet', 'seen_rules') + load('seen_rules.en_rebank.jsonnet', 'seen_rules')
else:
    inv = load('targets.ja.jsonnet', 'targets')
    seen = load('seen_rules.ja.jsonnet', 'seen_rules')


def parse_all(texts):
    out = {}
    for t in texts:
        try:
            c = Category.parse(t)
            out[str_spec(c)] = c
        except Exception:
            pass
    return list(out.values())


inventory = parse_all(inv)
seen_pairs = []
for a, b in seen:
    try:
        seen_pairs.append((Category.parse(a), Category.parse(b)))
    except Exception:
        pass

fails, n, distinct, nres = [], 0, set(), 0
NB = [UnaryFeature('nb')]


def check_pair(x, y):
    global n, nres
    n += 1
    key = (str_spec(x), str_spec(y))
    got = outcome(G.apply_binary_rules, x, y)
    if got[0] != 'return':
        if len(fails) < 12:
            fails.append(dict(kind='apply_binary_rules raises', witness=dict(x=key[0], y=key[1]), got=repr(got)))
        return []
    kx, ky = (erase(x, NB), erase(y, NB)) if lang == 'en' else (x, y)
    out = []
    for res in got[1]:
        nres += 1
        j = twin_grammar.justified(lang, kx, ky, res)
        if j is False and len(fails) < 12:
            fails.append(dict(kind='result not justified by the schema its label names',
                              witness=dict(x=key[0], y=key[1], label=res.op_string, symbol=res.op_symbol, result=str_spec(res.cat), head_is_left=res.head_is_left)))
        out.append(res.cat)
    if got[1]:
        distinct.add(key)
    # results are exactly the non-None combinator results, in list order
    want = [r for r in (c(kx, ky) for c in G.combinators) if r is not None]
    if len(want) != len(got[1]) or any(not (same(a.cat, b.cat) and tuple(a)[1:] == tuple(b)[1:]) for a, b in zip(want, got[1])):
        if len(fails) < 12:
            fails.append(dict(kind='apply_binary_rules is not the list of combinator results', witness=dict(x=key[0], y=key[1])))
    return out


t0 = time.time()
derived = {}
for x, y in seen_pairs:
    for c in check_pair(x, y):
        derived[str_spec(c)] = c
budget = 25000 if tier == 'quick' else 10 ** 9
pairs = list(itertools.product(inventory, inventory))
if len(pairs) > budget:
    pairs = rng.sample(pairs, budget)
for x, y in pairs:
    for c in check_pair(x, y):
        derived[str_spec(c)] = c
new = [c for k, c in derived.items() if all(k != str_spec(i) for i in inventory[:0])]
new = rng.sample(new, min(len(new), 60 if tier == 'quick' else 400))
inv_s = rng.sample(inventory, min(len(inventory), 60 if tier == 'quick' else 400))
for x in new:
    for y in inv_s:
        check_pair(x, y)
        check_pair(y, x)
# small synthetic categories
if lang == 'en':
    feats = [UnaryFeature(None), UnaryFeature('X'), UnaryFeature('nb'), UnaryFeature('dcl')]
    bases = ['S', 'NP', 'N', ',', 'conj']
else:
    feats = [TernaryFeature(('mod', 'nm'), ('form', 'base'), ('fin', 'f')), TernaryFeature(('mod', 'X1'), ('form', 'X2'), ('fin', 'X3')),
             TernaryFeature(('mod', 'adn'), ('form', 'base'), ('fin', 't'))]
    bases = ['S', 'NP']
atoms = [Atom(b, f) for b in bases for f in feats if not (b in (',', 'conj') and f.value is not None if lang == 'en' else False)]
two = [Functor(a, s, b) for a in atoms for s in '/\\|' for b in atoms]
three = [Functor(a, s, b) for a in rng.sample(two, 40) for s in '/\\' for b in atoms[:4]]
syn = atoms + rng.sample(two, min(len(two), 120 if tier == 'quick' else 600)) + three[:80 if tier == 'quick' else 400]
for x, y in itertools.product(syn, syn):
    check_pair(x, y)
print(json.dumps(dict(evaluations=n, distinct_nontrivial=len(distinct), results_checked=nres, failures=fails, wall=round(time.time() - t0, 1),
                      samples=[dict(x=a, y=b) for a, b in list(distinct)[:3]],
                      rule=(f'{lang}: {len(seen_pairs)} seen-rule pairs, {len(pairs)} pairs of the {len(inventory)} shipped categories '
                            f'({"seeded sample" if len(pairs) == budget else "all"}), {len(new)} derived x {len(inv_s)} shipped categories both ways, '
                            f'{len(syn)}^2 synthetic pairs; distinct_nontrivial = distinct pairs with at least one result'))))
