"""Bounded cross-check for C03 / C04 (and the run-time half of C14) on the real code: every result of the real
apply_binary_rules on pairs from the shipped inventories, the seen-rule pairs, categories reachable by one round of rule
application and small synthetic categories must be justified by the executable schema table (vc/twin_grammar.py).
Prints one JSON object."""
import itertools
import json
import os
import random
import sys
import time

from depccg.cat import Category, Atom, Functor, UnaryFeature, TernaryFeature
from vc import twin, twin_grammar, jsonnet_lite
from vc.twin import same, str_spec, outcome, erase

lang = os.environ.get('VERIF_LANG', 'en')
tier = os.environ.get('VERIF_TIER', 'quick')
rng = random.Random(int(os.environ.get('VERIF_SEED', '0') or 0))
REPO = os.environ.get('VERIF_REPO', '/repo')
import importlib
G = importlib.import_module('depccg.grammar.' + lang)

md = os.path.join(REPO, 'depccg/models')


def load(name, key):
    try:
        return jsonnet_lite.load(os.path.join(md, name))[key]
    except Exception:
        return []


if lang == 'en':
    inv = load('targets.en.jsonnet', 'targets') + load('targets.en_rebank.jsonnet', 'targets')
    seen = load('seen_rules.en.jsonnet', 'seen_rules') + load('seen_rules.en_rebank.jsonnet', 'seen_rules')
else:
    inv = load('targets.ja.jsonnet', 'targets')
    seen = load('seen_rules.ja.jsonnet', 'seen_rules')


def parse_all(texts):
    out = {}
    for t in texts:
        try:
            c = Category.parse(t)
            out[str_spec(c)] = c
        except Exception:
            pass
    return list(out.values())


inventory = parse_all(inv)
seen_pairs = []
for a, b in seen:
    try:
        seen_pairs.append((Category.parse(a), Category.parse(b)))
    except Exception:
        pass

fails, n, distinct, nres = [], 0, set(), 0
NB = [UnaryFeature('nb')]


def check_pair(x, y):
    global n, nres
    n += 1
    key = (str_spec(x), str_spec(y))
    got = outcome(G.apply_binary_rules, x, y)
    if got[0] != 'return':
        if len(fails) < 12:
            fails.append(dict(kind='apply_binary_rules raises', witness=dict(x=key[0], y=key[1]), got=repr(got)))
        return []
    kx, ky = (erase(x, NB), erase(y, NB)) if lang == 'en' else (x, y)
    out = []
    for res in got[1]:
        nres += 1
        j = twin_grammar.justified(lang, kx, ky, res)
        if j is False and len(fails) < 12:
            fails.append(dict(kind='result not justified by the schema its label names',
                              witness=dict(x=key[0], y=key[1], label=res.op_string, symbol=res.op_symbol, result=str_spec(res.cat), head_is_left=res.head_is_left)))
        out.append(res.cat)
    if got[1]:
        distinct.add(key)
    # results are exactly the non-None combinator results, in list order
    want = [r for r in (c(kx, ky) for c in G.combinators) if r is not None]
    if len(want) != len(got[1]) or any(not (same(a.cat, b.cat) and tuple(a)[1:] == tuple(b)[1:]) for a, b in zip(want, got[1])):
        if len(fails) < 12:
            fails.append(dict(kind='apply_binary_rules is not the list of combinator results', witness=dict(x=key[0], y=key[1])))
    return out


t0 = time.time()
derived = {}
for x, y in seen_pairs:
    for c in check_pair(x, y):
        derived[str_spec(c)] = c
budget = 25000 if tier == 'quick' else 10 ** 9
pairs = list(itertools.product(inventory, inventory))
if len(pairs) > budget:
    pairs = rng.sample(pairs, budget)
for x, y in pairs:
    for c in check_pair(x, y):
        derived[str_spec(c)] = c
new = [c for k, c in derived.items() if all(k != str_spec(i) for i in inventory[:0])]
new = rng.sample(new, min(len(new), 60 if tier == 'quick' else 400))
inv_s = rng.sample(inventory, min(len(inventory), 60 if tier == 'quick' else 400))
for x in new:
    for y in inv_s:
        check_pair(x, y)
        check_pair(y, x)
# small synthetic categories
if lang == 'en':
    feats = [UnaryFeature(None), UnaryFeature('X'), UnaryFeature('nb'), UnaryFeature('dcl')]
    bases = ['S', 'NP', 'N', ',', 'conj']
else:
    feats = [TernaryFeature(('mod', 'nm'), ('form', 'base'), ('fin', 'f')), TernaryFeature(('mod', 'X1'), ('form', 'X2'), ('fin', 'X3')),
             TernaryFeature(('mod', 'adn'), ('form', 'base'), ('fin', 't'))]
    bases = ['S', 'NP']
atoms = [Atom(b, f) for b in bases for f in feats if not (b in (',', 'conj') and f.value is not None if lang == 'en' else False)]
two = [Functor(a, s, b) for a in atoms for s in '/\\|' for b in atoms]
three = [Functor(a, s, b) for a in rng.sample(two, 40) for s in '/\\' for b in atoms[:4]]
syn = atoms + rng.sample(two, min(len(two), 120 if tier == 'quick' else 600)) + three[:80 if tier == 'quick' else 400]
for x, y in itertools.product(syn, syn):
    check_pair(x, y)
# ---- one leaf changed: the consumed category differs from the argument slot in the feature of exactly one atom (every atom position in turn, so an atom
# the matcher fails to compare shows as a rule firing across a feature clash)
def set_leaf(c, i, f):
    """(c with the feature of its i-th atom replaced by f, number of atoms)"""
    if twin.is_atom(c):
        return (Atom(c.base, f) if i == 0 else c), 1
    l, nl_ = set_leaf(c.left, i, f)
    r, nr_ = set_leaf(c.right, i - nl_, f)
    return Functor(l, c.slash, r), nl_ + nr_


def other_feature(f):
    if lang == 'en':
        pool = [UnaryFeature('dcl'), UnaryFeature('ng'), UnaryFeature('pss'), UnaryFeature('adj')]
        return next(g for g in pool if not same(g, f))
    pool = [TernaryFeature(('mod', 'nm'), ('form', 'base'), ('fin', 'f')), TernaryFeature(('mod', 'adn'), ('form', 'cont'), ('fin', 't'))]
    return next(g for g in pool if not same(g, f))


big = [c for c in inventory if len(twin.leaves(c)) >= 3]
big = rng.sample(big, min(len(big), 120 if tier == 'quick' else 10 ** 6))
n_perturbed = 0
res_atom = Atom('S', UnaryFeature(None)) if lang == 'en' else Atom('S', TernaryFeature(('mod', 'nm'), ('form', 'base'), ('fin', 'f')))
for t in big:
    for i, f in enumerate(twin.leaves(t)):
        ti, _ = set_leaf(t, i, other_feature(f))
        n_perturbed += 1
        check_pair(Functor(res_atom, '/', t), ti)            # forward application across one changed atom
        check_pair(ti, Functor(res_atom, '\\', t))           # backward application
        check_pair(Functor(res_atom, '/', t), Functor(ti, '/', res_atom))     # composition

# ---- history: the same questions asked with freshly built, short-lived category objects while others stay alive (an answer must depend on the VALUES of
# the two categories, not on which objects carried them earlier)
kept = rng.sample(inventory, min(len(inventory), 20))
texts = [str_spec(c) for c in rng.sample(inventory, min(len(inventory), 60))]
n_stream = 0
for rep in range(1500 if tier == 'quick' else 20000):
    y = kept[rep % len(kept)]
    x = Category.parse(texts[(rep * 7) % len(texts)])          # a new object every time, dropped after the question
    n_stream += 1
    check_pair(x, y)
    check_pair(y, Category.parse(texts[(rep * 11) % len(texts)]))
    del x

print(json.dumps(dict(evaluations=n, distinct_nontrivial=len(distinct), results_checked=nres, failures=fails, wall=round(time.time() - t0, 1),
                      samples=[dict(x=a, y=b) for a, b in list(distinct)[:3]],
                      rule=(f'{lang}: {len(seen_pairs)} seen-rule pairs, {len(pairs)} pairs of the {len(inventory)} shipped categories '
                            f'({"seeded sample" if len(pairs) == budget else "all"}), {len(new)} derived x {len(inv_s)} shipped categories both ways, '
                            f'{len(syn)}^2 synthetic pairs; {n_perturbed} single-atom feature changes of shipped categories with >= 3 atoms (application / composition across the change); '
                            f'{n_stream} questions asked with freshly built short-lived objects; distinct_nontrivial = distinct pairs with at least one result'))))
