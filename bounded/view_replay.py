"""Replay of the tree-view contracts (contracts/printers.py) on the real code: every tree view with <= MAXW words (both head directions, unary steps)
is built with the real constructors and pushed through the real function; the result is compared with the python twin of the z3 spec function.
Prints one JSON line: {function: {reproduced, tree, got, want}}.  Used when a deductive obligation of that function is refuted or left undecided:
a concrete failing input makes it a violation, none leaves it undecided."""
import json
import os
import sys

from vc import trees as T
from depccg.printer import conll, xml as xml_printer, jigg_xml, auto, my_json
from depccg.tools import reader
from depccg.tools.ja import reader as ja_reader
from depccg.printer import ja as ja_printer
from depccg.utils import denormalize

Tree, Token = T.Tree, T.Token
MAXW = int(os.environ.get('VERIF_REPLAY_WORDS', '4'))
CATS = [T.Category.parse(c) for c in ('N', 'NP', 'S[dcl]\\NP', 'S[dcl]', '(S[dcl]\\NP)/NP')]


def shapes(n):
    if n == 1:
        base = [('L',)]
    else:
        base = [('B', l, r, h) for k in range(1, n) for l in shapes(k) for r in shapes(n - k) for h in (True, False)]
    return base + [('U', b) for b in base if b[0] != 'U']


class Builder:
    def __init__(self):
        self.n, self.nodes = 0, 0

    def build(self, v):
        self.nodes += 1
        cat = CATS[self.nodes % len(CATS)]
        if v[0] == 'L':
            self.n += 1
            return Tree.make_terminal(Token(word='w%d' % self.n, pos='P%d' % self.n), cat)
        if v[0] == 'U':
            k = self.nodes
            return Tree.make_unary(cat, self.build(v[1]), 'u%d' % k, '<u%d>' % k)
        k = self.nodes
        l = self.build(v[1])
        r = self.build(v[2])
        return Tree.make_binary(cat, l, r, 'b%d' % k, '<b%d>' % k, v[3])


def nleaves(v):
    return 1 if v[0] == 'L' else nleaves(v[1]) if v[0] == 'U' else nleaves(v[1]) + nleaves(v[2])


def nnodes(v):
    return 1 if v[0] == 'L' else 1 + nnodes(v[1]) if v[0] == 'U' else 1 + nnodes(v[1]) + nnodes(v[2])


def headpos(v):
    if v[0] == 'L':
        return 0
    if v[0] == 'U':
        return headpos(v[1])
    return headpos(v[1]) if v[3] else nleaves(v[1]) + headpos(v[2])


def dep(v, i):
    if v[0] == 'L':
        return -1
    if v[0] == 'U':
        return dep(v[1], i)
    nl = nleaves(v[1])
    if i < nl:
        if i == headpos(v[1]):
            return -1 if v[3] else nl + headpos(v[2])
        return dep(v[1], i)
    if i - nl == headpos(v[2]):
        return headpos(v[1]) if v[3] else -1
    return nl + dep(v[2], i - nl)


def enc_xml(v, t, s):
    """twin of tv_enc_xml over the real tree t (for categories, labels, tokens)"""
    if v[0] == 'L':
        return ('lf', dict(start=str(s), span='1', cat=str(t.cat), **{k: x for k, x in t.token.items()}))
    if v[0] == 'U':
        return ('rule', dict(type=t.op_string, cat=str(t.cat)), enc_xml(v[1], t.children[0], s))
    return ('rule', dict(type=t.op_string, cat=str(t.cat)), enc_xml(v[1], t.children[0], s), enc_xml(v[2], t.children[1], s + nleaves(v[1])))


def elem(e):
    return (e.tag, dict(e.attrib)) + tuple(elem(k) for k in e)


def span_recs(v, t, sid, p, c, use_symbol):
    """twin of tv_span_rec: the list of span attribute dicts in pre-order"""
    cat = jigg_xml._cat_multi_valued(t.cat)
    if v[0] == 'L':
        return [dict(category=cat, id='s%d_sp%d' % (sid, p), terminal='s%d_%d' % (sid, c), begin=str(c), end=str(c + 1))]
    rule = t.op_symbol if use_symbol else t.op_string
    if v[0] == 'U':
        own = dict(category=cat, id='s%d_sp%d' % (sid, p), child='s%d_sp%d' % (sid, p + 1), rule=rule, begin=str(c), end=str(c + nleaves(v)))
        return [own] + span_recs(v[1], t.children[0], sid, p + 1, c, use_symbol)
    own = dict(category=cat, id='s%d_sp%d' % (sid, p), child='s%d_sp%d s%d_sp%d' % (sid, p + 1, sid, p + 1 + nnodes(v[1])), rule=rule, begin=str(c), end=str(c + nleaves(v)))
    return [own] + span_recs(v[1], t.children[0], sid, p + 1, c, use_symbol) + span_recs(v[2], t.children[1], sid, p + 1 + nnodes(v[1]), c + nleaves(v[1]), use_symbol)


def auto_pieces(v, t):
    """twin of auto_tokat: the blank-separated pieces of the AUTO text"""
    if v[0] == 'L':
        pos = t.token.get('pos', 'POS')
        return ['(<L', str(t.cat), pos, pos, denormalize(t.word), str(t.cat) + '>)']
    if v[0] == 'U':
        return ['(<T', str(t.cat), '0', '1>'] + auto_pieces(v[1], t.children[0]) + [')']
    return ['(<T', str(t.cat), '0' if v[3] else '1', '2>'] + auto_pieces(v[1], t.children[0]) + auto_pieces(v[2], t.children[1]) + [')']


def iso_view(t):
    if t.is_leaf:
        return ('L', str(t.cat), t.token.get('pos', 'POS'), t.token['word'])
    if t.is_unary:
        return ('U', str(t.cat), iso_view(t.children[0]))
    return ('B', str(t.cat), bool(t.head_is_left), iso_view(t.children[0]), iso_view(t.children[1]))


def iso_spec(v, t):
    if v[0] == 'L':
        return ('L', str(t.cat), t.token.get('pos', 'POS'), denormalize(t.word))
    if v[0] == 'U':
        return ('U', str(t.cat), iso_spec(v[1], t.children[0]))
    return ('B', str(t.cat), bool(v[3]), iso_spec(v[1], t.children[0]), iso_spec(v[2], t.children[1]))


out = {}


def note(fn, v, got, want):
    if fn not in out:
        out[fn] = dict(reproduced=True, tree=repr(v), got=repr(got)[:600], want=repr(want)[:600])


prev = None
for n in range(1, MAXW + 1):
    for v in shapes(n):
        t = Builder().build(v)
        # conll: dependency column
        want = [-1 if i == headpos(v) else dep(v, i) for i in range(n)]
        try:
            got = list(conll._resolve_dependencies(t))
        except Exception as e:      # noqa
            got = 'raises %s: %s' % (type(e).__name__, e)
        if got != want:
            note('depccg/printer/conll.py::_resolve_dependencies', v, got, want)
        # C&C xml: element structure
        want = ('ccg', {}, enc_xml(v, t, 0))
        try:
            got = elem(xml_printer._process_tree(t))
        except Exception as e:      # noqa
            got = 'raises %s: %s' % (type(e).__name__, e)
        if got != want:
            note('depccg/printer/xml.py::_process_tree', v, got, want)
        # Jigg: two trees through one converter (this one after the previous one)
        for use_symbol in (False, True):
            try:
                conv = jigg_xml._ConvertToJiggXML(3, use_symbol)
                trees = [(prev[0], prev[1])] if prev else []
                trees.append((v, t))
                p = 0
                for k, (vv, tt) in enumerate(trees):
                    res = conv.process(tt, None)
                    recs = span_recs(vv, tt, 3, p, 0, use_symbol)
                    recs[0]['root'] = 'true'
                    want = ('ccg', dict(id='s3_ccg%d' % k, root='s3_sp%d' % p), recs)
                    got = (res.tag, dict(res.attrib), [dict(e.attrib) for e in res])
                    if got != want:
                        note('depccg/printer/jigg_xml.py::_ConvertToJiggXML.process', vv, got, want)
                    p += nnodes(vv)
            except Exception as e:      # noqa
                note('depccg/printer/jigg_xml.py::_ConvertToJiggXML.process', v, 'raises %s: %s' % (type(e).__name__, e), None)
        # json: record structure
        def enc_json(vv, tt, full):
            cat = my_json._json_of_category(tt.cat) if full else str(tt.cat)
            if vv[0] == 'L':
                return dict(dict(tt.token), cat=cat)
            kids = [enc_json(vv[1], tt.children[0], full)] + ([enc_json(vv[2], tt.children[1], full)] if vv[0] == 'B' else [])
            return dict(type=tt.op_string, cat=cat, children=kids)
        for full in (False,):
            try:
                got = my_json.json_of(t, full=full)
            except Exception as e:      # noqa
                got = 'raises %s: %s' % (type(e).__name__, e)
            want = enc_json(v, t, full)
            if got != want:
                note('depccg/printer/my_json.py::json_of', v, got, want)
        # AUTO: the printed text is the pieces of the spec; reading it yields a tree iso to the one printed
        try:
            got = auto.auto_of(t).split(' ')
        except Exception as e:      # noqa
            got = 'raises %s: %s' % (type(e).__name__, e)
        want = auto_pieces(v, t)
        if got != want:
            note('depccg/printer/auto.py::auto_of', v, got, want)
        try:
            T.lang.set_global_language_to('en')
            r, _ = reader._AutoLineReader(' '.join(want)).parse()
            got = iso_view(r)
        except Exception as e:      # noqa
            got = 'raises %s: %s' % (type(e).__name__, e)
        want = iso_spec(v, t)
        if got != want:
            note('depccg/tools/reader.py::_AutoLineReader', v, got, want)
        # Japanese bank format: rule symbols from the reader's fixed set; the text read back is iso (shape, category text, symbol, word)
        try:
            syms = sorted(ja_reader.combinators)
            cnt = [0]

            def jbuild(vv):
                cnt[0] += 1
                cat = CATS[cnt[0] % len(CATS)]
                if vv[0] == 'L':
                    return Tree.make_terminal(Token(word='w%d' % cnt[0]), cat)
                sym = syms[cnt[0] % len(syms)]
                if vv[0] == 'U':
                    return Tree.make_unary(cat, jbuild(vv[1]), sym, sym)
                return Tree.make_binary(cat, jbuild(vv[1]), jbuild(vv[2]), sym, sym, vv[3])

            def jview(x):
                if x.is_leaf:
                    return ('L', str(x.cat), x.token.get('word', x.token.get('surf')))
                return ('N', x.op_symbol, str(x.cat)) + tuple(jview(k) for k in x.children)
            jt = jbuild(v)
            text = ja_printer.ja_of(jt)
            r, _ = ja_reader._JaCCGLineReader(text).parse()
            got, want = jview(r), jview(jt)
        except Exception as e:      # noqa
            got, want = 'raises %s: %s' % (type(e).__name__, e), None
        if got != want:
            note('depccg/tools/ja/reader.py::_JaCCGLineReader', v, got, want)
        prev = (v, t)
print(json.dumps(dict(results=out, rule='every tree view with <= %d words, unary chains of length 1, both head directions; Jigg: each tree after the previous one on the same converter' % MAXW)))
