"""Bounded stand-in for C14 on the real code: totality, purity, repeatability across calls and across PYTHONHASHSEED values,
seen-rule filter, nb-independence and unary tables, on the shipped inventories / files and synthetic categories."""
import itertools, json, os, random, subprocess, sys, time, copy
from depccg.cat import Category, Atom, Functor, UnaryFeature, TernaryFeature
from vc import twin, jsonnet_lite
from vc.twin import same, str_spec, outcome, erase

tier = os.environ.get('VERIF_TIER', 'quick')
rng = random.Random(int(os.environ.get('VERIF_SEED', '0') or 0))
REPO = os.environ.get('VERIF_REPO', '/repo')
md = os.path.join(REPO, 'depccg/models')
from depccg.grammar import en, ja

fails, n, distinct = [], 0, set()


def fail(kind, **w):
    if len(fails) < 12:
        fails.append(dict(kind=kind, witness={k: (v if isinstance(v, (str, int, list, type(None))) else repr(v)) for k, v in w.items()}))


def load(name, key):
    try:
        return jsonnet_lite.load(os.path.join(md, name))[key]
    except Exception:
        return []


def cats(texts):
    out = {}
    for t in texts:
        try:
            c = Category.parse(t)
            out[str_spec(c)] = c
        except Exception:
            pass
    return list(out.values())


def show(rs):
    return [(str_spec(r.cat), r.op_string, r.op_symbol, r.head_is_left) for r in rs]


def snapshot(c):
    return twin.fields(c) if not isinstance(c, (str, type(None))) else c


def check(G, lang, x, y, seen, key_fn):
    global n
    n += 1
    kx, ky = str_spec(x), str_spec(y)
    a = outcome(G.apply_binary_rules, x, y)
    if a[0] != 'return':
        return fail('apply_binary_rules raises', lang=lang, x=kx, y=ky, got=a)
    b = outcome(G.apply_binary_rules, x, y)
    if b[0] != 'return' or show(a[1]) != show(b[1]):
        fail('two calls give different lists', lang=lang, x=kx, y=ky)
    if str_spec(x) != kx or str_spec(y) != ky:
        fail('arguments changed', lang=lang, x=kx, y=ky)
    if a[1]:
        distinct.add((lang, kx, ky))
    f = outcome(G.apply_binary_rules, x, y, seen)
    sk = key_fn(x, y)
    inset = sk in seen
    want = show(a[1]) if inset else []
    if f[0] != 'return' or show(f[1]) != want:
        fail('seen-rule filter is not all-or-nothing', lang=lang, x=kx, y=ky, in_set=inset)
    if lang == 'en':
        NB = [UnaryFeature('nb')]
        ex, ey = erase(x, NB), erase(y, NB)
        g = outcome(G.apply_binary_rules, ex, ey)
        if g[0] != 'return' or show(g[1]) != show(a[1]):
            fail("results depend on 'nb' marks", x=kx, y=ky)


t0 = time.time()
for lang, G in (('en', en), ('ja', ja)):
    if lang == 'en':
        inv = cats(load('targets.en.jsonnet', 'targets') + load('targets.en_rebank.jsonnet', 'targets'))
        sr = load('seen_rules.en.jsonnet', 'seen_rules')
        seen = set()
        for a_, b_ in sr:
            try:
                seen.add((Category.parse(a_).clear_features('X', 'nb'), Category.parse(b_).clear_features('X', 'nb')))
            except Exception:
                pass
        key_fn = lambda x, y: (x.clear_features('X', 'nb'), y.clear_features('X', 'nb'))
        un = load('unary_rules.en.jsonnet', 'unary_rules')
    else:
        inv = cats(load('targets.ja.jsonnet', 'targets'))
        sr = load('seen_rules.ja.jsonnet', 'seen_rules')
        seen = set()
        for a_, b_ in sr:
            try:
                seen.add((Category.parse(a_), Category.parse(b_)))
            except Exception:
                pass
        key_fn = lambda x, y: (x, y)
        un = load('unary_rules.ja.jsonnet', 'unary_rules')
    pairs = [(Category.parse(a_), Category.parse(b_)) for a_, b_ in rng.sample(sr, min(len(sr), 600 if tier == 'quick' else 6000))]
    allp = list(itertools.product(inv, inv))
    pairs += rng.sample(allp, min(len(allp), 4000 if tier == 'quick' else 60000))
    for x, y in pairs:
        check(G, lang, x, y, seen, key_fn)
    # unary tables
    table = {}
    for k, v in un:
        table.setdefault(Category.parse(k), []).append(Category.parse(v))
    import collections
    for x in inv + list(table):
        n += 1
        r = outcome(G.apply_unary_rules, x, table)
        want = [str_spec(c) for c in table.get(x, [])]
        if r[0] != 'return' or [str_spec(z.cat) for z in r[1]] != want:
            fail('unary rules are not exactly the configured targets, in order', lang=lang, x=str_spec(x), got=repr(r)[:200], want=want)
    # the table as the project's own loader builds it (depccg/allennlp/utils.py: a defaultdict(list)): the argument stays unchanged
    dtable = collections.defaultdict(list)
    for k_, v_ in table.items():
        dtable[k_] = list(v_)
    before = {k_: list(v_) for k_, v_ in dtable.items()}
    for x in inv + list(table):
        n += 1
        outcome(G.apply_unary_rules, x, dtable)
    if {k_: list(v_) for k_, v_ in dtable.items()} != before:
        fail('apply_unary_rules modifies the unary table it is given (defaultdict table)', lang=lang, keys_before=len(before), keys_after=len(dtable))

# hash-seed independence: synthetic pairs with several occurrences of a feature variable bound to different values
child = r'''
import json, sys
from depccg.cat import Category
from depccg.grammar import en, ja
from vc.twin import str_spec
out = []
for lang, x, y in json.loads(sys.stdin.read()):
    G = en if lang == 'en' else ja
    rs = G.apply_binary_rules(Category.parse(x), Category.parse(y))
    out.append([(str_spec(r.cat), r.op_string, r.op_symbol, r.head_is_left) for r in rs])
print(json.dumps(out))
'''
seedpairs = [('en', 'S[X]/(N[X]/N[X])', 'N[dcl]/N[em]'), ('en', '(S[X]/S[X])/(NP[X]/N[X])', 'NP[a]/N[b]'), ('en', 'NP[c]\\N[d]', 'S[X]\\(NP[X]\\N[X])'),
             ('en', '(S[X]\\NP[X])/((S[X]/S[X])/(S[X]\\S[X]))', '((S[a]/S[b])/(S[c]\\S[d]))/NP'),
             ('ja', 'S[mod=X1,form=X2,fin=X3]/(NP[mod=X1,form=X2,fin=X3]/NP[mod=X1,form=X2,fin=X3])', 'NP[mod=nm,form=base,fin=f]/NP[mod=adn,form=cont,fin=t]')]
for lang, G in (('en', en), ('ja', ja)):
    for x, y in list(distinct)[:0]:
        pass
sample = [(l, x, y) for (l, x, y) in list(distinct)[:150 if tier == 'quick' else 1500]]
batch = seedpairs + sample
res = {}
nseeds = 8 if tier == 'quick' else 64
for sd in range(nseeds):
    env = dict(os.environ, PYTHONHASHSEED=str(sd))
    p = subprocess.run([sys.executable, '-c', child], input=json.dumps(batch), capture_output=True, text=True, env=env)
    try:
        res[sd] = json.loads(p.stdout)
    except Exception:
        fail('child process failed', seed=sd, err=p.stderr[-300:])
for i, (lang, x, y) in enumerate(batch):
    n += 1
    vals = {json.dumps(res[sd][i]) for sd in res}
    if len(vals) > 1:
        fail('result depends on PYTHONHASHSEED', lang=lang, x=x, y=y, results=sorted(vals)[:3])
print(json.dumps(dict(evaluations=n, distinct_nontrivial=len(distinct), failures=fails, wall=round(time.time() - t0, 1),
                      samples=[dict(lang=l, x=x, y=y) for l, x, y in list(distinct)[:3]],
                      rule=(f'en and ja: seeded samples of seen-rule pairs and inventory pairs (totality, purity, two calls, filter against the shipped seen-rule set, nb-independence), '
                            f'every left-hand side and inventory category against the shipped unary table, {len(batch)} pairs (incl. synthetic pairs binding one feature variable to different values) '
                            f'under {nseeds} values of PYTHONHASHSEED; distinct_nontrivial = distinct pairs with a result'))))
