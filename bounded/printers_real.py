"""Bounded stand-ins for the printer / reader properties on the real code (C07, C08, C15, C18, C19, C20).
Generates derivations licensed by the shipped grammars over small lexicons and arbitrary well-formed trees with adversarial
tokens, renders them with the real encoders and decodes with INDEPENDENT spec decoders / the repository's readers.
Failures are tagged with the property they violate.  Prints one JSON object."""
import copy
import json
import os
import random
import re
import sys
import tempfile
import time

from vc import trees as T
from vc.trees import Tree, ScoredTree, Token, Category, etree

tier = os.environ.get('VERIF_TIER', 'quick')
rng = random.Random(int(os.environ.get('VERIF_SEED', '0') or 0))
only = set(filter(None, os.environ.get('VERIF_PROPS', '').split(',')))
fails = []
stats = dict(n=0, trees=0, renders=0, formats=set(), labels=set(), distinct=set())
TMP = tempfile.mkdtemp(prefix='printers_real.')


def fail(prop, kind, **w):
    if only and prop not in only:
        return
    if len([f for f in fails if f['prop'] == prop and f['kind'] == kind]) < 3 and len([f for f in fails if f['prop'] == prop]) < 10:
        fails.append(dict(prop=prop, kind=kind, witness={k: (v if isinstance(v, (int, float, str, list, dict, bool, type(None))) else repr(v))[:600] if isinstance(v, str) else
                                                         (v if isinstance(v, (int, float, list, dict, bool, type(None))) else repr(v)[:600]) for k, v in w.items()}))


# ------------------------------------------------------------------ spec helpers (written from the format descriptions, not from the printers)
def escape_spec(w):
    table = {'(': '-LRB-', ')': '-RRB-', '{': '-LCB-', '}': '-RCB-', '[': '-LSB-', ']': '-RSB-'}
    if w in table:
        return table[w]
    return w.replace('>', '-RAB-').replace('<', '-LAB-')


def decode_auto(line, extended=False):
    """AUTO: (<T cat [rule] head n> child ... ) / (<L cat pos pos word cat>) | extended leaf: (<L cat word lemma pos entity chunk cat>)"""
    f = line.split(' ')
    pos = 0

    def node():
        nonlocal pos
        if f[pos] == '(<T':
            cat = f[pos + 1]
            k = pos + 2
            rule = None
            if extended:
                rule = f[k]
                k += 1
            head, n = f[k], f[k + 1]
            assert n.endswith('>'), line
            pos = k + 2
            ch = []
            while f[pos] != ')':
                ch.append(node())
            pos += 1
            assert len(ch) == int(n[:-1])
            return ('N', cat, rule, head == '0', tuple(ch))
        assert f[pos] == '(<L', (f[pos], line)
        if extended:
            cat, word, lemma, p, ent, chunk, cat2 = f[pos + 1:pos + 8]
            assert cat2.endswith('>)') and cat2[:-2] == cat
            pos += 8
            return ('L', cat, dict(word=word, lemma=lemma, pos=p, entity=ent, chunk=chunk))
        cat, p1, p2, word, cat2 = f[pos + 1:pos + 6]
        assert cat2.endswith('>)') and cat2[:-2] == cat and p1 == p2, line
        pos += 6
        return ('L', cat, dict(word=word, pos=p1))
    t = node()
    assert pos == len(f), line
    return t


def view_auto(t, extended=False, default_pos='POS'):
    if t.is_leaf:
        tok = t.token
        if extended:
            return ('L', str(t.cat), dict(word=escape_spec(tok['word']), lemma=tok.get('lemma', 'XX'), pos=tok.get('pos', 'XX'), entity=tok.get('entity', 'XX'), chunk=tok.get('chunk', 'XX')))
        return ('L', str(t.cat), dict(word=escape_spec(tok['word']), pos=tok.get('pos', default_pos)))
    return ('N', str(t.cat), t.op_string if extended else None, bool(t.head_is_left), tuple(view_auto(c, extended, default_pos) for c in t.children))


def decode_ptb(line):
    assert line.startswith('(ROOT ') and line.endswith(')')
    s = line[6:-1]
    f = s.split(' ')
    pos = 0

    def node():
        nonlocal pos
        assert f[pos].startswith('('), line
        cat = f[pos][1:]
        pos += 1
        if not f[pos].startswith('('):
            w_ = f[pos]
            pos += 1
            return ('L', cat, w_)            # trailing brackets are resolved by the caller through the expected closing counts
        ch = []
        while pos < len(f) and f[pos].startswith('('):
            ch.append(node())
        return ('N', cat, tuple(ch))
    return node()


def view_ptb_text(t):
    """the PTB text the format prescribes: (cat word) / (cat child child)"""
    if t.is_leaf:
        return f'({t.cat} {t.token["word"]})'
    return f'({t.cat} ' + ' '.join(view_ptb_text(c) for c in t.children) + ')'


def decode_ja(line):
    pos = 0

    def node():
        nonlocal pos
        assert line[pos] == '{', line
        end = line.index(' ', pos)
        head = line[pos + 1:end]
        nxt = line[end + 1:]
        # a leaf is {cat word/word/pos/infl}: the part after the first blank has no blank before its closing brace and three slashes
        m = re.match(r'([^ {}]*)\}', nxt)
        if m and m.group(1).count('/') >= 3:
            fields = m.group(1).split('/')
            pos = end + 1 + len(m.group(0))
            return ('L', head, fields)
        sym = head
        end2 = line.index(' ', end + 1)
        cat = line[end + 1:end2]
        pos = end2 + 1
        ch = []
        while line[pos] != '}':
            ch.append(node())
            if line[pos] == ' ':
                pos += 1
        pos += 1
        return ('N', sym, cat, tuple(ch))
    t = node()
    assert pos == len(line), (pos, len(line), line)
    return t


def view_ja(t):
    if t.is_leaf:
        tok = t.token
        poss = [tok.get(k, '*') for k in ('pos', 'pos1', 'pos2', 'pos3')]
        poss = [p for p in poss if p != '*']
        infl = [tok.get(k, '*') for k in ('inflectionForm', 'inflectionType')]
        infl = [p for p in infl if p != '*']
        w_ = {'-LRB-': '(', '-RRB-': ')', '-LCB-': '{', '-RCB-': '}', '-LSB-': '[', '-RSB-': ']'}.get(tok['word'], tok['word'])
        return ('L', str(t.cat), [w_, w_, '-'.join(poss) if poss else '_', '-'.join(infl) if infl else '_'])
    return ('N', t.op_symbol, str(t.cat), tuple(view_ja(c) for c in t.children))


def shape_of_view(v):
    if v[0] == 'L':
        return ('L', v[1])
    return ('N', v[-1 - 0][0] if False else None)


def plain_shape(t):
    """(cat, children) only"""
    if t.is_leaf:
        return (str(t.cat),)
    return (str(t.cat), tuple(plain_shape(c) for c in t.children))


def tree_signature(t, labels=True, heads=True, words='word', tokens=False):
    if t.is_leaf:
        return ('L', str(t.cat), t.token.get(words, t.token.get('surf')), tuple(sorted(t.token.items())) if tokens else None)
    return ('N', str(t.cat), (t.op_string, t.op_symbol) if labels else None, bool(t.head_is_left) if heads and not t.is_unary else None,
            tuple(tree_signature(c, labels, heads, words, tokens) for c in t.children))


# ------------------------------------------------------------------ corpus
def make_nbest(which, grammar_based=True, adversarial=False, k=1, rich=True):
    """one sentence: k trees over the SAME token objects"""
    if grammar_based:
        t = T.random_derivation(which, rng, max_len=4)
        if t is None:
            return None
        trees = [t]
        toks = t.tokens
        for _ in range(k - 1):
            t2 = rebuild_over(toks, t, which)
            trees.append(t2)
        return [ScoredTree(x, -rng.random() * 5) for x in trees]
    cats = [Category.parse(c) for c in (['NP', 'N', 'S[dcl]\\NP', '(S[dcl]\\NP)/NP', 'S[dcl]', 'NP[nb]/N', 'conj', '(S\\NP)\\(S\\NP)', 'N[num]'] if which == 'en' else
                                      ['NP[case=nc,mod=nm,fin=f]', 'S[mod=nm,form=base,fin=f]\\NP[case=ga,mod=nm,fin=f]', 'S[mod=nm,form=base,fin=t]', 'NP[case=ga,mod=nm,fin=f]'])]
    if which == 'en':
        # categories built with the constructors (not through Category.parse): a feature on the right-most atom, the CCGbank conjunction mark among them
        A, F, U = T.Atom, T.Functor, T.UnaryFeature
        cats += [A('NP', U('conj')), F(A('S', U('dcl')), '\\', A('NP', U('conj'))), F(A('NP'), '/', A('N', U('num')))]
    labels = reachable_labels(which)
    words = T.ADVERSARIAL if adversarial else (list(T.EN_LEX) if which == 'en' else list(T.JA_LEX))
    n = rng.randint(1, 5)
    toks = [(T.en_token(rng.choice(words), rng, rich) if which == 'en' else T.ja_token(rng.choice(words), rng)) for _ in range(n)]
    trees = [tree_over(toks, cats, labels) for _ in range(k)]
    return [ScoredTree(x, -rng.random() * 5) for x in trees]


_REACH = {}


def reachable_labels(which):
    """labels the rule functions emit with the shipped tables (binary: all; unary: those produced for some left-hand side of the shipped unary table)"""
    if which not in _REACH:
        b, u = T.grammar_labels(which)
        G = T.en if which == 'en' else T.ja
        un = T.unary_table(which)
        got = set()
        for x in un:
            for r in G.apply_unary_rules(x, un):
                got.add((r.op_string, r.op_symbol))
        if not b:
            # no label is written as a literal in the grammar module: take the labels the rule functions actually emit on the shipped seen-rule pairs
            dyn = set()
            for a_, b_ in T.jsonnet_table(f'seen_rules.{which}.jsonnet', 'seen_rules')[:3000]:
                try:
                    for r in G.apply_binary_rules(Category.parse(a_), Category.parse(b_)):
                        dyn.add((r.op_string, r.op_symbol))
                except Exception:       # noqa
                    pass
            b = sorted(dyn)
        _REACH[which] = (b or [('unk', '<unk>')], sorted(got) or u or [('lex', '<un>')])
    return _REACH[which]


def tree_over(toks, cats, labels):
    def rec(lo, hi):
        if hi - lo == 1:
            t = Tree.make_terminal(toks[lo], rng.choice(cats))
        else:
            m = rng.randint(lo + 1, hi - 1)
            s1, s2 = rng.choice(labels[0])
            t = Tree.make_binary(rng.choice(cats), rec(lo, m), rec(m, hi), s1, s2, rng.random() < 0.5)
        if rng.random() < 0.15:
            s1, s2 = rng.choice(labels[1])
            t = Tree.make_unary(rng.choice(cats), t, s1, s2)
        return t
    return rec(0, len(toks))


def rebuild_over(toks, t, which):
    """another tree over the same token objects (same shape, fresh node objects)"""
    it = iter(toks)

    def rec(node):
        if node.is_leaf:
            return Tree.make_terminal(next(it), node.cat)
        ch = [rec(c) for c in node.children]
        if len(ch) == 1:
            return Tree.make_unary(node.cat, ch[0], node.op_string, node.op_symbol)
        return Tree.make_binary(node.cat, ch[0], ch[1], node.op_string, node.op_symbol, node.head_is_left)
    return rec(t)


from depccg.cat import Functor as _Functor


def deep_probe(which):
    """labels the rule functions return for categories DEEPER than anything the lexicon holds (derived categories accumulate arguments): functors with 1..7 arguments
    combined with a modifier on either side, all slash directions.  Whatever node the grammar licenses here the parser can return, so it must render (C19)."""
    G = T.en if which == 'en' else T.ja
    if which == 'en':
        s_, np_ = Category.parse('S[dcl]'), Category.parse('NP')
        mods = [Category.parse('S/S'), Category.parse('S\\S'), Category.parse('S[dcl]/S[dcl]'), Category.parse('S[dcl]\\S[dcl]')]
    else:
        s_, np_ = Category.parse('S[mod=nm,form=base,fin=f]'), Category.parse('NP[case=ga,mod=nm,fin=f]')
        mods = [Category.parse('S[mod=nm,form=base,fin=f]/S[mod=nm,form=base,fin=f]'), Category.parse('S[mod=nm,form=base,fin=f]\\S[mod=nm,form=base,fin=f]'),
                Category.parse('S[mod=X1,form=X2,fin=X3]/S[mod=X1,form=X2,fin=X3]'), Category.parse('S[mod=X1,form=X2,fin=X3]\\S[mod=X1,form=X2,fin=X3]')]
    seen_labels = set()
    for slash in ('\\', '/'):
        deep = s_
        for k in range(1, 8):
            deep = _Functor(deep, slash, np_)
            for m in mods:
                for x, y in ((m, deep), (deep, m)):
                    try:
                        results = G.apply_binary_rules(x, y)
                    except Exception:       # noqa (totality is C14's business)
                        continue
                    for r in results:
                        key = (r.op_string, r.op_symbol, k)
                        if key in seen_labels:
                            continue
                        seen_labels.add(key)
                        tok = (lambda w_: T.en_token(w_, rng)) if which == 'en' else (lambda w_: T.ja_token(w_, rng))
                        t = Tree.make_binary(r.cat, Tree.make_terminal(tok('w1'), x), Tree.make_terminal(tok('w2'), y), r.op_string, r.op_symbol, r.head_is_left)
                        stats['labels'].add((which, r.op_string, r.op_symbol))
                        check_all_formats(which, [[ScoredTree(t, -1.0)]], dict(case='deep categories', label=[r.op_string, r.op_symbol], arguments=k, lang=which))


def label_coverage(which):
    """for every label the rule functions can return, one small derivation that carries it (built with the real rule functions)"""
    G = T.en if which == 'en' else T.ja
    want_b, want_u = T.grammar_labels(which)
    found = {}
    pairs = T.jsonnet_table(f'seen_rules.{which}.jsonnet', 'seen_rules')
    extra = [('conj', 'NP\\NP'), (',', 'S[ng]\\NP'), (',', 'S[dcl]/S[dcl]'), ('LRB', 'NP'), ('NP', ','), (',', 'NP'), ('conj', 'NP'), ('(N/N)\\NP', 'S[dcl]\\NP'), ('(S\\NP)/NP', '(S\\NP)\\(S\\NP)')] if which == 'en' else \
        [('S[mod=nm,form=base,fin=t]', 'S[mod=nm,form=base,fin=t]')]
    for a, b in extra + list(pairs):
        if len(found) == len(want_b):
            break
        try:
            x, y = Category.parse(a), Category.parse(b)
        except Exception:
            continue
        for r in G.apply_binary_rules(x, y):
            key = (r.op_string, r.op_symbol)
            if key in want_b and key not in found:
                tok = (lambda w_: T.en_token(w_, rng)) if which == 'en' else (lambda w_: T.ja_token(w_, rng))
                found[key] = Tree.make_binary(r.cat, Tree.make_terminal(tok('w1'), x), Tree.make_terminal(tok('w2'), y), r.op_string, r.op_symbol, r.head_is_left)
    un = T.unary_table(which)
    foundu = {}
    cands = list(un) + ([Category.parse('S[mod=adv,form=cont,fin=f]'), Category.parse('(S[mod=adv,form=cont,fin=f]\\NP[case=ga,mod=nm,fin=f])\\NP[case=o,mod=nm,fin=f]'),
                         Category.parse('S[mod=adn,form=base,fin=f]'), Category.parse('S[mod=nm,form=base,fin=f]')] if which == 'ja' else [])
    for x in cands:
        table = un if x in un else {x: [Category.parse('NP[case=nc,mod=X1,fin=X2]/NP[case=nc,mod=X1,fin=X2]')]}
        for r in G.apply_unary_rules(x, table):
            key = (r.op_string, r.op_symbol)
            if key in want_u and key not in foundu:
                tok = T.en_token('w', rng) if which == 'en' else T.ja_token('w', rng)
                foundu[key] = Tree.make_unary(r.cat, Tree.make_terminal(tok, x), r.op_string, r.op_symbol)
    return found, foundu, want_b, want_u


def formats_for(which):
    return [f for f in T.cli_formats()[which] if f not in T.UNREACHABLE]


# ------------------------------------------------------------------ C18 / C19
def check_render(which, nbest_batch, domain_c19, ctx):
    fmts = formats_for(which)
    fresh = copy.deepcopy(nbest_batch)
    s0 = T.snapshot(nbest_batch)
    seq = [rng.choice(fmts) for _ in range(rng.choice([2, 3, 4]))] + ['jigg_xml'] + [rng.choice(fmts) for _ in range(2)]
    for f in seq:
        stats['renders'] += 1
        stats['formats'].add((which, f))
        try:
            out = T.to_string(nbest_batch, format=f)
        except Exception as e:       # noqa
            if domain_c19:
                fail('C19', 'rendering raises', **dict(ctx, format=f, lang=which, error=f'{type(e).__name__}: {e}'))
            out = ('raised', type(e).__name__)
        try:
            want = T.to_string(copy.deepcopy(fresh), format=f)
        except Exception as e:       # noqa
            want = ('raised', type(e).__name__)
        if T.snapshot(nbest_batch) != s0:
            fail('C18', 'rendering changed the parse results', **dict(ctx, format=f, lang=which, sequence=seq))
            return
        if out != want:
            fail('C18', 'output differs from rendering a fresh copy', **dict(ctx, format=f, lang=which, sequence=seq))
            return


def check_history(which):
    """C18: what a rendering prints does not depend on what was rendered before it (in the same or another format).  The batch mixes the failure placeholder -
    whose token carries nothing but the word - with annotated sentences, so a default leaking from one token to the next shows."""
    fmts = formats_for(which)
    for rep in range(6 if tier == 'quick' else 60):
        a = make_nbest(which, grammar_based=True, adversarial=False, k=1, rich=True)
        b = make_nbest(which, grammar_based=True, adversarial=False, k=1, rich=True)
        if a is None or b is None:
            continue
        batch = [T.placeholder(), a, T.placeholder()]
        for f in fmts:
            stats['renders'] += 3
            try:
                first = T.to_string(copy.deepcopy(batch), format=f)
            except Exception:       # noqa  (C19's business)
                continue
            try:
                T.to_string(copy.deepcopy([b, a]), format=f)
                T.to_string(copy.deepcopy([b]), format=rng.choice(fmts))
                again = T.to_string(copy.deepcopy(batch), format=f)
            except Exception as e:       # noqa
                again = ('raised', type(e).__name__)
            if again != first:
                diff = next((i for i, (x, y) in enumerate(zip(first, again)) if x != y), 0) if isinstance(again, str) else 0
                fail('C18', 'output depends on what was rendered before', format=f, lang=which, first=first[max(0, diff - 80):diff + 80],
                     again=again[max(0, diff - 80):diff + 80] if isinstance(again, str) else list(again), between=T.auto.auto_of(b[0].tree)[:200])
                return


def check_all_formats(which, nbest_batch, ctx):
    for f in formats_for(which):
        stats['renders'] += 1
        try:
            T.to_string(copy.deepcopy(nbest_batch), format=f)
        except Exception as e:       # noqa
            fail('C19', 'rendering raises', **dict(ctx, format=f, lang=which, error=f'{type(e).__name__}: {e}'))


# ------------------------------------------------------------------ C07 / C08 / C20 / C15
def check_codecs(which, nbest_batch, grammar_based, ctx):
    trees = [st.tree for trees in nbest_batch for st in trees]
    for t in trees:
        stats['trees'] += 1
        words = [tok['word'] for tok in t.tokens]
        # ---- auto / auto_extended (C07) and read back (C08)
        line = T.auto.auto_of(t)
        try:
            if decode_auto(line) != view_auto(t):
                fail('C07', 'auto does not decode to the derivation', line=line, **ctx)
            if which == 'en':
                le = T.auto.auto_extended_of(t)
                if decode_auto(le, True) != view_auto(t, True):
                    fail('C07', 'auto_extended does not decode to the derivation', line=le, **ctx)
        except Exception as e:       # noqa
            fail('C07', 'auto text cannot be decoded', line=line, error=repr(e)[:200], **ctx)
        # conll
        try:
            rows = [r.split('\t') for r in T.conll.conll_of(t).split('\n')]
            heads = T.heads_spec(t)
            ok = len(rows) == len(words)
            for i, r in enumerate(rows):
                ok = ok and len(r) == 10 and r[0] == str(i + 1) and r[1] == escape_spec(words[i]) and r[6] == str(heads[i] + 1) and r[7] == str(t.leaves[i].cat)
            if not ok:
                fail('C07', 'conll columns / heads differ from the derivation', rows=[r[:9] for r in rows], heads=heads, **ctx)
            if sum(1 for h in heads if h == -1) != 1:
                fail('C07', 'conll: not exactly one root', heads=heads, **ctx)
            frag = ' '.join(r[9] for r in rows)
            want = decode_auto_default(t)
            if frag != want:
                fail('C08', 'conll fragments do not concatenate to the AUTO line', fragments=frag, auto=want, **ctx)
        except Exception as e:       # noqa
            fail('C07', 'conll raises / cannot be decoded', error=repr(e)[:200], **ctx)
        read_back_auto(t, line, which, ctx)
        # ---- ptb (C07 text, C20 read back)
        try:
            p = T.ptb.ptb_of(t)
            if p != '(ROOT ' + view_ptb_text(t) + ')':
                fail('C07', 'ptb text is not the bracketing of the derivation', text=p, **ctx)
            read_back_ptb(t, p, which, ctx)
        except Exception as e:       # noqa
            fail('C07', 'ptb raises', error=repr(e)[:200], **ctx)
        # ---- ja (C07 decode, C20 read back)
        if which == 'ja':
            try:
                j = T.ja_printer.ja_of(t)
                if all(not any(ch in w_ for ch in '/{} ') for w_ in words):
                    if decode_ja(j) != view_ja(t):
                        fail('C07', 'ja text does not decode to the derivation', text=j, **ctx)
                    read_back_ja(t, j, ctx)
            except Exception as e:   # noqa
                fail('C07', 'ja text raises / cannot be decoded', error=repr(e)[:200], **ctx)
        # ---- json
        try:
            d = T.my_json.json_of(t)

            def vj(n):
                if n.is_leaf:
                    r = dict(n.token)
                    r['cat'] = str(n.cat)
                    return r
                return {'type': n.op_string, 'cat': str(n.cat), 'children': [vj(c) for c in n.children]}
            if json.loads(json.dumps(d)) != json.loads(json.dumps(vj(t))):
                fail('C07', 'json does not decode to the derivation', **ctx)
        except Exception as e:       # noqa
            fail('C07', 'json raises', error=repr(e)[:200], **ctx)
        # ---- deriv / html: words and leaf categories in order
        try:
            dv = T.deriv.deriv_of(t).split('\n')
            if dv[0].split() != [x for l in t.leaves for x in str(l.cat).split()] or dv[1].split() != [x for w_ in words for x in w_.split()]:
                fail('C07', 'deriv: first two lines are not the leaf categories and words in order', lines=dv[:2], **ctx)
        except Exception as e:       # noqa
            fail('C07', 'deriv raises', error=repr(e)[:200], **ctx)
    # ---- numbering / n-best grouping in to_string (C07) and xml / jigg (C07, C15)
    try:
        txt = T.to_string(copy.deepcopy(nbest_batch), format='auto')
        ids = re.findall(r'^ID=(\d+), log probability', txt, re.M)
        want = [str(i + 1) for i, trees_ in enumerate(nbest_batch) for _ in trees_]
        if ids != want:
            fail('C07', 'records are not numbered by sentence with all n-best trees under its number', ids=ids, want=want, **ctx)
    except Exception as e:           # noqa
        fail('C07', 'to_string(auto) raises', error=repr(e)[:200], **ctx)
    check_xml(which, nbest_batch, grammar_based, ctx)


def xml_labels_ok(r, t):
    """unary nodes: the written type; binary nodes: the written label, or - when several rules derive the node - the label of one of them"""
    if t.is_leaf:
        return True
    if t.is_unary:
        return r.op_string == t.op_string and xml_labels_ok(r.children[0], t.children[0])
    ok = (r.op_string, r.op_symbol) == (t.op_string, t.op_symbol)
    if not ok:
        alts = [(x.op_string, x.op_symbol) for x in T.en.apply_binary_rules(t.children[0].cat, t.children[1].cat) if x.cat == t.cat]
        ok = (r.op_string, r.op_symbol) in alts and (t.op_string, t.op_symbol) in alts
    return ok and all(xml_labels_ok(a, b) for a, b in zip(r.children, t.children))


def first_rule_mismatch(r, which):
    """C12, reader clause: a binary node read from a file that records no usable rule is labelled with the FIRST result of the grammar that derives its category
    from its children (label, symbol and head direction of that very result), and with the unknown rule when none does.  Returns a description of the first node
    that is not, else None."""
    if r.is_leaf:
        return None
    if not r.is_unary:
        G = T.en if which == 'en' else T.ja
        l, rr = r.children
        alts = [x for x in G.apply_binary_rules(l.cat, rr.cat) if x.cat == r.cat]
        want = (alts[0].op_string, alts[0].op_symbol, bool(alts[0].head_is_left)) if alts else ('unk', '<unk>', True)
        got = (r.op_string, r.op_symbol, bool(r.head_is_left))
        if got != want:
            return dict(node=str(r.cat), left=str(l.cat), right=str(rr.cat), got=list(got), want=list(want))
    for c in r.children:
        m = first_rule_mismatch(c, which)
        if m is not None:
            return m
    return None


def decode_auto_default(t):
    """AUTO line with the default POS of the conll printer ('_' when a token has no pos)"""
    def rec(n):
        if n.is_leaf:
            p = n.token.get('pos', '_')
            return f'(<L {n.cat} {p} {p} {escape_spec(n.token["word"])} {n.cat}>)'
        return f'(<T {n.cat} {0 if n.head_is_left else 1} {len(n.children)}> ' + ' '.join(rec(c) for c in n.children) + ' )'
    return rec(t)


def read_back_auto(t, line, which, ctx):
    if any('\\' in tok['word'] for tok in t.tokens):
        return
    path = os.path.join(TMP, 'x.auto')
    with open(path, 'w', encoding='utf-8') as fh:
        fh.write('ID=1\n' + line + '\n')
    try:
        res = list(T.reader.read_auto(path))
    except Exception as e:           # noqa
        return fail('C08', 'read_auto raises on a line depccg printed', line=line, error=f'{type(e).__name__}: {e}'[:200], **ctx)
    if len(res) != 1:
        return fail('C08', 'read_auto does not yield one tree per line', line=line, **ctx)
    r = res[0].tree

    def sig(n, printed):
        if n.is_leaf:
            w_ = n.token['word']
            return ('L', str(n.cat), escape_spec(w_) if printed else w_, n.token.get('pos', 'POS') if printed else n.token.get('pos'))
        return ('N', str(n.cat), bool(n.head_is_left) if len(n.children) == 2 else None, tuple(sig(c, printed) for c in n.children))
    if sig(r, False) != sig(t, True):
        return fail('C08', 'tree read from AUTO differs (categories / shape / head flags / pos / escaped words)', line=line, **ctx)
    again = T.auto.auto_of(r)
    if again != line:
        fail('C08', 'printing the tree read from AUTO does not reproduce the line', line=line, again=again, **ctx)


def read_back_ptb(t, text, which, ctx):
    if any('\\' in tok['word'] for tok in t.tokens):
        return
    path = os.path.join(TMP, 'x.ptb')
    with open(path, 'w', encoding='utf-8') as fh:
        fh.write(text + '\n')
    brk = any(('(' in tok['word'] or ')' in tok['word']) for tok in t.tokens)
    ctx = dict(ctx, bracket_token=brk)
    try:
        res = list(T.reader.read_ptb(path))
    except Exception as e:           # noqa
        return fail('C20', 'read_ptb raises on a line depccg printed', text=text, error=f'{type(e).__name__}: {e}'[:200], **ctx)
    r = res[0].tree if res else None

    def sig(n):
        if n.is_leaf:
            return ('L', str(n.cat), n.token['word'])
        return ('N', str(n.cat), tuple(sig(c) for c in n.children))
    if r is None or sig(r) != sig(t):
        return fail('C20', 'tree read from PTB text differs (categories / shape / words)', text=text, **ctx)
    # an incomplete line is rejected with an error
    for cut in (1, 2, rng.randint(1, max(1, len(text) // 2))):
        bad = text[:-cut]
        with open(path, 'w', encoding='utf-8') as fh:
            fh.write(bad + '\n')
        try:
            res2 = list(T.reader.read_ptb(path))
            if res2 and bad.count('(') != bad.count(')'):
                fail('C20', 'an incomplete PTB line is accepted', text=bad, **ctx)
        except Exception:
            pass


JA_SYMBOLS = {'SSEQ', '>', '<', '>B', '<B1', '<B2', '<B3', '<B4', '>Bx1', '>Bx2', '>Bx3', 'ADNext', 'ADNint', 'ADV0', 'ADV1', 'ADV2'}
_ATOM = re.compile(r'[A-Za-z]+(?:\[[^\]]*\])?')


def bank_annotate(line, suffix):
    """the line with the bank's dependency annotations put on every category: {Ik} after every atomic category and every bracket,
    and on leaves the predicate-argument suffix (_none, _I1, _I1(I2,_,_,_), ...) -- the forms of tests/test_cat.py::test_parse_marked_ja_categries"""
    def deco(cat, leaf, k):
        n = [0]

        def idx():
            n[0] += 1
            return '{I%d}' % n[0]
        out = _ATOM.sub(lambda m_: m_.group(0) + idx(), cat)
        out = out.replace(')', '){I1}')
        if ('/' in cat or '\\' in cat) and leaf:
            out = '(' + out + '){I1}'
        return out + (suffix(k) if leaf else '')
    out, i, k = [], 0, 0
    while i < len(line):
        if line[i] == '{':
            j = line.find(' ', i)
            head = line[i + 1:j]
            if head in JA_SYMBOLS:
                e = line.find(' ', j + 1)
                out.append('{' + head + ' ' + deco(line[j + 1:e], False, k) + ' ')
                i = e + 1
            else:
                e = line.find('}', j)
                out.append('{' + deco(head, True, k) + line[j:e + 1])
                k += 1
                i = e + 1
        else:
            out.append(line[i])
            i += 1
    return ''.join(out)


def read_back_ja(t, text, ctx):
    path = os.path.join(TMP, 'x.ja')
    sufs = ['_none', '_I1', '_I1(I2,_,_,_)', '_I1(I2,_,I3,_)', '_I1(I2,I3,_,_)', '']
    pick = [rng.choice(sufs) for _ in range(64)]
    variants = [('as printed', text), ('with the bank annotations {Ik} and _none', bank_annotate(text, lambda k: '_none')),
                ('with the bank annotations {Ik} and predicate-argument suffixes', bank_annotate(text, lambda k: pick[k % 64])),
                ('with the bank annotations {Ik} and _I1(I2,_,_,_)', bank_annotate(text, lambda k: '_I1(I2,_,_,_)'))]

    def sig(n, read):
        try:
            c = str(n.cat)
        except Exception as e:       # noqa
            c = f'<unprintable category: {e}>'
        if n.is_leaf:
            w_ = n.token.get('word', n.token.get('surf'))
            if not read:        # the bank format spells bracket tokens with the characters themselves
                w_ = {'-LRB-': '(', '-RRB-': ')', '-LCB-': '{', '-RCB-': '}', '-LSB-': '[', '-RSB-': ']'}.get(w_, w_)
            return ('L', c, w_)
        return ('N', n.op_symbol, c, tuple(sig(k, read) for k in n.children))
    for what, line in variants:
        with open(path, 'w', encoding='utf-8') as fh:
            fh.write(line + '\n')
        try:
            res = list(T.ja_reader.read_ccgbank(path))
        except Exception as e:           # noqa
            fail('C20', 'read_ccgbank raises on a line depccg printed (' + what + ')', text=line, error=f'{type(e).__name__}: {e}'[:200], **ctx)
            continue
        r = res[0].tree if res else None
        if r is None or sig(r, True) != sig(t, False):
            fail('C20', 'tree read from the Japanese bank format (' + what + ') differs (categories / shape / words / rule symbols)', text=line,
                 got=repr(sig(r, True))[:300] if r else None, **ctx)


TOOLS = None


def check_xml(which, nbest_batch, grammar_based, ctx):
    global TOOLS
    # ---- C&C xml (English)
    if which == 'en':
        try:
            root = T.xml.xml_of(copy.deepcopy(nbest_batch))
            ccgs = root.xpath('ccg')
            want = [(str(i + 1), str(j + 1)) for i, trees_ in enumerate(nbest_batch) for j, _ in enumerate(trees_)]
            if [(c.get('sentence'), c.get('id')) for c in ccgs] != want:
                fail('C07', 'xml: ccg elements are not numbered (sentence, tree)', **ctx)
            flat = [st.tree for trees_ in nbest_batch for st in trees_]
            for c, t in zip(ccgs, flat):
                def vx(n):
                    if n.is_leaf:
                        return ('lf', str(n.cat), dict(n.token))
                    return ('rule', n.op_string, str(n.cat), tuple(vx(k) for k in n.children))

                def dx(e):
                    if e.tag == 'lf':
                        a = dict(e.attrib)
                        start, span, cat = a.pop('start'), a.pop('span'), a.pop('cat')
                        return ('lf', cat, a), [int(start)]
                    subs = [dx(k) for k in e]
                    return ('rule', e.get('type'), e.get('cat'), tuple(s[0] for s in subs)), [x for s in subs for x in s[1]]
                got, starts = dx(c[0])
                if got != vx(t) or starts != list(range(len(starts))):
                    fail('C07', 'xml does not decode to the derivation (shape, categories, rule types, token attributes, offsets)', **ctx)
            text = etree.tostring(root, encoding='utf-8', pretty_print=True).decode('utf-8')
            path = os.path.join(TMP, 'x.xml')
            with open(path, 'w', encoding='utf-8') as fh:
                fh.write(text)
            if grammar_based:
                try:
                    res = list(T.reader.read_xml(path))
                    if len(res) != len(flat):
                        fail('C15', 'read_xml does not yield one tree per ccg element', **ctx)
                    for rr, t in zip(res, flat):
                        a, b = tree_signature(rr.tree, labels=False, heads=False, tokens=True), tree_signature(t, labels=False, heads=False, tokens=True)
                        if a != b:
                            fail('C15', 'tree read from C&C XML differs (shape / categories / token attributes)', got=repr(a)[:400], want=repr(b)[:400], **ctx)
                        elif not xml_labels_ok(rr.tree, t):
                            fail('C15', 'rule labels read from C&C XML differ from the ones written', got=repr(tree_signature(rr.tree, tokens=False, heads=False))[:400],
                                 want=repr(tree_signature(t, tokens=False, heads=False))[:400], **ctx)
                        mm = first_rule_mismatch(rr.tree, which)
                        if mm is not None:
                            fail('C12', 'node read from C&C XML is not labelled with the first grammar result that derives it', **dict(ctx, **mm))
                except Exception as e:   # noqa
                    fail('C15', 'read_xml raises on XML depccg wrote', error=f'{type(e).__name__}: {e}'[:200], **ctx)
        except Exception as e:       # noqa
            fail('C07', 'xml_of raises', error=repr(e)[:200], **ctx)
    # ---- Jigg xml (both languages written; read back for Japanese)
    try:
        root = T.jigg_xml.to_jigg_xml(copy.deepcopy(nbest_batch), use_symbol=(which == 'ja'))
        sents = root.xpath('./document/sentences/sentence')
        if len(sents) != len(nbest_batch):
            fail('C07', 'jigg_xml: one sentence element per sentence expected', **ctx)
        for si, (s, trees_) in enumerate(zip(sents, nbest_batch)):
            toks = s.xpath('./tokens/token')
            t0 = trees_[0].tree
            if [tk.get('surf') for tk in toks] != [tok['word'] for tok in t0.tokens]:
                fail('C07', 'jigg_xml: token surfaces differ from the words', **ctx)
            tok_ids = [tk.get('id') for tk in toks]
            ccgs = s.xpath('./ccg')
            if len(ccgs) != len(trees_):
                fail('C07', 'jigg_xml: all n-best trees of a sentence under its element', **ctx)
            all_span_ids = []
            for ccg, st in zip(ccgs, trees_):
                t = st.tree
                spans = ccg.xpath('./span')
                ids = [sp.get('id') for sp in spans]
                all_span_ids += ids
                byid = {sp.get('id'): sp for sp in spans}
                roots = [sp for sp in spans if sp.get('root') == 'true']
                if len(roots) != 1 or ccg.get('root') != roots[0].get('id'):
                    fail('C15', 'jigg_xml: not exactly one root span / ccg@root does not name it', **ctx)
                    continue

                def dj(sp):
                    b, e_ = int(sp.get('begin')), int(sp.get('end'))
                    if sp.get('terminal') is not None:
                        if sp.get('terminal') not in tok_ids:
                            raise KeyError('terminal reference does not resolve')
                        k = tok_ids.index(sp.get('terminal'))
                        if (b, e_) != (k, k + 1):
                            raise ValueError('terminal offsets')
                        return ('L', sp.get('category'), k), (b, e_)
                    subs = [dj(byid[c]) for c in sp.get('child').split(' ')]
                    if subs[0][1][0] != b or subs[-1][1][1] != e_ or any(x[1][1] != y[1][0] for x, y in zip(subs, subs[1:])):
                        raise ValueError('children do not tile their parent')
                    return ('N', sp.get('category'), sp.get('rule'), tuple(x[0] for x in subs)), (b, e_)
                try:
                    got, (b, e_) = dj(roots[0])
                    pos = [0]

                    def vjx(n):
                        if n.is_leaf:
                            pos[0] += 1
                            return ('L', T.jigg_xml._cat_multi_valued(n.cat), pos[0] - 1)
                        return ('N', T.jigg_xml._cat_multi_valued(n.cat), n.op_symbol if which == 'ja' else n.op_string, tuple(vjx(c) for c in n.children))
                    if got != vjx(t) or (b, e_) != (0, len(t.tokens)):
                        fail('C15', 'jigg_xml spans do not decode to the derivation / offsets do not tile the sentence', **ctx)
                        fail('C07', 'jigg_xml spans do not decode to the derivation (shape, categories, rule labels, span offsets)', **ctx)
                except Exception as e:   # noqa
                    fail('C15', 'jigg_xml sentence is not self-contained', error=f'{type(e).__name__}: {e}'[:200], **ctx)
                    fail('C07', 'jigg_xml spans do not decode to the derivation (shape, categories, rule labels, span offsets)', error=f'{type(e).__name__}: {e}'[:200], **ctx)
                # ccg2lambda's tree builder
                try:
                    if TOOLS is None:
                        TOOLS = T.load_ccg2lambda_tools()
                    built = TOOLS['build_ccg_tree'](ccg)

                    def db(el):
                        if el.get('terminal') is not None:
                            return ('L', el.get('category'), el.get('terminal'))
                        return ('N', el.get('category'), el.get('rule'), tuple(db(c) for c in el))
                    pos = [0]

                    def vb(n):
                        if n.is_leaf:
                            pos[0] += 1
                            return ('L', T.jigg_xml._cat_multi_valued(n.cat), tok_ids[pos[0] - 1])
                        return ('N', T.jigg_xml._cat_multi_valued(n.cat), n.op_symbol if which == 'ja' else n.op_string, tuple(vb(c) for c in n.children))
                    if db(built) != vb(t):
                        fail('C15', 'build_ccg_tree does not reconstruct a tree isomorphic to the derivation with its rule labels', **ctx)
                except Exception as e:   # noqa
                    fail('C15', 'build_ccg_tree raises on Jigg XML depccg wrote', error=f'{type(e).__name__}: {e}'[:200], **ctx)
            if len(set(all_span_ids)) != len(all_span_ids):
                fail('C15', 'jigg_xml: span ids are not unique within the sentence', **ctx)
            try:
                if TOOLS is None:
                    TOOLS = T.load_ccg2lambda_tools()
                nt = TOOLS['normalize_tokens'](copy.deepcopy(toks))
                for tk in nt:
                    for key in ('base', 'surf'):
                        v = tk.get(key)
                        if v is not None and (not v.startswith('_') or any(ch in v for ch in '.,()!-')):
                            fail('C15', 'normalised token name is not an identifier free of logic punctuation', value=v, **ctx)
            except Exception as e:   # noqa
                fail('C15', 'normalize_tokens raises', error=f'{type(e).__name__}: {e}'[:200], **ctx)
        if which == 'ja':
            text = etree.tostring(root, encoding='utf-8', pretty_print=True).decode('utf-8')
            path = os.path.join(TMP, 'x.jigg.xml')
            with open(path, 'w', encoding='utf-8') as fh:
                fh.write(text)
            try:
                res = list(T.reader.read_jigg_xml(path))
                flat = [st.tree for trees_ in nbest_batch for st in trees_]
                if len(res) != len(flat):
                    fail('C15', 'read_jigg_xml does not yield one tree per ccg element', **ctx)
                for rr, t in zip(res, flat):
                    a = tree_signature(rr.tree, labels=False, heads=False)
                    b = tree_signature(t, labels=False, heads=False)
                    if a != b:
                        fail('C15', 'tree read from Jigg XML differs (categories / shape / words)', got=repr(a)[:300], want=repr(b)[:300], **ctx)
            except Exception as e:   # noqa
                fail('C15', 'read_jigg_xml raises on XML depccg wrote', error=f'{type(e).__name__}: {e}'[:200], **ctx)
    except Exception as e:           # noqa
        fail('C07', 'to_jigg_xml raises', error=repr(e)[:200], **ctx)


def main():
    t0 = time.time()
    N = 120 if tier == 'quick' else 1500
    for which in ('en', 'ja'):
        T.lang.set_global_language_to(which)
        # C19: every label the rule functions can return + the failure placeholder, in every offered format
        fb, fu, want_b, want_u = label_coverage(which)
        for key in want_b:
            if key not in fb:
                fail('C19', 'label coverage: no derivation found for a label of the grammar (generator too weak)', label=list(key), lang=which)
        for key, t in list(fb.items()) + list(fu.items()):
            stats['labels'].add((which,) + key)
            check_all_formats(which, [[ScoredTree(t, -1.0)]], dict(label=list(key), lang=which))
            if key in reachable_labels(which)[0] or key in reachable_labels(which)[1]:
                check_codecs(which, [[ScoredTree(copy.deepcopy(t), -1.0)]], True, dict(label=list(key), lang=which, tree_kind='label coverage'))
        deep_probe(which)
        ph = T.placeholder()
        check_all_formats(which, [ph], dict(case='placeholder only', lang=which))
        some = T.random_derivation(which, rng)
        if some is not None:
            check_all_formats(which, [[ScoredTree(some, -1.0)], T.placeholder(), [ScoredTree(T.random_derivation(which, rng) or some, -2.0)]], dict(case='batch mixing parsed and failed sentences', lang=which))
        for i in range(N):
            stats['n'] += 1
            mode = i % 4
            grammar_based = mode in (0, 1)
            adversarial = mode == 3
            batch = []
            for _ in range(rng.choice([1, 2, 3])):
                nb = make_nbest(which, grammar_based=grammar_based, adversarial=adversarial, k=rng.choice([1, 1, 2, 3]), rich=(mode != 1))
                if nb is not None:
                    batch.append(nb)
            if not batch:
                continue
            ctx = dict(lang=which, case=i, tree_kind='grammar' if grammar_based else ('adversarial tokens' if adversarial else 'arbitrary tree'),
                       first=T.auto.auto_of(batch[0][0].tree)[:300])
            stats['distinct'].add(ctx['first'])
            check_render(which, batch, grammar_based, ctx)
            # C07: records are numbered by sentence with all n-best trees of a sentence under its number - also when the n-best list of ONE sentence is handed over
            # as it is (a flat list of scored trees): it is one sentence with k trees
            flat = next((nb for nb in batch if len(nb) >= 2), None)
            if flat is not None and i % 5 == 0:
                for f in ('auto', 'xml', 'json', 'conll'):
                    if f in formats_for(which):
                        try:
                            a, b = T.to_string(copy.deepcopy(list(flat)), format=f), T.to_string([copy.deepcopy(list(flat))], format=f)
                        except Exception:       # noqa (C19's business)
                            continue
                        if a != b:
                            fail('C07', 'the n-best list of one sentence handed over as a flat list is not numbered as one sentence', format=f, **ctx)
            check_codecs(which, copy.deepcopy(batch), grammar_based, ctx)
    for which in ('en', 'ja'):
        T.lang.set_global_language_to(which)
        check_history(which)
    import shutil
    shutil.rmtree(TMP, ignore_errors=True)
    print(json.dumps(dict(evaluations=stats['n'], distinct_nontrivial=len(stats['distinct']), trees=stats['trees'], renderings=stats['renders'],
                          formats=sorted(f'{a}:{b}' for a, b in stats['formats']), labels_covered=len(stats['labels']), failures=fails, wall=round(time.time() - t0, 1),
                          rule=(f'per language {N} seeded batches (1-3 sentences x 1-3 n-best trees over shared token objects): half grammar-licensed derivations built with the real rule functions '
                                'over small lexicons and the shipped unary tables, a quarter arbitrary trees with both head directions, a quarter with adversarial tokens (brackets, quotes, slashes, '
                                '< > &, non-ASCII); every label of the grammars and the failure placeholder in every CLI format except ccg2lambda / jigg_xml_ccg2lambda; '
                                'history: the batch [placeholder, annotated sentence, placeholder] rendered before and after other batches in every format; '
                                'distinct_nontrivial = distinct first derivations'))))


if __name__ == '__main__':
    main()
