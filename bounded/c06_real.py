"""Bounded stand-in for C06 on the real code: run-time contract of Unification against the executable spec,
for the pattern pairs of the grammars and seeded random patterns, on enumerated and perturbed category pairs."""
import itertools, json, os, random, sys, time
from depccg.cat import Category, Atom, Functor, UnaryFeature, TernaryFeature
from vc import twin
from vc.twin import check_unification, pattern_of, str_spec

tier = os.environ.get('VERIF_TIER', 'quick')
rng = random.Random(int(os.environ.get('VERIF_SEED', '0') or 0))
pairs = json.loads(os.environ['VERIF_PATTERNS'])

UN = [UnaryFeature(None), UnaryFeature('X'), UnaryFeature('nb'), UnaryFeature('dcl'), UnaryFeature('conj')]
TE = [TernaryFeature(('mod', 'nm'), ('form', 'base'), ('fin', 't')), TernaryFeature(('mod', 'X1'), ('form', 'X2'), ('fin', 'f')),
      TernaryFeature(('mod', 'adn'), ('form', 'base'), ('fin', 'f')), TernaryFeature(('mod', 'nm'), ('form', 'X2'), ('fin', 'X3'))]
BASES = ['S', 'NP', 'N']


def rand_cat(depth, feats):
    if depth == 0 or rng.random() < 0.3:
        return Atom(rng.choice(BASES), rng.choice(feats))
    return Functor(rand_cat(depth - 1, feats), rng.choice('/\\|'), rand_cat(depth - 1, feats))


def instantiate(p, env, feats, depth=2):
    if p[0] == 'atom':
        if p[1] not in env:
            env[p[1]] = rand_cat(rng.choice([0, 0, 1, depth]), feats)
        return perturb(env[p[1]], feats)
    s = p[2] if p[2] != '|' else rng.choice('/\\|')
    if rng.random() < 0.08:
        s = rng.choice('/\\|')
    return Functor(instantiate(p[1], env, feats, depth), s, instantiate(p[3], env, feats, depth))


def perturb(c, feats):
    r = rng.random()
    if r < 0.5:
        return c
    if twin.is_atom(c):
        if r < 0.9:
            return Atom(c.base, rng.choice(feats))
        return Atom(rng.choice(BASES), c.feature)
    return Functor(perturb(c.left, feats), c.slash, perturb(c.right, feats))


def rand_pattern(vars_, depth):
    if depth == 0 or rng.random() < 0.35:
        return rng.choice(vars_)
    op = lambda t: t if len(t) == 1 else '(' + t + ')'
    return op(rand_pattern(vars_, depth - 1)) + rng.choice('/\\|') + op(rand_pattern(vars_, depth - 1))


def distinct_vars(text):
    vs = [ch for ch in text if ch.isalpha()]
    return len(vs) == len(set(vs))


fails, n, distinct = [], 0, set()
N = 400 if tier == 'quick' else 4000
allpairs = [tuple(p) for p in pairs]
extra = []
while len(extra) < (6 if tier == 'quick' else 40):
    a, b = rand_pattern('abcd', 2), rand_pattern('abcd', 2)
    if distinct_vars(a) and distinct_vars(b):
        extra.append((a, b))
t0 = time.time()
for px, py in allpairs + extra:
    ppx, ppy = pattern_of(px), pattern_of(py)
    for k in range(N):
        feats = UN if k % 2 == 0 else TE
        if k % 5 == 4:
            x, y = rand_cat(3, feats), rand_cat(2, feats)
        else:
            env = {}
            x, y = instantiate(ppx, env, feats), instantiate(ppy, env, feats)
        n += 1
        try:
            bad = check_unification(px, py, x, y)
        except Exception as e:
            bad = [('checker raised', type(e).__name__, str(e))]
        key = (px, py, str_spec(x), str_spec(y))
        distinct.add(key)
        if bad and len(fails) < 10:
            fails.append(dict(kind='Unification differs from its contract', px=px, py=py, x=str_spec(x), y=str_spec(y), what=repr(bad[:2])))
print(json.dumps(dict(evaluations=n, distinct_nontrivial=len(distinct), failures=fails, wall=round(time.time() - t0, 2),
                      rule=f'{len(allpairs)} pattern pairs harvested from the grammars + {len(extra)} seeded random pattern pairs (distinct variables per side); per pair {N} category pairs: pattern instances with perturbed features/slashes/bases and random categories, over the unary and the three-part feature system; distinct = distinct (patterns, x, y)')))
