"""Bounded stand-in at the level of depccg.parsing.run / depccg._parsing.run on the real code:
parsing.h compiled as it stands, the DePyx text of parsing.pyx, and depccg/parsing.py with `depccg._parsing` bound to that text and
multiprocessing.Pool replaced by an in-process stand-in (the extension cannot be built here).

 C02 trees: one leaf per token in order carrying that token, licensed nodes, allowed root
 C09 ScoredTree.score = model score of the tree; placeholder carries -inf
 C11 one result list per sentence in input order for every chunking / process count; result of a sentence independent of batch history,
     position and cache warm-up; too long / unparseable sentences yield only their own placeholder; shape mismatches rejected before parsing
 C12 every node carries label, symbol and head direction of the grammar result that created it
Prints one JSON object."""
import ast
import itertools
import json
import math
import os
import random
import sys
import time
import types

import numpy as np

from vc import harness
from depccg.cat import Category, Atom
from depccg.tree import Tree, ScoredTree
from depccg.types import Token, CombinatorResult, ScoringResult

tier = os.environ.get('VERIF_TIER', 'quick')
rng = random.Random(int(os.environ.get('VERIF_SEED', '0') or 0))
only = set(filter(None, os.environ.get('VERIF_PROPS', '').split(',')))
REPO = os.environ.get('VERIF_REPO', '/repo')
fails, stats = [], dict(n=0, trees=0, nodes=0, batches=0)
TOL = 2e-4


def fail(prop, kind, **w):
    if only and prop not in only:
        return
    if len([f for f in fails if f['prop'] == prop]) < 6:
        fails.append(dict(prop=prop, kind=kind, witness={k: (v if isinstance(v, (int, float, str, list, dict, bool, type(None))) else repr(v)) for k, v in w.items()}))


PYX = harness.pyx_module()


def load_parsing_py():
    """depccg/parsing.py with depccg._parsing := the DePyx module and Pool := in-process stand-in"""
    src = open(os.path.join(REPO, 'depccg/parsing.py'), encoding='utf-8').read()
    fake = types.ModuleType('depccg._parsing')
    fake.run = PYX.run
    sys.modules['depccg._parsing'] = fake
    import depccg
    depccg._parsing = fake
    if not hasattr(np, 'bool'):
        pass
    mod = types.ModuleType('depccg_parsing_under_test')
    g = mod.__dict__
    exec(compile(src, os.path.join(REPO, 'depccg/parsing.py'), 'exec'), g)

    class _Task:
        def __init__(self, fn, args, kwds):
            self.fn, self.args, self.kwds = fn, args, kwds
            self._res = None
            self._done = False

        def ready(self):
            if not self._done:
                self._res = self.fn(*self.args, **self.kwds)
                self._done = True
            return True

        def get(self, timeout=None):
            self.ready()
            return self._res

    class _Pool:
        order = 'submission'

        def __init__(self, processes=None):
            self.tasks = []

        def __enter__(self):
            return self

        def __exit__(self, *a):
            return False

        def apply_async(self, fn, args=(), kwds=None):
            t = _Task(fn, args, kwds or {})
            self.tasks.append(t)
            if _Pool.order == 'reverse-completion':
                # tasks complete in another order than they were submitted
                for x in reversed(self.tasks):
                    pass
            return t
    g['Pool'] = _Pool
    g['time'] = types.SimpleNamespace(sleep=lambda s: None)
    return mod, _Pool


PARSING, POOL = load_parsing_py()


class Grammar:
    def __init__(self, ncat, head_left, density, nunary, mixed=False):
        self.cats = [Atom(f'c{i}') for i in range(ncat)]
        self.idx = {c: i for i, c in enumerate(self.cats)}
        self.head_left = head_left
        self.mixed = mixed
        self.binary, self.unary = {}, {}
        lab = 0
        for x in range(ncat):
            for y in range(ncat):
                if rng.random() < density:
                    rs = []
                    for _ in range(rng.choice([1, 1, 2, 3, 4])):
                        # several results may share a category (and head direction): only the rule index tells them apart
                        c = rng.randrange(ncat) if not rs or rng.random() < 0.6 else self.idx[rs[-1].cat]
                        h = head_left if not mixed else (rng.random() < 0.5)
                        rs.append(CombinatorResult(cat=self.cats[c], op_string=f'b{lab}', op_symbol=f'<b{lab}>', head_is_left=h))
                        lab += 1
                    self.binary[(x, y)] = rs
        for _ in range(nunary):
            x = rng.randrange(ncat - 1)
            y = rng.randrange(x + 1, ncat)
            rs = self.unary.setdefault(x, [])
            if all(self.idx[r.cat] != y for r in rs):
                rs.append(CombinatorResult(cat=self.cats[y], op_string=f'u{lab}', op_symbol=f'<u{lab}>', head_is_left=True))
                lab += 1

    def bin(self, x, y):
        return list(self.binary.get((self.idx[x], self.idx[y]), []))

    def un(self, x):
        return list(self.unary.get(self.idx[x], []))


def model_score(G, t, tag, dep, penalty, tokens, ctx, ntags):
    """C02 / C09 / C12 on one tree; returns (category index, head, score)"""
    pos = [0]

    def rec(node, top):
        stats['nodes'] += 1
        if node.is_leaf:
            k = pos[0]
            pos[0] += 1
            if k >= len(tokens) or node.token is not tokens[k]:
                fail('C02', 'leaf does not carry the input token at its position', position=k, **ctx)
            ci = G.idx.get(node.cat)
            if ci is None or ci >= ntags:
                fail('C02', 'leaf category is not a supertag of the input', cat=str(node.cat), **ctx)
                return ci, k, float('nan')
            return ci, k, float(tag[k][ci])
        if node.is_unary:
            cc, ch, cs = rec(node.child, False)
            rs = [r for r in G.unary.get(cc, []) if r.cat == node.cat]
            if top and len(tokens) > 1:
                fail('C02', 'unary step at the root of a multi-word sentence', **ctx)
            if not rs:
                fail('C02', 'unary node not licensed', **ctx)
            elif (node.op_string, node.op_symbol) not in [(r.op_string, r.op_symbol) for r in rs]:
                fail('C12', 'unary node does not carry the label/symbol of the result that created it', got=[node.op_string, node.op_symbol],
                     expected=[[r.op_string, r.op_symbol] for r in rs], **ctx)
            return G.idx[node.cat], ch, cs - penalty
        lc, lh, ls = rec(node.left_child, False)
        rc, rh, rs_ = rec(node.right_child, False)
        res = [r for r in G.binary.get((lc, rc), []) if r.cat == node.cat]
        if not res:
            fail('C02', 'binary node not licensed', **ctx)
            return G.idx.get(node.cat), lh, float('nan')
        if (node.op_string, node.op_symbol, node.head_is_left) not in [(r.op_string, r.op_symbol, r.head_is_left) for r in res]:
            fail('C12', 'binary node does not carry label/symbol/head direction of the result that created it',
                 got=[node.op_string, node.op_symbol, node.head_is_left], expected=[[r.op_string, r.op_symbol, r.head_is_left] for r in res], **ctx)
        hl = node.head_is_left if G.mixed else G.head_left       # with mixed grammars the score follows the head flag the tree carries (checked above)
        head, child = (lh, rh) if hl else (rh, lh)
        return G.idx[node.cat], head, ls + rs_ + float(dep[child][head + 1])
    ci, head, sc = rec(t, True)
    if pos[0] != len(tokens):
        fail('C02', 'tree does not have one leaf per token', leaves=pos[0], tokens=len(tokens), **ctx)
    return ci, head, sc + float(dep[head][0])


def is_placeholder(res):
    return (len(res) == 1 and res[0].tree.is_leaf and res[0].tree.token.get('word') == 'FAILED' and res[0].score == -float('inf'))


def show(res):
    def t(node):
        if node.is_leaf:
            return ['L', str(node.cat), node.word]
        return [node.op_string, node.op_symbol, node.head_is_left, str(node.cat)] + [t(c) for c in node.children]
    return [[t(r.tree), round(float(r.score), 4) if r.score != -float('inf') else '-inf'] for r in res]


def make_sentence(G, ntags, n):
    tokens = [Token(word=f'w{rng.randrange(1000)}') for _ in range(n)]
    tag = np.log(np.array([[rng.uniform(0.01, 1.0) for _ in range(ntags)] for _ in range(n)])).astype(np.float32)
    dep = np.log(np.array([[rng.uniform(0.01, 1.0) for _ in range(n + 1)] for _ in range(n)])).astype(np.float32)
    return tokens, ScoringResult(tag, dep)


def main():
    t0 = time.time()
    NB = 90 if tier == 'quick' else 900
    for bi in range(NB):
        ncat = rng.choice([3, 4, 5])
        G = Grammar(ncat, head_left=rng.random() < 0.5, density=rng.choice([0.4, 0.6, 0.8]), nunary=rng.choice([0, 1, 2]), mixed=(bi % 3 == 2))
        ntags = rng.choice([2, 3, ncat])
        cats = G.cats[:ntags]
        roots = [G.cats[i] for i in rng.sample(range(ncat), rng.choice([1, 2, ncat]))]
        penalty = rng.choice([0.0, 0.1, 1.0])
        nbest = rng.choice([1, 1, 2, 3])
        max_length = 4
        kw = dict(unary_penalty=penalty, beta=rng.choice([1e-5, 0.1]), use_beta=rng.random() < 0.5, pruning_size=rng.choice([2, 50]), nbest=nbest, max_length=max_length)
        batch = [make_sentence(G, ntags, rng.choice([1, 2, 3, 3, 4, 5])) for _ in range(rng.choice([2, 3, 5, 6]))]
        doc = [b[0] for b in batch]
        scores = [b[1] for b in batch]
        ctx0 = dict(batch=bi, head_left=G.head_left, nbest=nbest, penalty=penalty)
        stats['batches'] += 1

        def run(doc_, scores_, processes=2, max_chunk_size=20):
            return PARSING.run(doc_, scores_, cats, roots, G.bin, G.un, processes=processes, max_chunk_size=max_chunk_size, **kw)
        try:
            base = run(doc, scores)
            for toks_, sc_ in zip(doc, scores):
                run([toks_], [sc_])
        except Exception as e:       # noqa
            for pr in ('C02', 'C11', 'C12', 'C09', 'C10'):
                fail(pr, 'depccg.parsing.run raises on a well-formed batch', error=repr(e)[:300], **ctx0)
            continue
        if len(base) != len(doc):
            fail('C11', 'number of result lists differs from the number of sentences', got=len(base), expected=len(doc), **ctx0)
            continue
        alone = []
        for i, (toks, sc) in enumerate(zip(doc, scores)):
            stats['n'] += 1
            ctx = dict(sentence=i, length=len(toks), **ctx0)
            r1 = run([toks], [sc])[0]
            alone.append(show(r1))
            if show(base[i]) != show(r1):
                fail('C11', 'result of a sentence depends on the batch it is parsed in', in_batch=show(base[i]), alone=show(r1), **ctx)
            if len(toks) > max_length:
                if not is_placeholder(r1):
                    fail('C11', 'a too long sentence does not yield exactly the failure placeholder', got=show(r1), **ctx)
                continue
            if is_placeholder(r1):
                continue
            for st in r1:
                stats['trees'] += 1
                ci, head, ms = model_score(G, st.tree, sc.tag_scores, sc.dep_scores, penalty, toks, ctx, ntags)
                if ci is not None and G.cats[ci] not in roots:
                    fail('C02', 'root category not allowed', cat=str(st.tree.cat), **ctx)
                if not (abs(float(st.score) - ms) <= TOL * max(1.0, abs(ms))):
                    fail('C09', 'ScoredTree.score differs from the model score of its tree', reported=float(st.score), recomputed=ms, **ctx)
            if not G.mixed and any(b.score > a.score + TOL for a, b in zip(r1, r1[1:])):
                fail('C10', 'n-best list not in non-increasing order', **ctx)
        # history: permutations, sub-batches, chunkings, process counts
        order = list(range(len(doc)))
        variants = []
        for _ in range(3):
            p = order[:]
            rng.shuffle(p)
            variants.append(('permutation', p, 2, 20))
        variants.append(('subset', order[::2], 2, 20))
        for procs, chunk in ((1, 1), (2, 1), (3, 2), (2, 2)):
            variants.append((f'processes={procs},max_chunk_size={chunk}', order, procs, chunk))
        for name, idxs, procs, chunk in variants:
            try:
                out = run([doc[i] for i in idxs], [scores[i] for i in idxs], processes=procs, max_chunk_size=chunk)
            except Exception as e:   # noqa
                fail('C11', 'run raises for a chunking / permutation of a well-formed batch', variant=name, error=repr(e), **ctx0)
                continue
            if len(out) != len(idxs):
                fail('C11', 'result lists are not aligned with the inputs', variant=name, got=len(out), expected=len(idxs), **ctx0)
                continue
            for j, i in enumerate(idxs):
                if show(out[j]) != alone[i]:
                    fail('C11', 'result depends on batch position / chunking / history', variant=name, sentence=i, got=show(out[j]), alone=alone[i], **ctx0)
                    break
        # step budget: a budget every sentence fits in alone must do for the batch, and a budget some sentence exhausts fails that sentence only
        pops = []
        for toks, sc in zip(doc, scores):
            PYX.__dict__['__pop_log__'] = []
            try:
                run([toks], [sc])
            finally:
                pops.append(len(PYX.__dict__['__pop_log__'] or []))
                PYX.__dict__['__pop_log__'] = None
        if harness.lib().have_hook and any(pops):
            for budget, what in ((max(pops), 'a step budget every sentence fits in alone'), (max(1, sorted(pops)[len(pops) // 2] - 1), 'a step budget some sentences exhaust')):
                try:
                    outb = PARSING.run(doc, scores, cats, roots, G.bin, G.un, processes=1, max_chunk_size=20, max_step=budget, **kw)
                    oneb = [PARSING.run([t_], [s_], cats, roots, G.bin, G.un, processes=1, max_chunk_size=20, max_step=budget, **kw)[0] for t_, s_ in zip(doc, scores)]
                except Exception as e:   # noqa
                    fail('C11', 'run raises under a small step budget', budget=budget, error=repr(e)[:300], **ctx0)
                    continue
                stats['n'] += len(doc)
                for i in range(len(doc)):
                    if show(outb[i]) != show(oneb[i]):
                        fail('C11', 'under ' + what + ' the result of a sentence depends on the sentences parsed before it', budget=budget, pops_alone=pops, sentence=i,
                             in_batch=show(outb[i]), alone=show(oneb[i]), **ctx0)
                        break
                    if budget >= pops[i] and show(oneb[i]) != alone[i]:
                        fail('C11', 'a step budget the sentence fits in changes its result', budget=budget, pops_alone=pops, sentence=i, got=show(oneb[i]), expected=alone[i], **ctx0)
                        break
        # shape validation happens before any parsing
        bad_scores = list(scores)
        k = rng.randrange(len(doc))
        t_, d_ = scores[k]
        kind = rng.choice(['tag-cols', 'dep-cols', 'rows', 'count'])
        if kind == 'tag-cols':
            bad_scores[k] = ScoringResult(np.concatenate([t_, t_[:, :1]], axis=1), d_)
        elif kind == 'dep-cols':
            bad_scores[k] = ScoringResult(t_, d_[:, :-1])
        elif kind == 'rows':
            bad_scores[k] = ScoringResult(np.concatenate([t_, t_[:1]], axis=0), d_)
        else:
            bad_scores = bad_scores[:-1]
        calls = []
        orig = sys.modules['depccg._parsing'].run
        sys.modules['depccg._parsing'].run = lambda *a, **k_: calls.append(1) or orig(*a, **k_)
        try:
            PARSING.run(doc, bad_scores, cats, roots, G.bin, G.un, **kw)
            fail('C11', 'inputs whose shapes do not fit are accepted', mismatch=kind, **ctx0)
        except RuntimeError:
            if calls:
                fail('C11', 'shape mismatch is detected only after parsing started', mismatch=kind, **ctx0)
        except Exception as e:       # noqa
            fail('C11', 'shape mismatch is reported with another exception', mismatch=kind, error=repr(e), **ctx0)
        finally:
            sys.modules['depccg._parsing'].run = orig
    print(json.dumps(dict(evaluations=stats['n'], distinct_nontrivial=stats['trees'], batches=stats['batches'], nodes_checked=stats['nodes'], failures=fails,
                          depyx_dropped=len(PYX.__dict__['__depyx_dropped__']), wall=round(time.time() - t0, 1),
                          rule=(f'{NB} seeded batches (2-6 sentences of length 1-5, max_length 4) over synthetic head-uniform grammars with distinct labels per result; '
                                'each sentence alone vs in the batch vs 3 permutations, a sub-batch and 4 (processes, max_chunk_size) settings incl. batches larger than a chunk; '
                                'one shape mismatch per batch; every returned tree checked node by node; distinct_nontrivial = trees checked'))))


if __name__ == '__main__':
    main()
