"""Bounded stand-in for C17 on the real depccg/parsing.py::apply_category_filters (run-time contract from the statement) and the
exhaustive data clause on the shipped model files.  Prints one JSON object."""
import itertools
import json
import os
import random
import sys
import time
import types

import numpy as np

from vc import jsonnet_lite, twin
from depccg.cat import Category
from depccg.types import Token, ScoringResult

tier = os.environ.get('VERIF_TIER', 'quick')
rng = random.Random(int(os.environ.get('VERIF_SEED', '0') or 0))
REPO = os.environ.get('VERIF_REPO', '/repo')
fails, stats = [], dict(n=0, cells=0, distinct=set(), data=0)


def fail(kind, **w):
    if len(fails) < 12:
        fails.append(dict(kind=kind, witness={k: (v if isinstance(v, (int, float, str, list, dict, bool, type(None))) else repr(v)) for k, v in w.items()}))


def load_parsing():
    fake = types.ModuleType('depccg._parsing')
    fake.run = lambda *a, **k: None
    sys.modules['depccg._parsing'] = fake
    import depccg
    depccg._parsing = fake
    src = open(os.path.join(REPO, 'depccg/parsing.py'), encoding='utf-8').read()
    mod = types.ModuleType('depccg_parsing_under_test')
    exec(compile(src, os.path.join(REPO, 'depccg/parsing.py'), 'exec'), mod.__dict__)
    return mod


P = load_parsing()
CATS = [Category.parse(c) for c in ['NP', 'N', 'S[dcl]\\NP', '(S[dcl]\\NP)/NP', 'NP[nb]/N', 'S/S', 'PP/NP', 'conj']]
WORDS = ['the', 'dog', 'runs', 'a', 'b', 'c']


def one_case():
    ncat = rng.choice([1, 2, 3, 5, 8])
    cats = rng.sample(CATS, ncat)
    nsent = rng.choice([1, 2, 3])
    doc, scores = [], []
    for _ in range(nsent):
        n = rng.choice([1, 2, 3, 4])
        doc.append([Token(word=rng.choice(WORDS)) for _ in range(n)])
        scores.append(ScoringResult(np.array([[rng.uniform(-9, 0) for _ in range(ncat)] for _ in range(n)], dtype=np.float32),
                                    np.array([[rng.uniform(-9, 0) for _ in range(n + 1)] for _ in range(n)], dtype=np.float32)))
    cd = {}
    for w in rng.sample(WORDS, rng.choice([0, 1, 2, 4])):
        cd[w] = rng.sample(cats, rng.choice(range(0, ncat + 1)))
    big = rng.choice([-10e+32, -1e6])
    single = nsent == 1 and rng.random() < 0.3
    old_tag = [s.tag_scores.copy() for s in scores]
    old_dep = [s.dep_scores.copy() for s in scores]
    old_words = [[t.word for t in s] for s in doc]
    stats['n'] += 1
    stats['distinct'].add((ncat, nsent, len(cd), tuple(len(v) for v in cd.values())))
    ctx = dict(categories=[str(c) for c in cats], dictionary={w: [str(c) for c in v] for w, v in cd.items()}, words=old_words, value=big)
    try:
        if single:
            out_doc, out_scores = P.apply_category_filters(doc[0], scores[0], cats, cd, big)
            out_doc, out_scores = [out_doc] if not (out_doc and isinstance(out_doc[0], list)) else out_doc, out_scores if isinstance(out_scores, list) else [out_scores]
        else:
            out_doc, out_scores = P.apply_category_filters(doc, scores, cats, cd, big)
    except Exception as e:       # noqa
        return fail('apply_category_filters raises on an applicable dictionary', error=repr(e)[:200], **ctx)
    if [[t.word for t in s] for s in out_doc] != old_words:
        fail('token order / tokens changed', **ctx)
    for si, (toks, sc) in enumerate(zip(out_doc, out_scores)):
        if not np.array_equal(sc.dep_scores, old_dep[si]):
            fail('dependency scores changed', sentence=si, **ctx)
        for ti, tok in enumerate(toks):
            for j, c in enumerate(cats):
                stats['cells'] += 1
                if tok.word in cd and c not in cd[tok.word]:
                    want = np.float32(big)
                else:
                    want = old_tag[si][ti, j]
                if not (sc.tag_scores[ti, j] == want):
                    fail('tag score cell differs from the contract', sentence=si, token=ti, word=tok.word, category=str(c), got=float(sc.tag_scores[ti, j]), want=float(want), **ctx)
                    return


def history_case():
    """the result of a call depends on the arguments of that call only: the same dictionary object edited in place, and another category list of the same length"""
    cats = rng.sample(CATS, 4)
    cd = {'the': [cats[0]], 'dog': [cats[1], cats[2]]}
    for step in range(3):
        n = 3
        doc = [[Token(word=w) for w in ('the', 'dog', 'runs')]]
        sc = [ScoringResult(np.array([[rng.uniform(-9, 0) for _ in range(4)] for _ in range(n)], dtype=np.float32), np.zeros((n, n + 1), dtype=np.float32))]
        old = sc[0].tag_scores.copy()
        stats['n'] += 1
        try:
            P.apply_category_filters(doc, sc, cats, cd, -1e6)
        except Exception as e:   # noqa
            return fail('apply_category_filters raises on an applicable dictionary', error=repr(e)[:200], step=step)
        for ti, w in enumerate(('the', 'dog', 'runs')):
            for j, c in enumerate(cats):
                want = np.float32(-1e6) if (w in cd and c not in cd[w]) else old[ti, j]
                if not (sc[0].tag_scores[ti, j] == want):
                    return fail('tag score cell differs from the contract', history='call %d on the same dictionary object (edited in place / other category list between the calls)' % (step + 1),
                                word=w, category=str(c), got=float(sc[0].tag_scores[ti, j]), want=float(want))
        if step == 0:
            cd['runs'] = [cats[3]]             # a word added in place
            cd['dog'] = [cats[0]]              # a list replaced in place
        elif step == 1:
            cats = [cats[1], cats[0], cats[3], cats[2]]      # another inventory of the same length


def data_clause():
    """every dictionary category belongs to the inventory; every shipped category string is well formed and prints back"""
    md = os.path.join(REPO, 'depccg/models')

    def load(name, key):
        return jsonnet_lite.load(os.path.join(md, name))[key]
    try:
        inv_en = {twin.str_spec(Category.parse(t)) for t in load('targets.en.jsonnet', 'targets')}
        cd = load('cat_dict.en.jsonnet', 'cat_dict')
    except Exception as e:       # noqa
        return fail('shipped model files cannot be read', error=repr(e)[:200])
    for word, cs in cd.items():
        for c in cs:
            stats['data'] += 1
            try:
                k = twin.str_spec(Category.parse(c))
            except Exception as e:   # noqa
                fail('dictionary category does not parse', word=word, category=c)
                continue
            if k not in inv_en:
                fail('dictionary category is not in the tag inventory', word=word, category=c)
    for fn in sorted(os.listdir(md)):
        key = fn.split('.')[0]
        if not fn.endswith('.jsonnet') or key not in ('targets', 'seen_rules', 'unary_rules'):
            continue
        try:
            data = jsonnet_lite.load(os.path.join(md, fn))[key]
        except Exception as e:       # noqa
            fail('shipped model file cannot be read', file=fn, error=repr(e)[:200])
            continue
        flat = []
        for x in data:
            flat.extend(x if isinstance(x, list) else [x])
        for s in flat:
            stats['data'] += 1
            try:
                c = Category.parse(s)
                if not twin.same(Category.parse(str(c)), c):
                    fail('shipped category string does not print back to the same value', file=fn, category=s)
            except Exception:
                fail('shipped category string is not well formed', file=fn, category=s)
    # the operation is applicable with the real files: one call with the whole English dictionary
    try:
        cats = [Category.parse(t) for t in load('targets.en.jsonnet', 'targets')]
        cdict = {w: [Category.parse(c) for c in cs] for w, cs in cd.items()}
        doc = [[Token(word=w) for w in list(cdict)[:3] + ['zzzunknown']]]
        sc = [ScoringResult(np.zeros((4, len(cats)), dtype=np.float32), np.zeros((4, 5), dtype=np.float32))]
        P.apply_category_filters(doc, sc, cats, cdict)
    except Exception as e:           # noqa
        fail('the shipped dictionary is not applicable to the shipped inventory', error=repr(e)[:300])


t0 = time.time()
N = 400 if tier == 'quick' else 6000
for _ in range(N):
    one_case()
for _ in range(5):
    history_case()
data_clause()
print(json.dumps(dict(evaluations=stats['n'], distinct_nontrivial=len(stats['distinct']), cells_checked=stats['cells'], data_entries_checked=stats['data'], failures=fails,
                      wall=round(time.time() - t0, 1),
                      rule=(f'{N} seeded documents (1-3 sentences of 1-4 tokens, 1-8 categories, dictionaries of 0-4 words with 0..all categories, single-sentence and batch call forms): '
                            'every cell of every tag matrix against the contract, dependency matrices and token order unchanged; data clause exhaustive over cat_dict.en / targets / '
                            'seen_rules / unary_rules of en, en_rebank, ja; distinct_nontrivial = distinct (categories, sentences, dictionary shape) combinations'))))
