"""Bounded stand-in for C05, run on the real code (python of /venv, PYTHONPATH=/repo:/verif).
Enumerates category values / texts and checks the round-trip statements and the assumed library
contracts (tokenizer, Feature.parse three-part branch) natively.  Prints one JSON object."""
import itertools
import json
import os
import random
import re
import sys
import time

from depccg.cat import Category, Atom, Functor, UnaryFeature, TernaryFeature, Feature
import depccg.cat as catmod
from vc import twin
from vc.twin import same, str_spec, feat_text, outcome
from vc import jsonnet_lite

tier = os.environ.get('VERIF_TIER', 'quick')
seed = int(os.environ.get('VERIF_SEED', '0') or 0)
rng = random.Random(seed)
REPO = os.environ.get('VERIF_REPO', '/repo')

SPECIAL = '[]()/\\|<>'
fails = []
stats = dict(evaluations=0, distinct=set())


def fail(kind, **kw):
    if len([f for f in fails if not f.get('undecided')]) < 20:
        fails.append(dict(kind=kind, **{k: repr(v) for k, v in kw.items()}))


def assumption_fails(kind, **kw):
    """the tokenizer contract is an ASSUMPTION of the deductive proof about the inside of Category.parse (how its first statements cut the text), not a clause
    of the property: when the code no longer has that shape the proof's assumption is unvalidated (undecided), which is not a violation - the clauses of the
    property are checked at the level of values right below"""
    if not any(f.get('undecided') for f in fails):
        fails.append(dict(kind=kind, undecided=True, **{k: repr(v) for k, v in kw.items()}))


# --- spec token list of the canonical text of a value
def toks(c, top=True):
    if twin.is_atom(c):
        t = feat_text(c.feature)
        return [c.base] if t == '' else [c.base, '[', t, ']']
    def op(x):
        return toks(x, False) if twin.is_atom(x) else ['('] + toks(x, False) + [')']
    return op(c.left) + [c.slash] + op(c.right)


def spec_tokens(text):
    """maximal runs of characters that are neither blank nor special, and single special characters"""
    out, cur = [], ''
    for ch in text:
        if ch == ' ' or ch in SPECIAL:
            if cur:
                out.append(cur)
                cur = ''
            if ch != ' ':
                out.append(ch)
        else:
            cur += ch
    if cur:
        out.append(cur)
    return out


def real_tokens(text):
    """the first two statements of Category.parse, executed as they stand in the working tree"""
    import ast, inspect
    src = open(os.path.join(REPO, 'depccg/cat.py'), encoding='utf-8').read()
    tree = ast.parse(src)
    for cls in tree.body:
        if isinstance(cls, ast.ClassDef) and cls.name == 'Category':
            for fn in cls.body:
                if isinstance(fn, ast.FunctionDef) and fn.name == 'parse':
                    pre = []
                    for st in fn.body:
                        if isinstance(st, ast.While):
                            break
                        pre.append(st)
                    # the statements before the loop as a function of (cls, text) returning (buffer, stack); a `return` among them (an early exit
                    # before tokenizing) returns whatever it returns
                    ret = ast.parse('return ("TOKENIZED", buffer, stack)').body[0]
                    f = ast.FunctionDef(name='__parse_init', args=ast.arguments(posonlyargs=[], args=[ast.arg(arg='cls'), ast.arg(arg='text')], kwonlyargs=[], kw_defaults=[], defaults=[]),
                                        body=pre + [ret], decorator_list=[], returns=None, type_comment=None, type_params=[])
                    mod = ast.fix_missing_locations(ast.Module(body=[f], type_ignores=[]))
                    code = compile(mod, 'cat.py:Category.parse[init]', 'exec')
                    return code
    raise RuntimeError('Category.parse init not found')


_INIT = real_tokens('')


def run_init(text):
    env = dict(vars(catmod))
    exec(_INIT, env)
    try:
        r = env['__parse_init'](Category, text)
    except NameError as e:
        # the statements before the loop do not bind `buffer` / `stack`: another shape of the function
        return None, 'other shape: %s' % e
    if isinstance(r, tuple) and len(r) == 3 and r[0] == 'TOKENIZED':
        return r[1], r[2]
    return ['<Category.parse returned %r before tokenizing>' % (r,)], None


# --- alphabets
UN = [None, 'dcl', 'X', 'nb', 'adj', 'conj']
TE = [(('mod', 'nm'), ('form', 'base'), ('fin', 't')), (('mod', 'X1'), ('form', 'X2'), ('fin', 'f')), (('case', 'ga'), ('mod', 'nm'), ('fin', 'f'))]
BASES = ['S', 'NP', 'N', 'PP', 'x1', 'conj', ',', '.', 'LRB']
PUNCT = list(catmod.punctuations)


def atoms(bases, un, te):
    out = []
    for b in bases:
        out.append(Atom(b))
        if b in PUNCT:
            continue
        for u in un:
            if u is not None:
                out.append(Atom(b, UnaryFeature(u)))
        for t in te:
            out.append(Atom(b, TernaryFeature(*t)))
    return out


def cats_upto(atom_list, n, slashes='/\\|'):
    by = {1: list(atom_list)}
    for k in range(2, n + 1):
        cur = []
        for i in range(1, k):
            for l in by[i]:
                for r in by[k - i]:
                    for s in slashes:
                        cur.append(Functor(l, s, r))
        by[k] = cur
    return by


def check_value(c):
    stats['evaluations'] += 1
    want = str_spec(c)
    got = outcome(str, c)
    if got != ('return', want):
        fail('print', cat=twin.fields(c), got=got, want=want)
        return
    stats['distinct'].add(want)
    p = outcome(Category.parse, want)
    if p[0] != 'return' or not same(p[1], c):
        fail('value->text->value', text=want, got=p)
    # tokenizer contract on the printed text
    try:
        buf, st = run_init(want)
        if buf is None or list(reversed(buf)) != toks(c) or st != []:
            assumption_fails('tokenizer contract assumed by the loop proof is not validated (printed text)', text=want, got=st if buf is None else list(reversed(buf)), want=toks(c))
    except Exception as e:
        assumption_fails('tokenizer contract assumed by the loop proof is not validated (raises)', text=want, err=e)


def variants(c, depth=0):
    """texts of c with redundant brackets / blanks (a finite family)"""
    base = toks(c)
    yield ' '.join(base)
    yield '  ' + ''.join(base) + ' '
    for o, cl in (('(', ')'), ('<', '>')):
        yield o + ''.join(base) + cl
        yield o + o + ''.join(base) + cl + cl
    if not twin.is_atom(c):
        def op(x, o, cl, extra):
            t = ''.join(toks(x))
            if twin.is_atom(x):
                return (o + t + cl) if extra else t
            return (o + o + t + cl + cl) if extra else (o + t + cl)
        for o, cl in (('(', ')'), ('<', '>')):
            for el in (False, True):
                for er in (False, True):
                    yield op(c.left, o, cl, el) + c.slash + op(c.right, o, cl, er)
                    yield op(c.left, o, cl, el) + ' ' + c.slash + ' ' + op(c.right, '(', ')', er)


def check_text_variants(c):
    want = str_spec(c)
    for t in set(variants(c)):
        stats['evaluations'] += 1
        buf0 = run_init(t)[0]
        if buf0 is None or spec_tokens(t) != list(reversed(buf0)):
            assumption_fails('tokenizer contract assumed by the loop proof is not validated (text variants)', text=t, got=None if buf0 is None else list(reversed(buf0)), want=spec_tokens(t))
        p = outcome(Category.parse, t)
        if p[0] != 'return' or not same(p[1], c):
            fail('redundant brackets change the value', text=t, got=p, want=want)
            continue
        s = outcome(str, p[1])
        if s != ('return', want):
            fail('text->value->text', text=t, got=s, want=want)


def check_reject(a, b, c, s1, s2):
    def op(x):
        t = str_spec(x)
        return t if twin.is_atom(x) else '(' + t + ')'
    flat = op(a) + s1 + op(b) + s2 + op(c)
    for t in (flat, '(' + flat + ')', 'S/(' + flat + ')', '<' + flat + '>', flat + s1 + op(a)):
        stats['evaluations'] += 1
        p = outcome(Category.parse, t)
        if p[0] != 'raise':
            fail('two unbracketed slashes accepted', text=t, got=p)
        elif t == flat and p[1] != 'RuntimeError':
            fail('top-level ambiguity not reported as RuntimeError', text=t, got=p)


def check_feature_parse():
    texts = ['', 'dcl', 'X', 'nb', 'a=b', 'a,b', 'mod=nm,form=base,fin=t', 'case=ga,mod=X1,fin=X2', '=,', 'a=b,c=d', 'a=b,c=d,e=f,g=h', 'a=b=c,d=e,f=g']
    for t in texts:
        stats['evaluations'] += 1
        got = outcome(Feature.parse, t)
        want = outcome(twin.feat_parse, t)
        if got[0] != want[0] or (got[0] == 'return' and not same(got[1], want[1])) or (got[0] == 'raise' and got[1] != want[1]):
            fail('Feature.parse differs from its spec', text=t, got=got, want=want)
    # printed three-part features parse back (the assumed clause of the feature contract)
    for t in TE:
        f = TernaryFeature(*t)
        got = outcome(Feature.parse, feat_text(f))
        stats['evaluations'] += 1
        if got[0] != 'return' or not same(got[1], f):
            fail('three-part feature does not parse back', text=feat_text(f), got=got)


def check_models():
    md = os.path.join(REPO, 'depccg/models')
    n = 0
    strings = set()
    for fn in sorted(os.listdir(md)):
        if not fn.endswith('.jsonnet'):
            continue
        key = fn.split('.')[0]
        if key not in ('targets', 'seen_rules', 'unary_rules', 'cat_dict'):
            continue
        try:
            data = jsonnet_lite.load(os.path.join(md, fn))
        except Exception as e:
            fail('model file unreadable', file=fn, err=e)
            continue
        def walk(x, is_key=False):
            if isinstance(x, str):
                strings.add(x)
            elif isinstance(x, list):
                for y in x:
                    walk(y)
            elif isinstance(x, dict):
                for k, y in x.items():
                    walk(y)
        walk(data)
    for s in sorted(strings):
        n += 1
        stats['evaluations'] += 1
        p = outcome(Category.parse, s)
        if p[0] != 'return':
            fail('shipped category string does not parse', text=s, got=p)
            continue
        t = str(p[1])
        q = outcome(Category.parse, t)
        if q[0] != 'return' or not same(q[1], p[1]):
            fail('shipped category: print/parse not stable', text=s, printed=t)
        strip_b = lambda toks_: [x for x in toks_ if x not in '()<>']
        if strip_b(spec_tokens(s)) != strip_b(spec_tokens(t)):
            fail('shipped category: printed text differs beyond brackets', text=s, printed=t)
        if t != str_spec(p[1]):
            fail('shipped category: printer differs from canonical text', text=s, printed=t)
    return n


def main():
    t0 = time.time()
    if tier == 'thorough':
        A3 = atoms(BASES, UN, TE)
        A4 = atoms(['S', 'NP', ','], [None, 'X'], TE[:1])
        n_small, n_big = 3, 4
    else:
        A3 = atoms(['S', 'NP', 'x1', ',', 'conj'], [None, 'dcl', 'X'], TE[:2])
        A4 = atoms(['S', ','], [None, 'nb'], TE[:1])
        n_small, n_big = 3, 4
    by = cats_upto(A3, n_small)
    for k in by:
        for c in by[k]:
            check_value(c)
    by4 = cats_upto(A4, n_big)
    for c in by4[n_big]:
        check_value(c)
    pool = by[1] + rng.sample(by[2], min(len(by[2]), 150)) + rng.sample(by[3], min(len(by[3]), 150 if tier == 'quick' else 1500))
    for c in pool:
        check_text_variants(c)
    ops = by[1][:6] + rng.sample(by[2], 6)
    for a, b, c in itertools.product(ops[:5], ops[3:8], ops[6:12]):
        for s1, s2 in (('/', '/'), ('/', '\\'), ('\\', '|')):
            check_reject(a, b, c, s1, s2)
    check_feature_parse()
    nmodel = check_models()
    print(json.dumps(dict(evaluations=stats['evaluations'], distinct_nontrivial=len(stats['distinct']), failures=fails, model_strings=nmodel,
                          wall=round(time.time() - t0, 2),
                          rule=('all category values with <= %d atoms over %d atoms (both feature systems, slashes / \\ |) and all with %d atoms over %d atoms: '
                                'print, parse back, tokenizer contract; redundant-bracket/blank variants of a seeded sample; ambiguity rejection on operand triples; '
                                'Feature.parse vs spec; every category string of the shipped targets/seen_rules/unary_rules/cat_dict files. '
                                'distinct_nontrivial = number of distinct printed texts') % (n_small, len(A3), n_big, len(A4)))))


if __name__ == '__main__':
    main()
