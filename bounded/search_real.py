"""Bounded stand-in for the search properties on the real code (parsing.h compiled as it stands + DePyx text of parsing.pyx):
run-time contracts against an exhaustive oracle on small sentences.

 C01 first parse has the maximum model score over all licensed derivations; failure iff none exists; popped priorities never increase
 C02 every returned tree is a licensed derivation (leaves in order with admitted tags, licensed nodes, allowed root, no unary at a multi-word root)
 C09 reported score = model score recomputed from the returned tree
 C10 k-best: min(k, #derivations) pairwise different trees, non-increasing, scores = the k largest
 C12 every node carries label / symbol / head direction of the very grammar result that created it
 C16 leaves use only beam-admitted tags; excluded tags are unavailable
Synthetic head-uniform grammars with acyclic unary rules and distinct labels per result; seeded random score matrices.
Prints one JSON object: failures tagged with the property they violate."""
import itertools
import json
import math
import os
import random
import sys
import time

import numpy as np

from vc import harness

tier = os.environ.get('VERIF_TIER', 'quick')
seed = int(os.environ.get('VERIF_SEED', '0') or 0)
only = set(filter(None, os.environ.get('VERIF_PROPS', '').split(',')))
rng = random.Random(seed)
fails, stats = [], dict(n=0, distinct=set(), with_parse=0, failed_parse=0, nodes=0)
TOL = 2e-4


def fail(prop, kind, **w):
    if only and prop not in only:
        return
    if len([f for f in fails if f['prop'] == prop]) < 6:
        fails.append(dict(prop=prop, kind=kind, witness=w))


# ------------------------------------------------------------------ synthetic grammars
class Grammar:
    def __init__(self, ncat, head_left, density, nunary, mixed=False):
        self.ncat, self.head_left, self.mixed = ncat, head_left, mixed
        self.binary = {}
        lab = 0
        for x in range(ncat):
            for y in range(ncat):
                if rng.random() < density:
                    rs = []
                    for _ in range(rng.choice([1, 1, 2, 3, 4])):
                        c = rng.randrange(ncat) if not rs or rng.random() < 0.6 else rs[-1][0]
                        h = head_left if not mixed else (rng.random() < 0.5)
                        rs.append((c, f'b{lab}', f'<b{lab}>', h))
                        lab += 1
                    self.binary[(x, y)] = rs
        self.unary = {}
        for _ in range(nunary):
            x = rng.randrange(ncat - 1)
            y = rng.randrange(x + 1, ncat)          # x < y: acyclic
            rs = self.unary.setdefault(x, [])
            if all(r[0] != y for r in rs):
                rs.append((y, f'u{lab}', f'<u{lab}>'))
                lab += 1

    def bin_cb(self, x, y):
        return [(c, i, h, s1, s2) for i, (c, s1, s2, h) in enumerate(self.binary.get((x, y), []))]

    def un_cb(self, x):
        return [(c, i, True, s1, s2) for i, (c, s1, s2) in enumerate(self.unary.get(x, []))]


class WideGrammar(Grammar):
    """one pair of categories (and one category) with several hundred rule results, only the LAST of which gives the root category: the derivation the parser
    returns must carry that result's index, label and head direction (an index field narrower than the vector would wrap)"""
    def __init__(self, width, head_left):
        self.ncat, self.head_left, self.mixed = 4, head_left, False
        self.binary = {(0, 1): [(2, f'b{k}', f'<b{k}>', head_left) for k in range(width - 1)] + [(3, f'b{width - 1}', f'<b{width - 1}>', head_left)]}
        self.unary = {0: [(1, f'u{k}', f'<u{k}>') for k in range(width - 1)] + [(3, f'u{width - 1}', f'<u{width - 1}>')]}


def admitted(tag_row, pruning, use_beta, beta):
    order = sorted(range(len(tag_row)), key=lambda c: (tag_row[c], c), reverse=True)[:pruning]
    if use_beta:
        best = max(tag_row)
        thr = math.exp(best) * beta
        out = []
        for c in order:
            if math.exp(tag_row[c]) > thr:
                out.append(c)
            else:
                break
        return out
    return order


def f32(x):
    return float(np.float32(x))


def all_derivations(G, tag, dep, n, roots, pruning, use_beta, beta, penalty, limit=20000):
    """every derivation licensed over the admitted tags: (score, tree); tree = (cat, kind, label, head, children...)"""
    chart = {}
    count = 0

    def close_unary(items, allow):
        if not allow:
            return items
        out = list(items)
        frontier = list(items)
        while frontier:
            nxt = []
            for (cat, head, sc, tree) in frontier:
                for ri, (c2, s1, s2) in enumerate(G.unary.get(cat, [])):
                    it = (c2, head, sc - penalty, ('U', c2, ri, s1, s2, tree))
                    nxt.append(it)
            out.extend(nxt)
            frontier = nxt
            if len(out) > limit:
                raise OverflowError
        return out
    for i in range(n):
        items = [(c, i, float(tag[i][c]), ('L', c, i)) for c in admitted(list(tag[i]), pruning, use_beta, beta)]
        chart[(i, 1)] = close_unary(items, n == 1 or 1 != n)
    for ln in range(2, n + 1):
        for s in range(0, n - ln + 1):
            items = []
            for k in range(1, ln):
                for (lc, lh, ls, lt) in chart[(s, k)]:
                    for (rc, rh, rs_, rt) in chart[(s + k, ln - k)]:
                        for ri, (c, s1, s2, hl) in enumerate(G.binary.get((lc, rc), [])):
                            if hl:
                                head, child = lh, rh
                            else:
                                head, child = rh, lh
                            sc = ls + rs_ + float(dep[child][head + 1])
                            items.append((c, head, sc, ('B', c, ri, s1, s2, hl, lt, rt)))
                            if len(items) > limit:
                                raise OverflowError
            chart[(s, ln)] = close_unary(items, ln != n)
    out = []
    for (c, h, sc, t) in chart[(0, n)]:
        if c in roots:
            out.append((sc + float(dep[h][0]), t))
    return out


def tree_of_item(it):
    """derivation dict from the harness -> same tuple shape as the oracle (labels from rule_id are checked separately)"""
    if it['left'] is None and it['right'] is None:
        return ('L', it['cat'], it['start_of_span'])
    if it['right'] is None:
        return ('U', it['cat'], it['rule_id'], tree_of_item(it['left']))
    return ('B', it['cat'], it['rule_id'], tree_of_item(it['left']), tree_of_item(it['right']))


def strip_labels(t):
    if t[0] == 'L':
        return t
    if t[0] == 'U':
        return ('U', t[1], t[2], strip_labels(t[5]))
    return ('B', t[1], t[2], strip_labels(t[6]), strip_labels(t[7]))


def check_item_tree(G, it, tag, dep, n, roots, adm, penalty, ctx):
    """C02 / C09 / C12 on one returned final item; returns recomputed score"""
    if not it['fin'] or it['left'] is None:
        fail('C02', 'finalizer got a non-final item', **ctx)
        return None
    body = it['left']
    pos = [0]
    ok = [True]

    def rec(x, top):
        stats['nodes'] += 1
        if x['left'] is None and x['right'] is None:
            t = pos[0]
            pos[0] += 1
            if x['start_of_span'] != t or x['span_length'] != 1 or x['head_id'] != t:
                fail('C02', 'leaf span/head wrong', node=x_brief(x), **ctx)
            if x['cat'] not in adm[t]:
                fail('C16', 'leaf uses a tag outside the beam', token=t, cat=x['cat'], admitted=adm[t], **ctx)
                fail('C02', 'leaf uses a tag that was not admitted', token=t, cat=x['cat'], **ctx)
            return x['cat'], t, float(tag[t][x['cat']]) if x['cat'] < tag.shape[1] else float('nan')
        if x['right'] is None:
            cc, ch, cs = rec(x['left'], False)
            rs = G.unary.get(cc, [])
            if top and n > 1:
                fail('C02', 'unary step at the root of a multi-word sentence', **ctx)
            if not any(r[0] == x['cat'] for r in rs):
                fail('C02', 'unary node category not licensed', child=cc, cat=x['cat'], **ctx)
            elif not (x['rule_id'] < len(rs) and rs[x['rule_id']][0] == x['cat']):
                fail('C12', 'unary node does not carry the index of the result that created it', child=cc, cat=x['cat'], rule_id=x['rule_id'],
                     results=[r[0] for r in rs], **ctx)
            return x['cat'], ch, cs - penalty
        lc, lh, ls = rec(x['left'], False)
        rc, rh, rs_ = rec(x['right'], False)
        res = G.binary.get((lc, rc), [])
        if not any(r[0] == x['cat'] for r in res):
            fail('C02', 'binary node category not licensed', left=lc, right=rc, cat=x['cat'], **ctx)
        elif not (x['rule_id'] < len(res) and res[x['rule_id']][0] == x['cat']):
            fail('C12', 'binary node does not carry the index of the result that created it', left=lc, right=rc, cat=x['cat'], rule_id=x['rule_id'], **ctx)
        hl = res[x['rule_id']][3] if x['rule_id'] < len(res) else G.head_left
        head, child = (lh, rh) if hl else (rh, lh)
        if x['head_id'] != head:
            fail('C09', 'head of a binary node is not the head of its head child', node=x_brief(x), expected=head, **ctx)
        return x['cat'], head, ls + rs_ + float(dep[child][head + 1])
    cat, head, sc = rec(body, True)
    if pos[0] != n:
        fail('C02', 'tree does not have one leaf per token', leaves=pos[0], **ctx)
    if cat not in roots:
        fail('C02', 'root category not allowed', cat=cat, **ctx)
    total = sc + float(dep[head][0])
    got = f32(it['in_score']) + f32(it['out_score'])
    if not (abs(got - total) <= TOL * max(1.0, abs(total))):
        fail('C09', 'reported score differs from the model score of the returned tree', reported=got, recomputed=total, **ctx)
    return total


def x_brief(x):
    return {k: x[k] for k in ('cat', 'start_of_span', 'span_length', 'head_id', 'rule_id')}


def one_case(G, n, ntags, roots, pruning, use_beta, beta, penalty, nbest):
    tag = np.log(np.array([[rng.uniform(0.01, 1.0) for _ in range(ntags)] for _ in range(n)], dtype=np.float64)).astype(np.float32)
    if rng.random() < 0.3:
        for i in range(n):
            for c in range(ntags):
                if rng.random() < 0.3:
                    tag[i][c] = np.float32(-1e33)          # rows flattened by the category dictionary
            if all(tag[i][c] < -1e30 for c in range(ntags)):
                tag[i][rng.randrange(ntags)] = np.float32(math.log(0.5))
    dep = np.log(np.array([[rng.uniform(0.01, 1.0) for _ in range(n + 1)] for _ in range(n)], dtype=np.float64)).astype(np.float32)
    ctx = dict(grammar=dict(head_left=G.head_left, binary={f'{k[0]},{k[1]}': [[r[0], r[3]] for r in v] for k, v in G.binary.items()},
                            unary={str(k): [r[0] for r in v] for k, v in G.unary.items()}),
               mixed_heads=G.mixed, n=n, roots=sorted(roots), tag=[[round(float(x), 4) for x in r] for r in tag], dep=[[round(float(x), 4) for x in r] for r in dep],
               pruning=pruning, use_beta=use_beta, beta=beta, penalty=penalty, nbest=nbest)
    stats['n'] += 1
    try:
        allder = all_derivations(G, tag, dep, n, roots, pruning, use_beta, beta, penalty)
    except OverflowError:
        return
    adm = [admitted(list(tag[i]), pruning, use_beta, beta) for i in range(n)]
    status, outs, pops = harness.parse_raw(tag, dep, n, sorted(roots), G.bin_cb, G.un_cb, num_tags=ntags, unary_penalty=penalty, beta=beta,
                                           use_beta=use_beta, pruning_size=pruning, nbest=nbest)
    scores = sorted((s for s, _ in allder), reverse=True)
    stats['distinct'].add((n, len(allder), status, nbest))
    # C01: failure iff no derivation
    if status not in (0, 1):
        fail('C01', 'parse_sentence did not return 0/1', status=status, **ctx)
        return
    if (G.mixed or penalty < 0) and status == 1:
        stats['failed_parse'] += 1
        return
    if penalty >= 0 and (status == 1) != (len(allder) == 0):
        fail('C01', 'reported as failed although a licensed derivation exists' if status == 1 else 'a parse is returned although no licensed derivation exists',
             n_derivations=len(allder), **ctx)
        if status == 1:
            fail('C16', 'beam: derivations over admitted tags exist but the search fails', n_derivations=len(allder), **ctx)
        return
    if status == 1:
        stats['failed_parse'] += 1
        return
    stats['with_parse'] += 1
    got = []
    for it in outs:
        got.append(check_item_tree(G, it, tag, dep, n, roots, adm, penalty, ctx))
    if any(g is None for g in got):
        return
    if G.mixed or penalty < 0:
        return          # optimality, pop order and k-best are stated for head-uniform grammars and unary penalties >= 0 only
    if abs(got[0] - scores[0]) > TOL * max(1.0, abs(scores[0])):
        fail('C01', 'first parse is not a highest-scoring derivation', returned=got[0], best=scores[0], **ctx)
        if pops:
            # C16: was a beam-admitted tag of the best derivation never put on the agenda? (a leaf's priority is at least the score of any derivation through it,
            # so it would have been popped before the worse goal item)
            def leaves(t):
                return [(t[2], t[1])] if t[0] == 'L' else leaves(t[5]) if t[0] == 'U' else leaves(t[6]) + leaves(t[7])
            best_tree = max(allder, key=lambda d: d[0])[1]
            popped = {(p['start_of_span'], p['cat']) for p in pops if p['span_length'] == 1}
            missing = [lf for lf in leaves(best_tree) if lf not in popped]
            if missing:
                fail('C16', 'a tag admitted by the beam never entered the search', missing=missing, use_beta=use_beta, **{k: v for k, v in ctx.items() if k != 'use_beta'})
    # pops
    if pops:
        pr = [f32(p['in_score']) + f32(p['out_score']) for p in pops]
        for a, b in zip(pr, pr[1:]):
            if b > a + TOL * max(1.0, abs(a)):
                fail('C01', 'priorities of popped items increase', sequence=[round(x, 4) for x in pr[:12]], **ctx)
                break
    # C10
    want = scores[:nbest]
    if len(got) != min(nbest, len(allder)):
        fail('C10', 'number of parses is not min(k, number of derivations)', returned=len(got), derivations=len(allder), **ctx)
    else:
        if any(b > a + TOL for a, b in zip(got, got[1:])):
            fail('C10', 'n-best list is not in non-increasing score order', scores=got, **ctx)
        if any(abs(a - b) > TOL * max(1.0, abs(b)) for a, b in zip(sorted(got, reverse=True), want)):
            fail('C10', 'n-best scores are not the k largest over all derivations', returned=got, expected=want, **ctx)
        trees = [json.dumps(tree_of_item(it['left'])) for it in outs]
        if len(set(trees)) != len(trees):
            fail('C10', 'n-best list contains the same derivation twice', **ctx)


def main():
    t0 = time.time()
    N = 900 if tier == 'quick' else 12000
    for ci in range(N):
        ncat = rng.choice([3, 4, 5, 6])
        G = Grammar(ncat, head_left=rng.random() < 0.5, density=rng.choice([0.3, 0.5, 0.7]), nunary=rng.choice([0, 1, 2, 3]), mixed=(ci % 4 == 3))
        n = rng.choice([1, 2, 3, 3, 4])
        ntags = rng.choice([1, 2, 3, min(4, ncat)])
        ntags = min(ntags, ncat)
        roots = set(rng.sample(range(ncat), rng.choice([1, 2, ncat])))
        pruning = rng.choice([1, 2, 3, 50])
        use_beta = rng.random() < 0.6
        beta = rng.choice([0.00001, 0.01, 0.1, 0.5, 0.9])
        penalty = rng.choice([0.0, 0.1, 1.0, 0.1, -0.5])       # a negative penalty (a bonus) is outside C01's premise but inside C09's quantifier
        nbest = rng.choice([1, 1, 2, 3, 5, 50])
        one_case(G, n, ntags, roots, pruning, use_beta, beta, penalty, nbest)
    for width in (257, 300, 70000 if tier != 'quick' else 600):
        for hl in (True, False):
            G = WideGrammar(width, hl)
            one_case(G, 2, 2, {3}, 50, False, 0.00001, 0.1, 1)         # two words tagged 0 / 1: the only root is result width-1 of the pair (0, 1)
            one_case(G, 1, 1, {3}, 50, False, 0.00001, 0.1, 1)         # one word tagged 0: the only root is unary result width-1
    print(json.dumps(dict(evaluations=stats['n'], distinct_nontrivial=stats['with_parse'], failed_sentences=stats['failed_parse'], nodes_checked=stats['nodes'],
                          failures=fails, have_pop_hook=bool(harness.lib().have_hook), wall=round(time.time() - t0, 1),
                          rule=(f'{N} seeded cases: synthetic head-uniform grammars (3-6 categories, 1-3 labelled results per pair, acyclic unary rules), sentences of length 1-4, '
                                '1-4 tags per token, random log-probability matrices (30% with rows flattened to -1e33), pruning_size in {1,2,3,50}, beta in {1e-5..0.9} on/off, '
                                'penalty in {0,0.1,1}, k in {1,2,3,5,50}; plus grammars with 257 / 300 / 600 results for one pair and one category whose last result alone gives the root; '
                                'oracle: exhaustive enumeration of all derivations; distinct_nontrivial = cases with a parse'))))


if __name__ == '__main__':
    main()
