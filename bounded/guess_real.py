"""Bounded stand-in for the reader half of C12 on the real guess_combinator_by_triplet: the rule returned is the first result of the GIVEN rule function
that yields the target (label, symbol, head direction), whatever was asked before - the two languages are interleaved in one process."""
import json
import os
import random
import time

from depccg.cat import Category
from depccg.grammar import guess_combinator_by_triplet, en, ja
from vc import jsonnet_lite

tier = os.environ.get('VERIF_TIER', 'quick')
rng = random.Random(int(os.environ.get('VERIF_SEED', '0') or 0))
REPO = os.environ.get('VERIF_REPO', '/repo')
fails, n, nontrivial = [], 0, 0
t0 = time.time()


# the property on whose behalf the script runs (C12: labels are those the grammar assigned; C15: the XML readers re-derive their labels through this function)
_props = [p for p in os.environ.get('VERIF_PROPS', '').split(',') if p]
_PROP = 'C12' if (not _props or 'C12' in _props) else _props[0]


def fail(kind, **w):
    if len(fails) < 8:
        fails.append(dict(prop=_PROP, kind=kind, witness={k: (v if isinstance(v, (int, float, str, list, dict, bool, type(None))) else repr(v)) for k, v in w.items()}))


md = os.path.join(REPO, 'depccg/models')
inv = {}
for lang, fn in (('en', 'targets.en.jsonnet'), ('ja', 'targets.ja.jsonnet')):
    try:
        ts = jsonnet_lite.load(os.path.join(md, fn))['targets']
    except Exception:
        ts = []
    cats = []
    for t in ts[:400]:
        try:
            cats.append(Category.parse(t))
        except Exception:
            pass
    inv[lang] = cats
G = dict(en=en, ja=ja)
triplets = []
for lang in ('en', 'ja'):
    cats = inv[lang]
    tries = 0
    while len([t for t in triplets if t[0] == lang]) < (60 if tier == 'quick' else 600) and tries < 40000 and cats:
        tries += 1
        x, y = rng.choice(cats), rng.choice(cats)
        rs = G[lang].apply_binary_rules(x, y)
        if rs:
            triplets.append((lang, rs[rng.randrange(len(rs))].cat, x, y))
# every triplet is asked under BOTH grammars, interleaved: the answer must be that grammar's own first matching rule (or the unknown rule)
order = [(lang, t) for t in triplets for lang in ('en', 'ja')]
rng.shuffle(order)
for rnd in range(2):
    for lang, (_, target, x, y) in order:
        n += 1
        rules = G[lang].apply_binary_rules
        want = [r for r in rules(x, y) if r.cat == target]
        try:
            got = guess_combinator_by_triplet(rules, target, x, y)
        except Exception as e:       # noqa
            fail('guess_combinator_by_triplet raises', error=repr(e)[:200], lang=lang, target=str(target), x=str(x), y=str(y))
            continue
        if want:
            nontrivial += 1
            w = want[0]
            if (got.op_string, got.op_symbol, got.head_is_left) != (w.op_string, w.op_symbol, w.head_is_left):
                fail('guessed rule is not the first rule of the given grammar that derives the node', lang=lang, target=str(target), x=str(x), y=str(y),
                     got=[got.op_string, got.op_symbol, got.head_is_left], want=[w.op_string, w.op_symbol, w.head_is_left], round=rnd)
        elif got.op_string in [r.op_string for r in rules(x, y)] and any(r.cat == target for r in rules(x, y)):
            fail('a rule is guessed although the given grammar does not derive the node', lang=lang, target=str(target), x=str(x), y=str(y), got=got.op_string)
        elif not want and got.op_string not in ('unk', 'unknown') and not any(r.op_string == got.op_string and r.cat == target for r in rules(x, y)):
            fail('the label returned for an underivable node is not the unknown rule', lang=lang, target=str(target), x=str(x), y=str(y), got=got.op_string)
print(json.dumps(dict(evaluations=n, distinct_nontrivial=nontrivial, failures=fails, wall=round(time.time() - t0, 1),
                      rule=f'{len(triplets)} grammar-derived triplets over the shipped inventories, each asked under both grammars, interleaved, two rounds (history independence of the guess)')))
