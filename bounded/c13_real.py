"""Bounded stand-in for C13 on the real code (never counted as proved): every pair of category values up to a size bound over both feature systems,
built with the constructors (not through Category.parse), against the independent field-level twins of vc/twin.py:
  ==  iff structurally the same; equal => equal hash (and found in sets / dicts); == with a string iff the string is the canonical text;
  ^   iff the feature-stripped values are the same (reflexive, symmetric, coarser than ==);
  clear_features(names) = the value with exactly the named features removed everywhere; idempotent; the receiver is unchanged."""
import itertools, json, os, random, time
from depccg.cat import Category, Atom, Functor, UnaryFeature, TernaryFeature
from vc import twin
from vc.twin import same, str_spec, fields, strip, erase, feat_parse

t0 = time.time()
tier = os.environ.get('VERIF_TIER', 'quick')
rng = random.Random(int(os.environ.get('VERIF_SEED', '0') or 0))
fails, n = [], 0


def fail(kind, **w):
    if len(fails) < 12:
        fails.append(dict(kind=kind, witness={k: (v if isinstance(v, (str, int, list, bool, type(None))) else repr(v)) for k, v in w.items()}))


def tern(a, b, c):
    return TernaryFeature(('mod', a), ('form', b), ('fin', c))


EN_FEATS = [UnaryFeature(None), UnaryFeature('dcl'), UnaryFeature('nb'), UnaryFeature('X'), UnaryFeature('conj')]
JA_FEATS = [UnaryFeature(None), tern('nm', 'base', 'f'), tern('adn', 'base', 't'), tern('X1', 'X2', 'X3'), TernaryFeature(('case', 'ga'), ('mod', 'nm'), ('fin', 'f'))]
BASES = ['S', 'NP', 'N']
SLASHES = ['/', '\\', '|']


def pool(feats, depth2):
    atoms = [Atom(b, f) for b in BASES for f in feats]
    level1 = [Functor(l, s, r) for l in atoms for s in SLASHES for r in atoms]
    rng.shuffle(level1)
    level1 = level1[:60 if tier == 'quick' else 400]
    level2 = []
    for _ in range(depth2):
        l, r = rng.choice(atoms + level1), rng.choice(atoms + level1)
        level2.append(Functor(l, rng.choice(SLASHES), r))
    return atoms + level1 + level2


cats = pool(EN_FEATS, 60 if tier == 'quick' else 600) + pool(JA_FEATS, 60 if tier == 'quick' else 600)
texts = [str_spec(c) for c in cats]

# ---- equality, hash, containers, comparison with text
pairs = list(itertools.product(range(len(cats)), repeat=2))
if tier == 'quick' and len(pairs) > 40000:
    pairs = rng.sample(pairs, 40000) + [(i, i) for i in range(len(cats))]
for i, j in pairs:
    a, b = cats[i], cats[j]
    n += 1
    want = same(a, b)
    try:
        got = (a == b)
        if got is not want:
            fail('== differs from structural identity', a=texts[i], b=texts[j], got=got, want=want)
        if want and hash(a) != hash(b):
            fail('equal categories hash differently', a=texts[i], b=texts[j])
        sx = (a ^ b)
        wx = same(strip(a), strip(b))
        if bool(sx) is not wx:
            fail('^ differs from equality of the feature-stripped values', a=texts[i], b=texts[j], got=bool(sx), want=wx)
        gs = (a == texts[j])
        if gs is not (texts[i] == texts[j]):
            fail('comparison with a string differs from comparison of canonical texts', a=texts[i], text=texts[j], got=gs)
    except Exception as e:
        fail('comparison raises', a=texts[i], b=texts[j], error=repr(e))
for i, a in enumerate(cats):
    rebuilt = twin.mapf(a, lambda f: f)          # an equal value built separately
    n += 1
    if rebuilt not in {a} or {a: 1}.get(rebuilt) != 1:
        fail('an equal value is not found in a set / dict keyed by the category', a=texts[i])

# ---- erasure
name_sets = [(), ('nb',), ('X',), ('dcl', 'nb'), ('conj',), ('mod=nm,form=base,fin=f',), ('mod=X1,form=X2,fin=X3', 'nb'), ('case=ga,mod=nm,fin=f',),
             (UnaryFeature('dcl'),), (tern('adn', 'base', 't'),), ('dcl', tern('nm', 'base', 'f'))]
for i, a in enumerate(cats):
    before = str_spec(a)
    for names in name_sets:
        n += 1
        N = [feat_parse(x) if isinstance(x, str) else x for x in names]
        want = erase(a, N)
        try:
            got = a.clear_features(*names)
        except Exception as e:
            fail('clear_features raises', a=texts[i], names=[str(x) for x in names], error=repr(e))
            continue
        if not same(got, want):
            fail('clear_features does not remove exactly the named features everywhere', a=texts[i], names=[str(x) for x in names],
                 got=str_spec(got) if isinstance(got, Category) else repr(got), want=str_spec(want))
            continue
        if str_spec(a) != before:
            fail('clear_features changes its receiver', a=before, now=str_spec(a))
        again = got.clear_features(*names)
        if not same(again, got):
            fail('clear_features is not idempotent', a=texts[i], names=[str(x) for x in names])

print(json.dumps(dict(evaluations=n, distinct_nontrivial=len(cats), failures=fails, wall=round(time.time() - t0, 1),
                      samples=[dict(cat=t) for t in texts[:3]],
                      rule=(f'{len(cats)} constructor-built categories (atoms, all one-level functors sampled, random two-level functors; English unary and Japanese ternary features; '
                            f'slashes / \\ |), {len(pairs)} ordered pairs for == / hash / ^ / text comparison, {len(name_sets)} name sets per category for clear_features'))))
