"""Obligations, solver back ends, verdict protocol, evidence, known findings, replay files."""
import json
import os
import subprocess
import sys
import tempfile
import time
import traceback
import multiprocessing as mp
import z3

from .sorts import World, CheckerError, REPO
from .pyvc import Interp, Z, PyRaise, explore, Foreign, VarArgs

VERIF = os.path.dirname(os.path.dirname(os.path.abspath(__file__)))
Z3_MS = int(os.environ.get('VERIF_Z3_MS', '10000'))
CVC5_S = int(os.environ.get('VERIF_CVC5_S', '30'))


# ---------------------------------------------------------------------------- contracts
class Case:
    def __init__(self, name, build):
        self.name, self.build = name, build     # build(I) -> (args, kwargs, assumes, inputs{name: z3 const})


class Contract:
    """sidecar contract of one real function.  Subclasses define:
       rel, qualname, virtual (optional), cases(I), post(I, case, args, result) -> z3 Bool,
       raises(I, case, args, exc) -> z3 Bool | None, apply(I, args, kwargs, node) -> value,
       twin: python source of a function `check(args, outcome)` for replay (see vc/twin.py)"""
    rel = None
    qualname = None
    virtual = None
    assumptions = ()
    lemmas_used = ()

    @property
    def name(self):
        return f'{self.rel}::{self.qualname}'

    def cases(self, I):
        return []

    def post(self, I, case, args, result):
        raise NotImplementedError

    def raises(self, I, case, args, exc):
        return None

    def apply(self, I, args, kwargs, node):
        raise CheckerError(f'contract {self.name} cannot be used at call sites')

    def closure_env(self, I, f):
        return None


# ---------------------------------------------------------------------------- solving
def solve(goal, pc, extra=(), timeout_ms=None, want_model=None):
    """returns (verdict, backend, ms, model) ; verdict in discharged / failed / unknown"""
    t0 = time.time()
    s = z3.Solver()
    s.set('timeout', timeout_ms or Z3_MS)
    for c in pc:
        s.add(c)
    for c in extra:
        s.add(c)
    s.add(z3.Not(goal))
    r = s.check()
    ms = int((time.time() - t0) * 1000)
    if r == z3.unsat:
        return 'discharged', 'z3-' + z3.get_version_string(), ms, None
    if r == z3.sat:
        return 'failed', 'z3-' + z3.get_version_string(), ms, s.model()
    # fall back: cvc5, then the older z3 binary
    smt2 = s.to_smt2()
    for backend, cmd in (('cvc5-1.0.3', ['/usr/bin/cvc5', '--strings-exp', f'--tlimit={CVC5_S * 1000}', '--lang=smt2']),
                         ('z3-4.8.12', ['/usr/bin/z3', f'-T:{CVC5_S}', '-smt2', '-in'])):
        try:
            p = subprocess.run(cmd, input=smt2, capture_output=True, text=True, timeout=CVC5_S + 10)
            out = p.stdout.strip().splitlines()
            first = out[0].strip() if out else ''
        except Exception:
            first = ''
        ms = int((time.time() - t0) * 1000)
        if first == 'unsat':
            return 'discharged', backend, ms, None
        if first == 'sat':
            return 'failed', backend, ms, None
    return 'unknown', 'z3+cvc5', ms, None


def model_inputs(w, model, inputs):
    out = {}
    if model is None:
        return None
    for k, c in inputs.items():
        try:
            out[k] = w.to_py(model.eval(c, model_completion=True))
        except Exception as ex:
            out[k] = f'<{ex}>'
    return out


# ---------------------------------------------------------------------------- verifying one function
def verify_contract(I: Interp, c: Contract, prop):
    """symbolically executes the real body once per case and path; returns obligation records"""
    f = I.find_function(c.rel, c.qualname)
    if f.env is None:
        env = c.closure_env(I, f)
        if env is None:
            raise CheckerError(f'nested function {c.name} needs closure_env in its contract')
        f.env = env
    records = []
    npaths = 0
    for case in c.cases(I):
        holder = {}

        def run(ctx, case=case):
            args, kwargs, assumes, inputs = case.build(I)
            holder['inputs'] = inputs
            for a in assumes:
                ctx.assume(a)
            I.target, I.target_contract = f, c
            try:
                v = I.inline(f, list(args), dict(kwargs), f.node)
                return 'return', (args, v)
            except PyRaise as e:
                return 'raise', (args, e)
            finally:
                I.target, I.target_contract = None, None

        outcomes = explore(I, run)
        if not outcomes:
            records.append(dict(name=f'{prop}/{c.name}/vacuity[{case.name}]', kind='vacuity', verdict='failed', backend='pyvc', ms=0,
                                detail='no feasible path: requires clause unsatisfiable', inputs=None))
            continue
        records.append(dict(name=f'{prop}/{c.name}/vacuity[{case.name}]', kind='vacuity', verdict='discharged', backend='pyvc', ms=0,
                            detail=f'{len(outcomes)} feasible paths'))
        for pi, o in enumerate(outcomes):
            npaths += 1
            I.ctx = None
            args, val = o['value']
            tag = f'[{case.name}]#{pi}'
            for ob in o['obligations']:
                verdict, backend, ms, model = solve(ob['goal'], ob['pc'])
                records.append(dict(name=f'{prop}/{c.name}/{ob["kind"]}@{ob["line"]}{tag}', kind=ob['kind'], verdict=verdict,
                                    backend=backend, ms=ms, inputs=model_inputs(I.w, model, holder['inputs']), case=case.name,
                                    detail=ob.get('extra')))
            if o['kind'] == 'return':
                goal = c.post(I, case, args, val)
                line = 0
                kind = 'post'
                detail = None
            else:
                exc = val
                allowed = c.raises(I, case, args, exc)
                goal = allowed if allowed is not None else z3.BoolVal(False)
                kind = 'noraise' if allowed is None else 'raises'
                line = getattr(exc.node, 'lineno', 0)
                detail = str(exc)
            if isinstance(goal, bool):
                goal = z3.BoolVal(goal)
            verdict, backend, ms, model = solve(goal, o['pc'])
            records.append(dict(name=f'{prop}/{c.name}/{kind}@{line}{tag}', kind=kind, verdict=verdict, backend=backend, ms=ms,
                                inputs=model_inputs(I.w, model, holder['inputs']), case=case.name, detail=detail))
    return records, npaths


# ---------------------------------------------------------------------------- lemmas by structural induction
class Lemma:
    """P(c) for all categories c, by structural induction.  stmt(w, c, *params) -> z3 Bool.
    params are universally quantified outer parameters (same in hypothesis and conclusion)."""
    def __init__(self, name, stmt, params=(), hyps=None):
        self.name, self.stmt, self.params, self.hyps = name, stmt, params, hyps

    def obligations(self, w):
        ps = [z3.Const(n, s) for n, s in self.params]
        b = z3.Const('b', z3.StringSort())
        f = z3.Const('f', w.Feat)
        l, r = z3.Const('l', w.Cat), z3.Const('r', w.Cat)
        s = z3.Const('s', z3.StringSort())
        side = self.hyps(w, *ps) if self.hyps else []
        yield 'lemma-base', self.stmt(w, w.atom(b, f), *ps), side, dict(b=b, f=f, **{p.decl().name(): p for p in ps})
        yield 'lemma-step', self.stmt(w, w.functor(l, s, r), *ps), side + [self.stmt(w, l, *ps), self.stmt(w, r, *ps)], \
            dict(l=l, r=r, s=s, **{p.decl().name(): p for p in ps})


def verify_lemma(w, lem, prop):
    recs = []
    for kind, goal, hyps, inputs in lem.obligations(w):
        verdict, backend, ms, model = solve(goal, hyps)
        recs.append(dict(name=f'{prop}/lemma::{lem.name}/{kind}', kind=kind, verdict=verdict, backend=backend, ms=ms,
                         inputs=model_inputs(w, model, inputs), detail=None))
    return recs


# ---------------------------------------------------------------------------- parallel driver
def _worker(job):
    modname, kind, key = job
    t0 = time.time()
    try:
        mod = __import__(modname, fromlist=['x'])
        out = mod.run_job(kind, key)
        out['wall'] = time.time() - t0
        return out
    except CheckerError as e:
        return dict(job=key, error=f'CHECKER-ERROR {e}', records=[])
    except Exception:
        return dict(job=key, error='CHECKER-ERROR internal: ' + traceback.format_exc(), records=[])


def run_jobs(modname, jobs, procs=None):
    procs = procs or min(16, max(1, len(jobs)))
    if os.environ.get('VERIF_SERIAL'):
        return [_worker((modname, k, key)) for k, key in jobs]
    ctx = mp.get_context('fork')
    with ctx.Pool(procs) as pool:
        return pool.map(_worker, [(modname, k, key) for k, key in jobs], chunksize=1)


# ---------------------------------------------------------------------------- known findings
def load_known():
    p = os.path.join(VERIF, 'known_findings.json')
    if not os.path.exists(p):
        return []
    return json.load(open(p)).get('findings', [])


def match_known(prop, rec, known):
    for k in known:
        if k.get('property') != prop or k.get('kind') != 'known':
            continue
        m = k.get('match', {})
        if 'obligation_prefix' in m and not rec['name'].startswith(m['obligation_prefix']):
            continue
        if 'witness' in m:
            wit = rec.get('witness')
            if wit is None or any(wit.get(a) != b for a, b in m['witness'].items()):
                continue
        return k
    return None


# ---------------------------------------------------------------------------- reporting
def finish(prop, tier, seed, t0, records, errors, coverage_extra, assumptions, level='proof', bounded=None):
    """prints the verdict lines, writes evidence, returns the exit code"""
    evdir = os.environ.get('VERIF_EVIDENCE_DIR') or os.path.join(VERIF, 'evidence')
    os.makedirs(evdir, exist_ok=True)
    os.makedirs(os.path.join(VERIF, 'replays'), exist_ok=True)
    known = load_known()
    failed = [r for r in records if r['verdict'] == 'failed']
    unknown = [r for r in records if r['verdict'] == 'unknown']
    violations = 0
    known_hits = 0
    lines = []
    for r in failed:
        k = match_known(prop, r, known)
        if k is not None:
            known_hits += 1
            lines.append(f"KNOWN-FINDING: property={prop} {k['what']}")
            continue
        violations += 1
        path = os.path.join(VERIF, 'replays', f"{prop}-{violations}.json")
        with open(path, 'w') as fh:
            json.dump(dict(property=prop, obligation=r['name'], kind=r['kind'], backend=r['backend'], solver_verdict='sat (negated VC satisfiable)' if r.get('backend') != 'bounded' else 'bounded case failed',
                           model=r.get('inputs'), witness=r.get('witness'), replay=r.get('replay'), detail=r.get('detail'),
                           rerun=f'./check {prop} --replay {path}'), fh, indent=1, default=str)
        reproduced = bool(r.get('replay') and r['replay'].get('reproduced'))
        lines.append(f"VIOLATION property={prop} replay={path}" + ('' if reproduced else ' no-failing-input-found'))
    shown = sorted(set(lines), key=lambda l: (l.endswith('no-failing-input-found'), lines.index(l)))
    for ln in shown[:8]:
        print(ln)
    if len(shown) > 8:
        print(f'... {len(shown) - 8} more failing obligations/cases of property {prop} are listed in the evidence file')
    obligations = [r for r in records if r.get('backend') != 'bounded']
    n_ob = len(obligations)
    n_dis = len([r for r in obligations if r['verdict'] == 'discharged'])
    by_backend = {}
    for r in obligations:
        by_backend[r['backend']] = by_backend.get(r['backend'], 0) + 1
    cov = dict(obligations=n_ob, discharged=n_dis,
               checker_cmd=f'cd /verif && ./check {prop} --tier {tier}',
               trusted_base=sorted(set(assumptions)),
               by_backend=by_backend,
               solver_ms=sum(r['ms'] for r in obligations),
               slowest_ms=max([r['ms'] for r in obligations] or [0]),
               undecided=[r['name'] for r in unknown],
               failed=[r['name'] for r in failed],
               known_findings_reproduced=known_hits,
               samples=[dict(obligation=r['name'], verdict=r['verdict'], backend=r['backend'], ms=r['ms']) for r in obligations[:6]])
    if bounded:
        cov['bounded'] = bounded
        cov['evaluations'] = bounded.get('evaluations', 0)
        cov['distinct_nontrivial'] = bounded.get('distinct_nontrivial', 0)
        cov['rule'] = bounded.get('rule', '')
        if bounded.get('samples'):
            cov['samples'] = cov['samples'] + bounded['samples'][:4]
    cov.update(coverage_extra or {})
    ev = dict(property_id=prop, tier=tier, seed=seed, level=level, coverage=cov, assumptions=sorted(set(assumptions)),
              wall_s=round(time.time() - t0, 2), violations=violations)
    with open(os.path.join(evdir, f'{prop}.json'), 'w') as fh:
        json.dump(ev, fh, indent=1, default=str)
    if errors:
        for e in errors:
            print(e.splitlines()[0] if not os.environ.get('VERIF_DEBUG') else e)
        if not violations:
            return 3
    if violations:
        return 1
    if unknown:
        for r in unknown:
            print(f"UNDECIDED property={prop} obligation={r['name']}")
        return 2
    if n_ob == 0 and not bounded:
        print('CHECKER-ERROR zero obligations generated')
        return 3
    print(f'OK property={prop} obligations={n_ob} discharged={n_dis}' + (f" bounded_cases={bounded.get('evaluations')}" if bounded else '') +
          (f' known_findings={known_hits}' if known_hits else ''))
    return 0


# ---------------------------------------------------------------------------- python replay on the real code
def run_real(script, timeout=120, python='/venv/bin/python', env_extra=None):
    """runs a python script against /repo's working tree; returns (rc, stdout, stderr)"""
    env = dict(os.environ)
    env['PYTHONPATH'] = REPO + os.pathsep + VERIF
    env.pop('PYTHONHASHSEED', None)
    if env_extra:
        env.update(env_extra)
    with tempfile.NamedTemporaryFile('w', suffix='.py', delete=False, dir=tempfile.gettempdir()) as fh:
        fh.write(script)
        path = fh.name
    try:
        p = subprocess.run([python, path], capture_output=True, text=True, timeout=timeout, env=env, cwd=tempfile.gettempdir())
        return p.returncode, p.stdout, p.stderr
    except subprocess.TimeoutExpired:
        return 124, '', 'timeout'
    finally:
        os.unlink(path)
