"""Obligations, solver back ends, verdict protocol, evidence, known findings, replay files."""
import json
import os
import subprocess
import sys
import tempfile
import time
import traceback
import multiprocessing as mp
import z3

from .sorts import World, CheckerError, REPO
from .pyvc import Interp, Z, PyRaise, explore, Foreign, VarArgs

VERIF = os.path.dirname(os.path.dirname(os.path.abspath(__file__)))
Z3_MS = int(os.environ.get('VERIF_Z3_MS', '10000'))
CVC5_S = int(os.environ.get('VERIF_CVC5_S', '30'))


# ---------------------------------------------------------------------------- contracts
class Case:
    def __init__(self, name, build):
        self.name, self.build = name, build     # build(I) -> (args, kwargs, assumes, inputs{name: z3 const})


class Contract:
    """sidecar contract of one real function.  Subclasses define:
       rel, qualname, virtual (optional), cases(I), post(I, case, args, result) -> z3 Bool,
       raises(I, case, args, exc) -> z3 Bool | None, apply(I, args, kwargs, node) -> value,
       twin: python source of a function `check(args, outcome)` for replay (see vc/twin.py)"""
    rel = None
    qualname = None
    virtual = None
    assumptions = ()
    lemmas_used = ()

    @property
    def name(self):
        return f'{self.rel}::{self.qualname}'

    def cases(self, I):
        return []

    def post(self, I, case, args, result):
        raise NotImplementedError

    def raises(self, I, case, args, exc):
        return None

    def apply(self, I, args, kwargs, node):
        raise CheckerError(f'contract {self.name} cannot be used at call sites')

    def closure_env(self, I, f):
        return None


# ---------------------------------------------------------------------------- solving
PREFER = []      # optional soft constraints for counter-models (set by a property before solving): nicer witnesses replay better


def _solve_child(goal, pc, extra, timeout_ms, inputs, wfd):
    """runs in a forked child: z3 with the real definitions; writes a JSON verdict to the pipe"""
    try:
        s = z3.Solver()
        s.set('timeout', timeout_ms)
        for c in pc:
            s.add(c)
        for c in extra:
            s.add(c)
        s.add(z3.Not(goal))
        r = s.check()
        out = dict(r=str(r))
        if r == z3.sat and inputs:
            from .sorts import get_world
            w = get_world()
            m = s.model()
            for pref in PREFER:
                try:
                    cs = pref(inputs)
                    s.push()
                    s.set('timeout', 3000)
                    for c in cs:
                        s.add(c)
                    if s.check() == z3.sat:
                        m = s.model()
                        s.pop()
                        break
                    s.pop()
                except Exception:
                    pass
            mi = {}
            for k, c in inputs.items():
                try:
                    mi[k] = w.to_py(m.eval(c, model_completion=True))
                except Exception as ex:
                    mi[k] = f'<{ex}>'
            out['model'] = mi
        os.write(wfd, json.dumps(out).encode())
    except BaseException as ex:   # noqa
        try:
            os.write(wfd, json.dumps(dict(r='error', err=str(ex))).encode())
        except Exception:
            pass
    finally:
        os._exit(0)


def solve_many(items, inputs=None, timeout_ms=None):
    """items: [(goal, pc)] -> [(verdict, backend, ms, model)]; the trivially true goals are answered by the simplifier,
    the others go to one forked child together (one fork per path instead of one per obligation); any that the
    batch leaves open is retried on its own with the full fallback chain."""
    import select
    import signal
    timeout_ms = timeout_ms or Z3_MS
    out = [None] * len(items)
    todo = []
    for i, (goal, pc) in enumerate(items):
        if isinstance(goal, bool):
            goal = z3.BoolVal(goal)
        if z3.is_true(z3.simplify(goal)):
            out[i] = ('discharged', 'z3-simplify', 0, None)
        else:
            todo.append((i, goal, pc))
    if len(todo) > 1:
        t0 = time.time()
        rfd, wfd = os.pipe()
        pid = os.fork()
        if pid == 0:
            os.close(rfd)
            try:
                for i, goal, pc in todo:
                    t1 = time.time()
                    s = z3.Solver()
                    s.set('timeout', timeout_ms)
                    for c in pc:
                        s.add(c)
                    s.add(z3.Not(goal))
                    r = s.check()
                    os.write(wfd, (json.dumps(dict(i=i, r=str(r), ms=int((time.time() - t1) * 1000))) + '\n').encode())
                    if r != z3.unsat:
                        break
            finally:
                os._exit(0)
        os.close(wfd)
        data = b''
        deadline = t0 + len(todo) * timeout_ms / 1000.0 + 2.0
        while True:
            left = deadline - time.time()
            if left <= 0:
                break
            rl, _, _ = select.select([rfd], [], [], left)
            if not rl:
                break
            chunk = os.read(rfd, 1 << 16)
            if not chunk:
                break
            data += chunk
        os.close(rfd)
        try:
            os.kill(pid, signal.SIGKILL)
        except ProcessLookupError:
            pass
        try:
            os.waitpid(pid, 0)
        except ChildProcessError:
            pass
        for line in data.decode().splitlines():
            try:
                d = json.loads(line)
            except Exception:
                continue
            if d['r'] == 'unsat':
                out[d['i']] = ('discharged', 'z3-' + z3.get_version_string(), d['ms'], None)
    for i, goal, pc in todo:
        if out[i] is None:
            out[i] = solve(goal, pc, inputs=inputs, timeout_ms=timeout_ms)
    return out


def solve(goal, pc, extra=(), timeout_ms=None, inputs=None, fallback=True):
    """returns (verdict, backend, ms, model as python values) ; verdict in discharged / failed / unknown.
    z3 runs in a forked child that is killed at a hard wall-clock limit (its own timeout is not always honoured
    while it unfolds recursive definitions); unknown goes to cvc5 and the older z3 binary."""
    import select
    import signal
    t0 = time.time()
    timeout_ms = timeout_ms or Z3_MS
    if isinstance(goal, bool):
        goal = z3.BoolVal(goal)
    g = z3.simplify(goal)
    if z3.is_true(g):
        return 'discharged', 'z3-simplify', 0, None
    rfd, wfd = os.pipe()
    pid = os.fork()
    if pid == 0:
        os.close(rfd)
        _solve_child(goal, pc, extra, timeout_ms, inputs, wfd)
    os.close(wfd)
    data = b''
    deadline = t0 + timeout_ms / 1000.0 + 2.0
    while True:
        left = deadline - time.time()
        if left <= 0:
            break
        rl, _, _ = select.select([rfd], [], [], left)
        if not rl:
            break
        chunk = os.read(rfd, 1 << 16)
        if not chunk:
            break
        data += chunk
    os.close(rfd)
    try:
        os.kill(pid, signal.SIGKILL)
    except ProcessLookupError:
        pass
    try:
        os.waitpid(pid, 0)
    except ChildProcessError:
        pass
    ms = int((time.time() - t0) * 1000)
    res = {}
    if data:
        try:
            res = json.loads(data.decode())
        except Exception:
            res = {}
    r = res.get('r')
    zname = 'z3-' + z3.get_version_string()
    if r == 'unsat':
        return 'discharged', zname, ms, None
    if r == 'sat':
        return 'failed', zname, ms, res.get('model')
    if not fallback:
        return 'unknown', zname, ms, None
    # fall back: cvc5, then the older z3 binary
    s = z3.Solver()
    for c in pc:
        s.add(c)
    for c in extra:
        s.add(c)
    s.add(z3.Not(goal))
    try:
        smt2 = s.to_smt2()
    except Exception:
        return 'unknown', zname, ms, None
    for backend, cmd in (('cvc5-1.0.3', ['/usr/bin/cvc5', '--strings-exp', f'--tlimit={CVC5_S * 1000}', '--lang=smt2']),
                         ('z3-4.8.12', ['/usr/bin/z3', f'-T:{CVC5_S}', '-smt2', '-in'])):
        try:
            p = subprocess.run(cmd, input=smt2, capture_output=True, text=True, timeout=CVC5_S + 10)
            out = p.stdout.strip().splitlines()
            first = out[0].strip() if out else ''
        except Exception:
            first = ''
        ms = int((time.time() - t0) * 1000)
        if first == 'unsat':
            return 'discharged', backend, ms, None
        if first == 'sat':
            return 'failed', backend, ms, None
    return 'unknown', 'z3+cvc5', ms, None


def model_inputs(w, model, inputs):
    out = {}
    if model is None or isinstance(model, dict):
        return model
    for k, c in inputs.items():
        try:
            out[k] = w.to_py(model.eval(c, model_completion=True))
        except Exception as ex:
            out[k] = f'<{ex}>'
    return out


# ---------------------------------------------------------------------------- verifying one function
def verify_contract(I: Interp, c: Contract, prop, only_case=None, prefix=None, list_prefixes=None):
    """symbolically executes the real body once per case and path; returns obligation records.
    The postcondition of a path is formed at the end of that path (the objects built for it are still live).
    only_case/prefix restrict the run to one case and to the paths under one decision prefix (work distribution);
    list_prefixes=d returns [(case, prefix)] partitioning the paths instead of verifying."""
    from .pyvc import PathDone, enumerate_prefixes
    f = I.find_function(c.rel, c.qualname)
    if f.env is None:
        env = c.closure_env(I, f)
        if env is None:
            raise CheckerError(f'nested function {c.name} needs closure_env in its contract')
        f.env = env
    records = []
    npaths = 0
    parts = []
    for case in c.cases(I):
        if only_case is not None and case.name != only_case:
            continue
        holder = {}

        def run(ctx, case=case):
            I.target, I.target_contract = f, c
            try:
                args, kwargs, assumes, inputs = case.build(I)
                holder['inputs'] = inputs
                I.target_self = args[0].e if args and isinstance(args[0], Z) else None
                for a in assumes:
                    ctx.assume(a)
                try:
                    v = I.inline(f, list(args), dict(kwargs), f.node)
                    goal = c.post(I, case, args, v)
                    if isinstance(goal, list):
                        # a postcondition given clause by clause: one obligation per clause (a refuted clause names what broke; the conjunction alone may only time out)
                        for label, g in goal:
                            I.oblige(f'post[{label}]', g, None, extra=label)
                        goal = z3.BoolVal(True)
                    return 'return', dict(goal=goal, kind='post', line=0, detail=None)
                except PyRaise as e:
                    allowed = c.raises(I, case, args, e)
                    goal = allowed if allowed is not None else z3.BoolVal(False)
                    return 'raise', dict(goal=goal, kind='noraise' if allowed is None else 'raises', line=getattr(e.node, 'lineno', 0), detail=str(e))
                except PathDone:
                    return 'done', None
                except CheckerError as e:
                    from .pyvc import JobAbort
                    if isinstance(e, JobAbort):
                        raise
                    return 'unsupported', str(e)
            finally:
                I.target, I.target_contract = None, None

        if list_prefixes is not None:
            parts.extend((case.name, p) for p in enumerate_prefixes(I, run, list_prefixes))
            continue
        outcomes = explore(I, run, prefix=prefix)
        if not outcomes and prefix is None:
            records.append(dict(name=f'{prop}/{c.name}/vacuity[{case.name}]', kind='vacuity', verdict='failed', backend='pyvc', ms=0,
                                detail='no feasible path: requires clause unsatisfiable', inputs=None, case=case.name))
            continue
        if prefix is None:
            records.append(dict(name=f'{prop}/{c.name}/vacuity[{case.name}]', kind='vacuity', verdict='discharged', backend='pyvc', ms=0,
                                detail=f'{len(outcomes)} paths', case=case.name))
        ptag = '' if prefix is None else 'p' + ''.join(str(d) for d in prefix) + '.'
        for pi, o in enumerate(outcomes):
            npaths += 1
            I.ctx = None
            tag = f'[{case.name}]#{ptag}{pi}'
            if o['kind'] == 'unsupported':
                dead, _, _, _ = solve(z3.BoolVal(False), o['pc'], fallback=True)
                if dead != 'discharged':
                    records.append(dict(name=f'{prop}/{c.name}/path{tag}', kind='post', verdict='unknown', backend='pyvc', ms=0, inputs=None,
                                        case=case.name, detail='path not analysable: ' + o['value']))
                continue
            items = [(ob['goal'], ob['pc']) for ob in o['obligations']]
            val = o['value'] if o['kind'] != 'done' else None
            if val is not None:
                items.append((val['goal'], o['pc']))
            res = solve_many(items, inputs=holder['inputs'])
            for ob, (verdict, backend, ms, model) in zip(o['obligations'], res):
                records.append(dict(name=f'{prop}/{c.name}/{ob["kind"]}@{ob["line"]}{tag}', kind=ob['kind'], verdict=verdict,
                                    backend=backend, ms=ms, inputs=model, case=case.name, detail=ob.get('extra')))
            if val is not None:
                verdict, backend, ms, model = res[-1]
                records.append(dict(name=f'{prop}/{c.name}/{val["kind"]}@{val["line"]}{tag}', kind=val['kind'], verdict=verdict, backend=backend, ms=ms,
                                    inputs=model, case=case.name, detail=val['detail']))
    if list_prefixes is not None:
        return parts
    return records, npaths


# ---------------------------------------------------------------------------- lemmas by structural induction
class Lemma:
    """P(c, params) for all categories c, by structural induction.  stmt(w, c, *params) -> z3 Bool.
    ih(w, l, r, *params) -> (instances for l, instances for r): parameter tuples at which the hypothesis is used
    (default: the same parameters).  uses: [(lemma, fn(w, c, *params) -> [argument tuples])] instances of earlier lemmas."""
    def __init__(self, name, stmt, params=(), hyps=None, ih=None, uses=None, def_hyps=None):
        self.name, self.stmt, self.params, self.hyps, self.ih, self.uses = name, stmt, params, hyps, ih, uses or []
        self.def_hyps = def_hyps      # unfoldings of opaque predicates at the atom of the base case

    def obligations(self, w, table=None):
        ps = [z3.Const(n, s) for n, s in self.params]
        b = z3.Const('b', z3.StringSort())
        f = z3.Const('f', w.Feat)
        l, r = z3.Const('l', w.Cat), z3.Const('r', w.Cat)
        s = z3.Const('s', z3.StringSort())
        side = self.hyps(w, *ps) if self.hyps else []

        def used(c):
            out = []
            for lname, fn in self.uses:
                for args in fn(w, c, *ps):
                    out.append(table[lname].stmt(w, *args))
            return out
        inputs = {p.decl().name(): p for p in ps}
        atom = w.atom(b, f)
        dh = self.def_hyps(w, atom, *ps) if self.def_hyps else []
        yield 'lemma-base', self.stmt(w, atom, *ps), side + used(atom) + dh, dict(b=b, f=f, **inputs)
        fun = w.functor(l, s, r)
        if self.ih:
            il, ir = self.ih(w, l, r, *ps)
        else:
            il, ir = [tuple(ps)], [tuple(ps)]
        ihs = [self.stmt(w, l, *a) for a in il] + [self.stmt(w, r, *a) for a in ir]
        yield 'lemma-step', self.stmt(w, fun, *ps), side + ihs + used(fun) + used(l) + used(r), dict(l=l, r=r, s=s, **inputs)


def verify_lemma(w, lem, prop, table=None):
    recs = []
    for kind, goal, hyps, inputs in lem.obligations(w, table):
        verdict, backend, ms, model = solve(goal, hyps, inputs=inputs)
        recs.append(dict(name=f'{prop}/lemma::{lem.name}/{kind}', kind=kind, verdict=verdict, backend=backend, ms=ms,
                         inputs=model_inputs(w, model, inputs), detail=None))
    return recs


# ---------------------------------------------------------------------------- parallel driver
JOB_TIMEOUT_S = int(os.environ.get('VERIF_JOB_TIMEOUT_S', '300'))


class JobTimeout(BaseException):
    pass


def _alarm(signum, frame):
    raise JobTimeout()


def _worker(job):
    import signal
    modname, kind, key = job
    t0 = time.time()
    try:
        signal.signal(signal.SIGALRM, _alarm)
        signal.alarm(JOB_TIMEOUT_S)
    except Exception:
        pass
    try:
        return _worker_body(modname, kind, key, t0)
    except JobTimeout:
        return dict(job=key, error=f'CHECKER-ERROR job exceeded {JOB_TIMEOUT_S} s (symbolic execution did not terminate: treated as not analysable, never as a violation)', records=[])
    finally:
        try:
            signal.alarm(0)
        except Exception:
            pass


def _worker_body(modname, kind, key, t0):
    try:
        mod = __import__(modname, fromlist=['x'])
        out = mod.run_job(kind, key)
        out['wall'] = time.time() - t0
        return out
    except CheckerError as e:
        return dict(job=key, error=f'CHECKER-ERROR {e}', records=[])
    except Exception:
        return dict(job=key, error='CHECKER-ERROR internal: ' + traceback.format_exc(), records=[])


def run_jobs(modname, jobs, procs=None):
    procs = procs or min(16, max(1, len(jobs)))
    if os.environ.get('VERIF_SERIAL'):
        return [_worker((modname, k, key)) for k, key in jobs]
    ctx = mp.get_context('fork')
    with ctx.Pool(procs) as pool:
        return pool.map(_worker, [(modname, k, key) for k, key in jobs], chunksize=1)


# ---------------------------------------------------------------------------- known findings
def load_known():
    p = os.path.join(VERIF, 'known_findings.json')
    if not os.path.exists(p):
        return []
    return json.load(open(p)).get('findings', [])


def match_known(prop, rec, known):
    for k in known:
        if k.get('property') != prop or k.get('kind') != 'known':
            continue
        m = k.get('match', {})
        if 'obligation_prefix' in m and not rec['name'].startswith(m['obligation_prefix']):
            continue
        if 'witness' in m:
            wit = rec.get('witness')
            if wit is None or any(wit.get(a) != b for a, b in m['witness'].items()):
                continue
        return k
    return None


# ---------------------------------------------------------------------------- reporting
def finish(prop, tier, seed, t0, records, errors, coverage_extra, assumptions, level='proof', bounded=None):
    """prints the verdict lines, writes evidence, returns the exit code"""
    evdir = os.environ.get('VERIF_EVIDENCE_DIR') or os.path.join(VERIF, 'evidence')
    os.makedirs(evdir, exist_ok=True)
    os.makedirs(os.path.join(VERIF, 'replays'), exist_ok=True)
    known = load_known()
    failed = [r for r in records if r['verdict'] == 'failed']
    unknown = [r for r in records if r['verdict'] == 'unknown']
    violations = 0
    known_hits = 0
    lines = []
    for r in failed:
        k = match_known(prop, r, known)
        if k is not None:
            known_hits += 1
            lines.append(f"KNOWN-FINDING: property={prop} {k['what']}")
            continue
        violations += 1
        path = os.path.join(VERIF, 'replays', f"{prop}-{violations}.json")
        with open(path, 'w') as fh:
            json.dump(dict(property=prop, obligation=r['name'], kind=r['kind'], backend=r['backend'], solver_verdict='sat (negated VC satisfiable)' if r.get('backend') != 'bounded' else 'bounded case failed',
                           model=r.get('inputs'), witness=r.get('witness'), replay=r.get('replay'), detail=r.get('detail'),
                           rerun=f'./check {prop} --replay {path}'), fh, indent=1, default=str)
        reproduced = bool(r.get('replay') and r['replay'].get('reproduced'))
        lines.append(f"VIOLATION property={prop} replay={path}" + ('' if reproduced else ' no-failing-input-found'))
    shown = sorted(set(lines), key=lambda l: (l.endswith('no-failing-input-found'), lines.index(l)))
    for ln in shown[:8]:
        print(ln)
    if len(shown) > 8:
        print(f'... {len(shown) - 8} more failing obligations/cases of property {prop} are listed in the evidence file')
    known_names = set()
    for r in failed:
        if match_known(prop, r, known) is not None:
            known_names.add(r['name'])
    # obligations that fail exactly as a listed known finding are reported apart, not counted as proved or as open
    obligations = [r for r in records if r.get('backend') != 'bounded' and r['name'] not in known_names]
    n_ob = len(obligations)
    n_dis = len([r for r in obligations if r['verdict'] == 'discharged'])
    by_backend = {}
    for r in obligations:
        by_backend[r['backend']] = by_backend.get(r['backend'], 0) + 1
    cov = dict(obligations=n_ob, discharged=n_dis,
               checker_cmd=f'cd /verif && ./check {prop} --tier {tier}',
               trusted_base=sorted(set(assumptions)),
               by_backend=by_backend,
               solver_ms=sum(r['ms'] for r in obligations),
               slowest_ms=max([r['ms'] for r in obligations] or [0]),
               undecided=[r['name'] for r in unknown],
               failed=[r['name'] for r in failed],
               known_findings_reproduced=known_hits, known_finding_obligations=sorted(known_names),
               samples=[dict(obligation=r['name'], verdict=r['verdict'], backend=r['backend'], ms=r['ms']) for r in obligations[:6]])
    if bounded:
        cov['bounded'] = bounded
        cov['evaluations'] = bounded.get('evaluations', 0)
        cov['distinct_nontrivial'] = bounded.get('distinct_nontrivial', 0)
        cov['rule'] = bounded.get('rule', '')
        if bounded.get('samples'):
            cov['samples'] = cov['samples'] + bounded['samples'][:4]
    cov.update(coverage_extra or {})
    ev = dict(property_id=prop, tier=tier, seed=seed, level=level, coverage=cov, assumptions=sorted(set(assumptions)),
              wall_s=round(time.time() - t0, 2), violations=violations)
    with open(os.path.join(evdir, f'{prop}.json'), 'w') as fh:
        json.dump(ev, fh, indent=1, default=str)
    if errors:
        for e in errors:
            print(e.splitlines()[0] if not os.environ.get('VERIF_DEBUG') else e)
        if not violations:
            return 3
    if violations:
        return 1
    if unknown:
        for r in unknown:
            print(f"UNDECIDED property={prop} obligation={r['name']}")
        return 2
    if n_ob == 0 and not bounded:
        print('CHECKER-ERROR zero obligations generated')
        return 3
    print(f'OK property={prop} obligations={n_ob} discharged={n_dis}' + (f" bounded_cases={bounded.get('evaluations')}" if bounded else '') +
          (f' known_findings={known_hits}' if known_hits else ''))
    return 0


# ---------------------------------------------------------------------------- python replay on the real code
def run_real(script, timeout=120, python='/venv/bin/python', env_extra=None):
    """runs a python script against /repo's working tree; returns (rc, stdout, stderr)"""
    env = dict(os.environ)
    env['PYTHONPATH'] = REPO + os.pathsep + VERIF
    env.pop('PYTHONHASHSEED', None)
    if env_extra:
        env.update(env_extra)
    with tempfile.NamedTemporaryFile('w', suffix='.py', delete=False, dir=tempfile.gettempdir()) as fh:
        fh.write(script)
        path = fh.name
    try:
        p = subprocess.run([python, path], capture_output=True, text=True, timeout=timeout, env=env, cwd=tempfile.gettempdir())
        return p.returncode, p.stdout, p.stderr
    except subprocess.TimeoutExpired:
        return 124, '', 'timeout'
    finally:
        os.unlink(path)
