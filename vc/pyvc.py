"""PyVC: verification-condition generation for a subset of Python by symbolic execution of
the *real* source text (ast) of /repo, one path at a time, against sidecar contracts.

Encoded semantics (what is assumed of Python): unbounded ints, immutable str as SMT strings,
frozen dataclasses of depccg/cat.py as algebraic datatypes (generated from the class bodies),
attribute/method lookup through the MRO read from the source, short-circuit and/or/not and
conditional expressions by path splitting, exceptions as path outcomes, calls to functions under
contract replaced by their contract (modular), calls to other repo functions inlined, calls to
library functions either evaluated by CPython (all arguments concrete) or by the SMT-LIB
counterpart listed in LIB below.  Anything else is an unsupported construct -> CheckerError.
"""
import ast
import builtins
import os
import importlib
import z3

from .sorts import World, CheckerError, parse_source, dataclass_info, REPO

EAGER_FEASIBILITY = bool(os.environ.get('VERIF_EAGER_FEAS'))
MAX_SELF_RECURSION = 8


class JobAbort(CheckerError):
    """the whole job is not analysable (not just the current path): propagates out of the path exploration"""
    pass


MAX_RECURSIVE_ACTIVATIONS = 200000
_BUDGET_LOG = {} if os.environ.get('VERIF_BUDGET_LOG') else None
if _BUDGET_LOG is not None:
    import atexit

    def _dump_budget():
        if _BUDGET_LOG:
            with open(os.environ['VERIF_BUDGET_LOG'], 'a') as fh:
                fh.write(repr(sorted(_BUDGET_LOG.items(), key=lambda kv: -kv[1])[:3]) + '\n')
    atexit.register(_dump_budget)
    import multiprocessing.util as _mpu
    _mpu.Finalize(None, _dump_budget, exitpriority=0)
MAX_INLINE_DEPTH = 40
MAX_PATHS = 40000


class Z:
    """symbolic value"""
    __slots__ = ('e',)

    def __init__(self, e):
        self.e = e

    def __repr__(self):
        return f'Z({self.e})'


class Foreign:
    """a value of a type unrelated to everything in the program (isinstance is always False)"""
    def __repr__(self):
        return 'Foreign()'


class VarArgs:
    """abstract *args: only membership (through == of the elements) and forwarding are supported"""
    def __init__(self, member):
        self.member = member     # z3 set of Feat


class ClassVal:
    def __init__(self, name, node, bases, module):
        self.name, self.node, self.bases, self.module = name, node, bases, module
        self.attrs = {}
        self.dc = None

    def mro(self):
        out = [self]
        for b in self.bases:
            if isinstance(b, ClassVal):
                for c in b.mro():
                    if c not in out:
                        out.append(c)
        return out

    def lookup(self, name):
        for c in self.mro():
            if name in c.attrs:
                return c.attrs[name], c
        return None, None

    def __repr__(self):
        return f'<class {self.name}>'


class FuncVal:
    def __init__(self, node, env, qualname, module, owner=None, kind='function'):
        self.node, self.env, self.qualname, self.module, self.owner, self.kind = node, env, qualname, module, owner, kind
        self.defaults = []
        self.kw_defaults = {}

    def __repr__(self):
        return f'<function {self.qualname}>'


class BoundMethod:
    def __init__(self, func, recv):
        self.func, self.recv = func, recv


class ContractMethod:
    """a virtual contract bound to a receiver"""
    def __init__(self, contract, recv):
        self.contract, self.recv = contract, recv


class Obj:
    def __init__(self, cls):
        self.cls = cls
        self.attrs = {}

    def __repr__(self):
        return f'<{self.cls.name} object>'


class NTObj(Obj):
    """instance of a typing.NamedTuple class: immutable record, iterable in field order"""
    def iterate(self, I, node):
        return [self.attrs[f] for f in self.cls.nt_fields]

    def getitem(self, I, k, node):
        if isinstance(k, int):
            try:
                return self.iterate(I, node)[k]
            except IndexError:
                raise PyRaise('IndexError', 'tuple index out of range', node)
        raise CheckerError('symbolic index into a named tuple')

    def py_eq(self, I, other, node):
        if isinstance(other, NTObj):
            return I.py_eq(tuple(self.iterate(I, node)), tuple(other.iterate(I, node)), node)
        if isinstance(other, tuple):
            return I.py_eq(tuple(self.iterate(I, node)), other, node)
        return False


class ModuleVal:
    def __init__(self, name, rel):
        self.name, self.rel = name, rel
        self.env = Env(None)


class Env:
    def __init__(self, parent):
        self.vars = {}
        self.parent = parent
        self.nonlocals = set()
        self.globals_ = set()

    def lookup(self, name):
        e = self
        while e is not None:
            if name in e.vars:
                return e.vars[name]
            e = e.parent
        raise KeyError(name)

    def find(self, name):
        e = self
        while e is not None:
            if name in e.vars:
                return e
            e = e.parent
        return None

    def set(self, name, v):
        if name in self.nonlocals:
            e = self.parent.find(name) if self.parent else None
            if e is None:
                raise CheckerError(f'nonlocal {name} not found')
            e.vars[name] = v
        elif name in self.globals_:
            e = self
            while e.parent is not None:
                e = e.parent
            e.vars[name] = v
        else:
            self.vars[name] = v


class PyRaise(Exception):
    def __init__(self, exc, msg='', node=None):
        self.exc, self.msg, self.node = exc, msg, node

    def __str__(self):
        return f'{self.exc}({self.msg!r}) at line {getattr(self.node, "lineno", "?")}'


class _Return(Exception):
    def __init__(self, v):
        self.v = v


class _Break(Exception):
    pass


class _Continue(Exception):
    pass


class Infeasible(Exception):
    pass


class _NeedFork(Exception):
    pass


class PathDone(Exception):
    """the path ends here by a proof rule (e.g. an arbitrary loop iteration whose obligations are recorded)"""
    pass


EXC_PARENTS = {'ValueError': 'Exception', 'RuntimeError': 'Exception', 'AssertionError': 'Exception', 'KeyError': 'LookupError',
               'IndexError': 'LookupError', 'LookupError': 'Exception', 'AttributeError': 'Exception', 'TypeError': 'Exception',
               'Exception': 'BaseException', 'StopIteration': 'Exception', 'ZeroDivisionError': 'ArithmeticError',
               'ArithmeticError': 'Exception', 'NotImplementedError': 'RuntimeError'}


def exc_matches(exc, handler):
    while exc is not None:
        if exc == handler:
            return True
        exc = EXC_PARENTS.get(exc)
    return False


class ExcClass:
    def __init__(self, name):
        self.name = name


class ExcInstance:
    def __init__(self, name, msg):
        self.name, self.msg = name, msg


class PathCtx:
    abstract = staticmethod(lambda e: e)      # set by explore(): opaque view of the recursive spec functions

    def __init__(self, decisions, timeout_ms=2000):
        self.decisions = list(decisions)
        self.pos = 0
        self.timeout_ms = timeout_ms
        self.pc = []
        self.lits = {}          # sexpr of an atom -> bool, for the cheap syntactic feasibility test
        self.eqs = {}           # id of a term -> id of the literal it is known to equal
        self.keep = []          # keeps the recorded terms alive (ids are only unique among live terms)
        self.partners = []      # pairs of terms known to have the same constructor
        self.pending = []
        self.nforks = 0
        self.stop_at = None
        self.obligations = []   # (kind, node, goal z3, pc snapshot, extra)
        self.notes = []
        self.fresh = 0

    def assume(self, c):
        if isinstance(c, bool):
            if not c:
                raise Infeasible()
            return
        self.pc.append(c)
        self._record(c, True)

    def _record(self, c, val, simp=True):
        if simp:
            c = z3.simplify(c)
        if z3.is_not(c):
            return self._record(c.arg(0), not val, False)
        if z3.is_and(c) and val:
            for a in c.children():
                self._record(a, True, False)
            return
        if z3.is_or(c) and not val:
            for a in c.children():
                self._record(a, False, False)
            return
        self.lits[c.get_id()] = val
        self.keep.append(c)
        if val and z3.is_eq(c):
            a, b = c.arg(0), c.arg(1)
            if z3.is_app(a) and z3.is_app(b) and a.decl().name() == 'strip' and b.decl().name() == 'strip':
                # strip(u) == strip(v) implies u and v have the same constructor (one unfolding of strip)
                self.partners.append((a.arg(0), b.arg(0)))
        if val and z3.is_eq(c):
            a, b = c.arg(0), c.arg(1)
            if z3.is_string_value(a) or z3.is_int_value(a):
                a, b = b, a
            if (z3.is_string_value(b) or z3.is_int_value(b)) and not (z3.is_string_value(a) or z3.is_int_value(a)):
                self.eqs[a.get_id()] = b.get_id()

    def known(self, c):
        """three-valued evaluation of c over the literals fixed by the path condition: True / False / None"""
        return self._ev(z3.simplify(c))

    def _ev(self, c):
        if z3.is_true(c):
            return True
        if z3.is_false(c):
            return False
        if z3.is_not(c):
            v = self._ev(c.arg(0))
            return None if v is None else not v
        if z3.is_and(c):
            vs = [self._ev(a) for a in c.children()]
            if any(v is False for v in vs):
                return False
            return True if all(v is True for v in vs) else None
        if z3.is_or(c):
            vs = [self._ev(a) for a in c.children()]
            if any(v is True for v in vs):
                return True
            return False if all(v is False for v in vs) else None
        v = self.lits.get(c.get_id())
        if v is None:
            v = self._sibling(c)
        if v is None and z3.is_eq(c):
            v = self._eq_known(c)
        return v

    def _eq_known(self, c):
        """t == literal when t is already known to equal another literal"""
        a, b = c.arg(0), c.arg(1)
        if z3.is_string_value(a) or z3.is_int_value(a):
            a, b = b, a
        if not (z3.is_string_value(b) or z3.is_int_value(b)):
            return None
        if z3.is_string_value(a) or z3.is_int_value(a):
            return a.eq(b)
        k = self.eqs.get(a.get_id())
        if k is not None:
            return k == b.get_id()
        return None

    def _sibling(self, c):
        """is(C, t) from what is known about the other constructors of t's datatype"""
        if not (z3.is_app(c) and c.num_args() == 1 and c.decl().kind() == z3.Z3_OP_DT_IS):
            return None
        t = c.arg(0)
        srt = t.sort()
        me = c.decl().params()[0].name() if c.decl().params() else None
        others = []
        for i in range(srt.num_constructors()):
            r = srt.recognizer(i)(t)
            if r.eq(c):
                continue
            others.append(self.lits.get(r.get_id()))
        if any(o is True for o in others):
            return False
        if others and all(o is False for o in others):
            return True
        for u, v in self.partners:
            other = v if u.eq(t) else (u if v.eq(t) else None)
            if other is not None:
                k = self.lits.get(c.decl()(other).get_id())
                if k is None:
                    for i in range(srt.num_constructors()):
                        r = srt.recognizer(i)(other)
                        if not r.decl().eq(c.decl()) and self.lits.get(r.get_id()) is True:
                            k = False
                if k is not None:
                    return k
        return None

    def is_recognizer(self, c):
        c = z3.simplify(c)
        while z3.is_not(c):
            c = c.arg(0)
        return z3.is_app(c) and c.num_args() == 1 and c.decl().kind() == z3.Z3_OP_DT_IS


def is_native(v):
    return v is None or isinstance(v, (bool, int, str, float, bytes))


class Interp:
    def __init__(self, world: World, contracts=None):
        self.w = world
        self.contracts = contracts or {}          # qualified name -> Contract
        self.virtual = {}                         # (base class, method) -> Contract
        for c in self.contracts.values():
            if getattr(c, 'virtual', None):
                self.virtual[c.virtual] = c
        self.modules = {}
        self.ctx = None
        self.target = None        # FuncVal being verified (body is executed, not its contract)
        self.target_contract = None
        self.depth = 0
        self.used_contracts = set()
        self.used_lib = set()
        self.inlined = set()

    # ------------------------------------------------------------------ modules
    def load_virtual(self, dotted, rel, text, predefined=None):
        """a module whose python text is produced mechanically from a file of another dialect (vc/depyx.py for .pyx): interpreted like a repository module;
        `predefined` binds the names the extraction leaves to the C level"""
        m = ModuleVal(dotted, rel)
        m.env.vars['__name__'] = dotted
        m.env.vars.update(predefined or {})
        self.modules[dotted] = m
        self.__dict__.setdefault('virtual_rels', {})[rel] = dotted
        try:
            tree = ast.parse(text, filename=rel)
        except SyntaxError as e:
            raise CheckerError(f'cannot parse the extracted text of {rel}: {e}')
        m.tree = tree
        saved = self.ctx
        self.ctx = PathCtx([])
        self.ctx.abstract = self.w.abstract
        try:
            self.exec_block(tree.body, m.env, m, qual='')
        finally:
            self.ctx = saved
        return m

    def load_module(self, dotted):
        if dotted in self.modules:
            return self.modules[dotted]
        if dotted == 'depccg' or dotted.startswith('depccg.'):
            rel = dotted.replace('.', '/')
            if os.path.isdir(os.path.join(REPO, rel)):
                rel = rel + '/__init__.py'
            else:
                rel = rel + '.py'
            if not os.path.exists(os.path.join(REPO, rel)):
                stub = ModuleVal(dotted, rel)          # compiled extension / generated module: no source to interpret
                stub.is_stub = True
                self.modules[dotted] = stub
                return stub
            m = ModuleVal(dotted, rel)
            m.env.vars['__name__'] = dotted
            self.modules[dotted] = m
            tree = parse_source(rel)
            m.tree = tree
            saved = self.ctx
            self.ctx = PathCtx([])        # module level code is concrete
            self.ctx.abstract = self.w.abstract
            try:
                self.exec_block(tree.body, m.env, m, qual='')
            finally:
                self.ctx = saved
            return m
        try:
            mod = importlib.import_module(dotted)
        except ImportError:
            raise CheckerError(f'cannot import library module {dotted}')
        self.modules[dotted] = mod
        return mod

    def find_function(self, rel, qualname):
        dotted = rel[:-3].replace('/', '.')
        if rel in getattr(self, 'virtual_rels', {}):
            dotted = self.virtual_rels[rel]
        if dotted.endswith('.__init__'):
            dotted = dotted[:-9]
        m = self.load_module(dotted)
        parts = qualname.split('.')
        try:
            v = m.env.lookup(parts[0])
        except KeyError:
            raise CheckerError(f'function under contract not found: {rel}::{qualname}')
        for p in parts[1:]:
            if isinstance(v, ClassVal):
                nv, _ = v.lookup(p)
                if nv is None:
                    raise CheckerError(f'function under contract not found: {rel}::{qualname}')
                v = nv
            elif isinstance(v, FuncVal):
                # nested function: find the def inside the body
                found = None
                for n in ast.walk(v.node):
                    if isinstance(n, ast.FunctionDef) and n.name == p and n is not v.node:
                        found = n
                        break
                if found is None:
                    raise CheckerError(f'function under contract not found: {rel}::{qualname}')
                v = FuncVal(found, None, '.'.join(parts[:parts.index(p) + 1]), m)
            else:
                raise CheckerError(f'function under contract not found: {rel}::{qualname}')
        if not isinstance(v, FuncVal):
            raise CheckerError(f'{rel}::{qualname} is not a function')
        return v

    # ------------------------------------------------------------------ paths
    def branch(self, cond, node=None):
        """decide a symbolic condition on this path (forking)"""
        if isinstance(cond, bool):
            return cond
        cond = z3.simplify(cond)
        if z3.is_true(cond):
            return True
        if z3.is_false(cond):
            return False
        if getattr(self, 'nofork', 0):
            raise _NeedFork()
        ctx = self.ctx
        # decisions are ints: bit 0 = the branch taken, bit 1 = it was a genuine two-way fork
        if ctx.pos < len(ctx.decisions):
            v = ctx.decisions[ctx.pos]
            d = bool(v & 1)
            if v & 2:
                ctx.nforks += 1
        else:
            can_t = self._feasible(cond)
            can_f = self._feasible(z3.Not(cond))
            if can_t and can_f:
                ctx.nforks += 1
                if ctx.stop_at is not None and ctx.nforks > ctx.stop_at:
                    raise _PrefixStop()
                d = True
                ctx.pending.append(ctx.decisions[:ctx.pos] + [2])
                ctx.decisions.append(3)
            elif can_t:
                d = True
                ctx.decisions.append(1)
            elif can_f:
                d = False
                ctx.decisions.append(0)
            else:
                raise Infeasible()
        ctx.pos += 1
        ctx.assume(cond if d else z3.Not(cond))
        return d

    def _feasible(self, c):
        k = self.ctx.known(c)
        if k is not None:
            return k
        if self.ctx.is_recognizer(c) or not EAGER_FEASIBILITY:
            # not decided syntactically: keep the path (over-approximation, sound: an infeasible path only yields
            # obligations of the form `false ==> ...`); the solver prunes only in eager mode
            return True
        from .engine import solve
        ab = self.ctx.abstract
        verdict, _, _, _ = solve(z3.Not(ab(c)), [ab(x) for x in self.ctx.pc], timeout_ms=self.ctx.timeout_ms, fallback=False)
        return verdict != 'discharged'

    def oblige(self, kind, goal, node=None, extra=None, pc=None):
        if isinstance(goal, bool):
            goal = z3.BoolVal(goal)
        self.ctx.obligations.append(dict(kind=kind, line=getattr(node, 'lineno', 0), goal=goal,
                                         pc=list(self.ctx.pc) if pc is None else list(pc), extra=extra))

    def fresh(self, name, sort):
        self.ctx.fresh += 1
        return z3.Const(f'{name}!{self.ctx.fresh}', sort)

    # ------------------------------------------------------------------ value helpers
    def wrap(self, e):
        e = z3.simplify(e)
        if z3.is_string_value(e):
            return _zstr(e)
        if z3.is_int_value(e):
            return e.as_long()
        if z3.is_true(e):
            return True
        if z3.is_false(e):
            return False
        return Z(e)

    def opt(self, val):
        """Optional[str] value: None / str when the term is decided, else kept as a term of sort OptStr
        (compared and tested without splitting the path; split only where a str is needed)"""
        val = z3.simplify(val)
        O = self.w.OptStr
        if self.ctx is not None:
            k = self.ctx.known(O.is_NoneS(val))
            if k is True:
                return None
            if k is False:
                return self.wrap(O.s(val))
        if z3.is_app(val) and val.decl().eq(O.NoneS.decl()):
            return None
        if z3.is_app(val) and val.decl().eq(O.SomeS):
            return self.wrap(val.arg(0))
        return Z(val)

    def as_str(self, v, node):
        """a value used where a str is required: an Optional[str] term is split here"""
        if isinstance(v, Z) and self.sort_name(v) == 'OptStr':
            if self.branch(self.w.OptStr.is_NoneS(v.e), node):
                return None
            return self.wrap(self.w.OptStr.s(v.e))
        return v

    def ex(self, v):
        """z3 expression of a scalar value"""
        if isinstance(v, Z):
            return v.e
        if isinstance(v, bool):
            return z3.BoolVal(v)
        if isinstance(v, int):
            return z3.IntVal(v)
        if isinstance(v, str):
            return z3.StringVal(v)
        raise CheckerError(f'no SMT term for value {v!r}')

    def sort_name(self, v):
        if isinstance(v, Z):
            s = v.e.sort()
            if s == self.w.Cat:
                return 'Cat'
            if s == self.w.Feat:
                return 'Feat'
            if s == self.w.OptStr:
                return 'OptStr'
            if s == z3.StringSort():
                return 'String'
            if s == z3.BoolSort():
                return 'Bool'
            if s == z3.IntSort():
                return 'Int'
            return str(s)
        return type(v).__name__

    def truth(self, v, node=None):
        if isinstance(v, bool):
            return v
        if v is None:
            return False
        if isinstance(v, (int, str, list, tuple, dict, set, frozenset)):
            return bool(v)
        if isinstance(v, Z):
            sn = self.sort_name(v)
            if sn == 'Bool':
                return self.branch(v.e, node)
            if sn == 'String':
                return self.branch(z3.Length(v.e) > 0, node)
            if sn == 'Int':
                return self.branch(v.e != 0, node)
            if sn == 'OptStr':
                if self.branch(self.w.OptStr.is_NoneS(v.e), node):
                    return False
                return self.branch(z3.Length(self.w.OptStr.s(v.e)) > 0, node)
            if sn in ('Cat', 'Feat'):
                return True
        if isinstance(v, (Obj, FuncVal, ClassVal, BoundMethod, Foreign)):
            return True
        if hasattr(v, 'truth'):
            return v.truth(self, node)
        raise CheckerError(f'truth value of {v!r} unsupported')

    # ------------------------------------------------------------------ statements
    def exec_block(self, stmts, env, module, qual):
        for st in stmts:
            self.exec_stmt(st, env, module, qual)

    def exec_stmt(self, st, env, module, qual):
        m = getattr(self, 'st_' + type(st).__name__, None)
        if m is None:
            raise CheckerError(f'unsupported statement {type(st).__name__} at {module.rel}:{st.lineno}')
        return m(st, env, module, qual)

    def st_Expr(self, st, env, module, qual):
        if isinstance(st.value, ast.Constant):
            return
        if isinstance(st.value, ast.Yield):
            v = self.eval(st.value.value, env, module) if st.value.value is not None else None
            if not hasattr(self, 'yields'):
                raise CheckerError('yield outside a generator under contract')
            self.yields.append(v)
            return
        self.eval(st.value, env, module)

    def st_Pass(self, st, env, module, qual):
        pass

    def st_Import(self, st, env, module, qual):
        for a in st.names:
            mod = self.load_module(a.name)
            if a.asname:
                env.set(a.asname, mod)
            else:
                top = a.name.split('.')[0]
                env.set(top, self.load_module(top))

    def st_ImportFrom(self, st, env, module, qual):
        mod = self.load_module(st.module)
        for a in st.names:
            if isinstance(mod, ModuleVal):
                try:
                    v = mod.env.lookup(a.name)
                except KeyError:
                    try:
                        v = self.load_module(st.module + '.' + a.name)
                    except CheckerError:
                        raise CheckerError(f'cannot import {a.name} from {st.module}')
            else:
                v = getattr(mod, a.name)
            env.set(a.asname or a.name, v)

    def st_FunctionDef(self, st, env, module, qual, owner=None):
        kind = 'function'
        for d in st.decorator_list:
            dn = ast.unparse(d)
            if dn in ('property', 'classmethod', 'staticmethod'):
                kind = dn
            else:
                raise CheckerError(f'unsupported decorator {dn} on {st.name}')
        f = FuncVal(st, env if owner is None else env.parent, (qual + '.' if qual else '') + st.name, module, owner, kind)
        f.defaults = [self.eval(d, env, module) for d in st.args.defaults]
        f.kw_defaults = {a.arg: self.eval(d, env, module) for a, d in zip(st.args.kwonlyargs, st.args.kw_defaults) if d is not None}
        env.set(st.name, f)
        return f

    def st_ClassDef(self, st, env, module, qual):
        bases = []
        for b in st.bases:
            bv = self.eval(b, env, module)
            bases.append(bv)
        cls = ClassVal(st.name, st, bases, module)
        cenv = Env(env)
        for s in st.body:
            if isinstance(s, ast.FunctionDef):
                f = self.st_FunctionDef(s, cenv, module, (qual + '.' if qual else '') + st.name, owner=cls)
                cls.attrs[s.name] = f
            elif isinstance(s, ast.AnnAssign):
                if s.value is not None and not (isinstance(s.value, ast.Call) and isinstance(s.value.func, ast.Name) and s.value.func.id == 'field'):
                    cls.attrs[s.target.id] = self.eval(s.value, cenv, module)
                    cenv.set(s.target.id, cls.attrs[s.target.id])
            elif isinstance(s, ast.Assign):
                v = self.eval(s.value, cenv, module)
                for t in s.targets:
                    cls.attrs[t.id] = v
                    cenv.set(t.id, v)
            elif isinstance(s, ast.Expr) and isinstance(s.value, ast.Constant):
                pass
            elif isinstance(s, ast.Pass):
                pass
            else:
                raise CheckerError(f'unsupported class body statement at {module.rel}:{s.lineno}')
        cls.dc = dataclass_info(st)
        cls.nt_fields = None
        if any(getattr(b, '__name__', None) == 'NamedTuple' for b in bases):
            cls.nt_fields = []
            cls.nt_defaults = {}
            for s_ in st.body:
                if isinstance(s_, ast.AnnAssign) and isinstance(s_.target, ast.Name):
                    cls.nt_fields.append(s_.target.id)
                    if s_.value is not None:
                        cls.nt_defaults[s_.target.id] = cls.attrs.get(s_.target.id)
        for d in st.decorator_list:
            dn = d.func if isinstance(d, ast.Call) else d
            if not (isinstance(dn, ast.Name) and dn.id == 'dataclass'):
                raise CheckerError(f'unsupported class decorator on {st.name}')
        env.set(st.name, cls)

    def st_Return(self, st, env, module, qual):
        raise _Return(self.eval(st.value, env, module) if st.value is not None else None)

    def st_Assign(self, st, env, module, qual):
        v = self.eval(st.value, env, module)
        for t in st.targets:
            self.assign(t, v, env, module)

    def st_AnnAssign(self, st, env, module, qual):
        if st.value is not None:
            self.assign(st.target, self.eval(st.value, env, module), env, module)

    def st_AugAssign(self, st, env, module, qual):
        cur = self.eval(_load(st.target), env, module)
        v = self.binop(st.op, cur, self.eval(st.value, env, module), st)
        self.assign(st.target, v, env, module)

    def assign(self, t, v, env, module):
        if isinstance(t, ast.Name):
            env.set(t.id, v)
        elif isinstance(t, (ast.Tuple, ast.List)):
            stars = [i for i, e in enumerate(t.elts) if isinstance(e, ast.Starred)]
            if stars:
                # a, *rest, z = items: defined for a sequence of concrete length
                if len(stars) != 1 or hasattr(v, 'unpack'):
                    raise CheckerError('starred assignment of a symbolic sequence unsupported')
                items = list(self.iterate(v, t))
                k, after = stars[0], len(t.elts) - stars[0] - 1
                if len(items) < len(t.elts) - 1:
                    raise PyRaise('ValueError', 'not enough values to unpack', t)
                for e, x in zip(t.elts[:k], items[:k]):
                    self.assign(e, x, env, module)
                self.assign(t.elts[k].value, items[k:len(items) - after], env, module)
                for e, x in zip(t.elts[k + 1:], items[len(items) - after:] if after else []):
                    self.assign(e, x, env, module)
                return
            if hasattr(v, 'unpack'):
                items = v.unpack(self, len(t.elts), t)
            else:
                items = self.iterate(v, t)
            if len(items) != len(t.elts):
                raise PyRaise('ValueError', 'unpack', t)
            for e, x in zip(t.elts, items):
                self.assign(e, x, env, module)
        elif isinstance(t, ast.Attribute):
            o = self.eval(t.value, env, module)
            if isinstance(o, NTObj):
                raise PyRaise('AttributeError', "can't set attribute", t)
            if isinstance(o, Obj):
                o.attrs[t.attr] = v
            elif isinstance(o, Z):
                raise PyRaise('FrozenInstanceError', t.attr, t)
            elif hasattr(o, 'setattr'):
                o.setattr(self, t.attr, v)
            else:
                raise CheckerError(f'attribute store on {o!r} unsupported at line {t.lineno}')
        elif isinstance(t, ast.Subscript):
            o = self.eval(t.value, env, module)
            k = self.eval(t.slice, env, module)
            self.store_sub(o, k, v, t)
        else:
            raise CheckerError(f'unsupported assignment target {type(t).__name__}')

    def store_sub(self, o, k, v, node):
        if hasattr(o, 'setitem'):
            return o.setitem(self, k, v, node)
        if isinstance(o, dict):
            if is_native(k) or isinstance(k, tuple):
                o[self.hashable(k)] = v
                return
            raise CheckerError(f'store with symbolic key into a concrete dict at line {node.lineno}')
        if isinstance(o, list) and isinstance(k, int):
            try:
                o[k] = v
            except IndexError:
                raise PyRaise('IndexError', 'list assignment', node)
            return
        raise CheckerError(f'subscript store on {o!r} unsupported at line {node.lineno}')

    def hashable(self, k):
        if isinstance(k, tuple):
            return tuple(self.hashable(x) for x in k)
        if isinstance(k, Z):
            g = z3.simplify(k.e)
            return ('Z', g.sexpr())
        return k

    def st_If(self, st, env, module, qual):
        if self.truth(self.eval(st.test, env, module), st.test):
            self.exec_block(st.body, env, module, qual)
        else:
            self.exec_block(st.orelse, env, module, qual)

    def st_Assert(self, st, env, module, qual):
        if not self.truth(self.eval(st.test, env, module), st.test):
            raise PyRaise('AssertionError', '', st)

    def st_Raise(self, st, env, module, qual):
        if st.exc is None:
            raise CheckerError('bare raise unsupported')
        v = self.eval(st.exc, env, module)
        if isinstance(v, ExcClass):
            raise PyRaise(v.name, '', st)
        if isinstance(v, ExcInstance):
            raise PyRaise(v.name, v.msg, st)
        raise CheckerError(f'raise of {v!r} unsupported')

    def st_Try(self, st, env, module, qual):
        if st.finalbody or st.orelse:
            raise CheckerError('try/finally/else unsupported')
        try:
            self.exec_block(st.body, env, module, qual)
        except PyRaise as e:
            for h in st.handlers:
                names = []
                if h.type is None:
                    names = ['BaseException']
                else:
                    hv = self.eval(h.type, env, module)
                    hv = hv if isinstance(hv, tuple) else (hv,)
                    for x in hv:
                        if not isinstance(x, ExcClass):
                            raise CheckerError('except clause with a non-exception')
                        names.append(x.name)
                if any(exc_matches(e.exc, n) for n in names):
                    if h.name:
                        env.set(h.name, ExcInstance(e.exc, e.msg))
                    self.exec_block(h.body, env, module, qual)
                    return
            raise

    def st_For(self, st, env, module, qual):
        it = self.eval(st.iter, env, module)
        if hasattr(it, 'for_loop'):
            return it.for_loop(self, st, env, module, qual)
        items = self.iterate(it, st)
        broke = False
        for x in items:
            self.assign(st.target, x, env, module)
            try:
                self.exec_block(st.body, env, module, qual)
            except _Break:
                broke = True
                break
            except _Continue:
                continue
        if not broke:
            self.exec_block(st.orelse, env, module, qual)

    def st_While(self, st, env, module, qual):
        n = 0
        while self.truth(self.eval(st.test, env, module), st.test):
            n += 1
            if n > 200:
                raise CheckerError(f'while loop at line {st.lineno} does not terminate concretely (needs an invariant)')
            try:
                self.exec_block(st.body, env, module, qual)
            except _Break:
                return
            except _Continue:
                continue
        self.exec_block(st.orelse, env, module, qual)

    def st_Break(self, st, env, module, qual):
        raise _Break()

    def st_Continue(self, st, env, module, qual):
        raise _Continue()

    def st_Nonlocal(self, st, env, module, qual):
        env.nonlocals.update(st.names)

    def st_Global(self, st, env, module, qual):
        env.globals_.update(st.names)

    def st_Delete(self, st, env, module, qual):
        for t in st.targets:
            if isinstance(t, ast.Subscript):
                o = self.eval(t.value, env, module)
                k = self.eval(t.slice, env, module)
                if isinstance(o, dict) and is_native(k):
                    if k not in o:
                        raise PyRaise('KeyError', str(k), t)
                    del o[k]
                    continue
            raise CheckerError('unsupported del')

    # ------------------------------------------------------------------ iteration
    def iterate(self, v, node=None):
        """concrete-length iteration"""
        if isinstance(v, (list, tuple)):
            return list(v)
        if isinstance(v, str):
            return list(v)
        if isinstance(v, dict):
            return list(v.keys())
        if isinstance(v, (set, frozenset)):
            return sorted(v, key=repr)
        if isinstance(v, range):
            return list(v)
        if hasattr(v, 'iterate'):
            return v.iterate(self, node)
        raise CheckerError(f'iteration over {v!r} unsupported at line {getattr(node, "lineno", "?")}')

    # ------------------------------------------------------------------ expressions
    def eval(self, e, env, module):
        m = getattr(self, 'ev_' + type(e).__name__, None)
        if m is None:
            raise CheckerError(f'unsupported expression {type(e).__name__} at {module.rel}:{e.lineno}')
        return m(e, env, module)

    def ev_Constant(self, e, env, module):
        return e.value

    def ev_Name(self, e, env, module):
        try:
            return env.lookup(e.id)
        except KeyError:
            pass
        if e.id in BUILTIN_EXC:
            return ExcClass(e.id)
        if e.id in ('str', 'list', 'tuple', 'dict', 'set', 'int', 'bool', 'object', 'float', 'frozenset', 'type'):
            return getattr(builtins, e.id)
        if e.id in INTERP_BUILTINS:
            return InterpBuiltin(e.id)
        raise CheckerError(f'unknown name {e.id} at {module.rel}:{e.lineno}')

    def ev_Tuple(self, e, env, module):
        return tuple(self.eval_elts(e.elts, env, module))

    def ev_List(self, e, env, module):
        return list(self.eval_elts(e.elts, env, module))

    def ev_Set(self, e, env, module):
        vals = self.eval_elts(e.elts, env, module)
        if all(is_native(v) for v in vals):
            return set(vals)
        raise CheckerError('set display of symbolic values unsupported')

    def eval_elts(self, elts, env, module):
        out = []
        for x in elts:
            if isinstance(x, ast.Starred):
                out.extend(self.iterate(self.eval(x.value, env, module), x))
            else:
                out.append(self.eval(x, env, module))
        return out

    def ev_Dict(self, e, env, module):
        d = {}
        for k, v in zip(e.keys, e.values):
            if k is None:
                sub = self.eval(v, env, module)
                if not isinstance(sub, dict):
                    raise CheckerError('** of non-dict')
                d.update(sub)
            else:
                kv = self.eval(k, env, module)
                d[self.hashable(kv)] = self.eval(v, env, module)
        return d

    def ev_Lambda(self, e, env, module):
        f = FuncVal(e, env, '<lambda>', module)
        f.defaults = [self.eval(d, env, module) for d in e.args.defaults]
        return f

    def ev_IfExp(self, e, env, module):
        if self.truth(self.eval(e.test, env, module), e.test):
            return self.eval(e.body, env, module)
        return self.eval(e.orelse, env, module)

    def ev_BoolOp(self, e, env, module):
        if not any(isinstance(n, (ast.NamedExpr, ast.Await)) or isinstance(n, ast.Call) and not _pure_call(n) for n in ast.walk(e)):
            merged = self._merge_bool(e, env, module)
            if merged is not None:
                return merged
        v = None
        for sub in e.values:
            v = self.eval(sub, env, module)
            t = self.truth(v, sub)
            if isinstance(e.op, ast.And) and not t:
                return v if not isinstance(v, Z) else False
            if isinstance(e.op, ast.Or) and t:
                return v if not isinstance(v, Z) else (True if self.sort_name(v) == 'Bool' else v)
        if isinstance(v, Z) and self.sort_name(v) == 'Bool':
            # the last operand was decided by truth(): its value on this path is known
            return t
        return v

    def _merge_bool(self, e, env, module):
        """and/or over call-free operands: if every operand evaluates to a bool without forking, build one
        z3 term instead of splitting the path (operands without calls have no side effects)"""
        self.nofork = getattr(self, 'nofork', 0) + 1
        try:
            vals = []
            decisive = isinstance(e.op, ast.Or)
            for sub in e.values:
                v = self.eval(sub, env, module)
                if isinstance(v, bool):
                    if v is decisive:
                        break                       # short circuit: later operands are not evaluated
                    continue
                elif isinstance(v, Z) and self.sort_name(v) == 'Bool':
                    vals.append(v.e)
                else:
                    return None
            else:
                if not vals:
                    return not decisive
                return self.wrap(z3.And(*vals) if isinstance(e.op, ast.And) else z3.Or(*vals))
            if not vals:
                return decisive
            # a concrete decisive operand after symbolic ones: the symbolic ones were evaluated first, as python does
            return self.wrap(z3.Or(*vals, z3.BoolVal(True))) if decisive else self.wrap(z3.And(*vals, z3.BoolVal(False)))
        except _NeedFork:
            return None
        except PyRaise:
            return None
        except CheckerError:
            return None
        finally:
            self.nofork -= 1

    def ev_UnaryOp(self, e, env, module):
        v = self.eval(e.operand, env, module)
        if isinstance(e.op, ast.Not):
            return not self.truth(v, e.operand)
        if isinstance(e.op, ast.USub):
            if isinstance(v, (int, float)):
                return -v
            if isinstance(v, Z):
                return self.wrap(-v.e)
        raise CheckerError(f'unsupported unary operator at line {e.lineno}')

    def ev_BinOp(self, e, env, module):
        return self.binop(e.op, self.eval(e.left, env, module), self.eval(e.right, env, module), e)

    def binop(self, op, a, b, node):
        a, b = self.as_str(a, node), self.as_str(b, node)
        if isinstance(a, Z) and self.sort_name(a) in ('Cat', 'Feat') or isinstance(a, Obj):
            dunder = {ast.Div: '__truediv__', ast.BitOr: '__or__', ast.BitXor: '__xor__', ast.Add: '__add__', ast.BitAnd: '__and__'}.get(type(op))
            if dunder is None:
                raise CheckerError(f'operator {type(op).__name__} on {a!r}')
            return self.call(self.getattr(a, dunder, node), [b], {}, node)
        if isinstance(op, ast.Add):
            if isinstance(a, (list, tuple)) and isinstance(b, type(a)):
                return a + b
            if isinstance(a, (str, Z)) and isinstance(b, (str, Z)) and self._strish(a) and self._strish(b):
                if isinstance(a, str) and isinstance(b, str):
                    return a + b
                return self.wrap(z3.Concat(self.ex(a), self.ex(b)))
        if all(isinstance(x, (int, float)) and not isinstance(x, bool) or isinstance(x, bool) for x in (a, b)):
            try:
                return _PYOPS[type(op)](a, b)
            except ZeroDivisionError:
                raise PyRaise('ZeroDivisionError', '', node)
            except KeyError:
                raise CheckerError(f'operator {type(op).__name__} unsupported')
        if self._intish(a) and self._intish(b):
            x, y = self.ex(a), self.ex(b)
            if isinstance(op, ast.Div) and getattr(self, 'sym_truediv', None) is not None:
                return self.sym_truediv(self, a, b, node)
            if isinstance(op, ast.Add):
                return self.wrap(x + y)
            if isinstance(op, ast.Sub):
                return self.wrap(x - y)
            if isinstance(op, ast.Mult):
                return self.wrap(x * y)
        if isinstance(op, ast.BitAnd) and isinstance(a, (set, frozenset)) and isinstance(b, (set, frozenset)):
            return a & b
        if isinstance(op, ast.Mult) and isinstance(a, str) and isinstance(b, int):
            return a * b
        if isinstance(op, ast.Mod) and isinstance(a, str):
            raise CheckerError('% formatting unsupported')
        if hasattr(a, 'binop'):
            return a.binop(self, op, b, node)
        if hasattr(b, 'rbinop'):
            return b.rbinop(self, op, a, node)
        raise CheckerError(f'operator {type(op).__name__} on {a!r}, {b!r} unsupported at line {node.lineno}')

    def _strish(self, v):
        return isinstance(v, str) or isinstance(v, Z) and self.sort_name(v) == 'String'

    def _intish(self, v):
        return isinstance(v, int) and not isinstance(v, bool) or isinstance(v, Z) and self.sort_name(v) == 'Int'

    def ev_Compare(self, e, env, module):
        left = self.eval(e.left, env, module)
        if len(e.ops) == 1 and getattr(self, 'nofork', 0):
            return self.compare(e.ops[0], left, self.eval(e.comparators[0], env, module), e)
        for op, rn in zip(e.ops, e.comparators):
            right = self.eval(rn, env, module)
            r = self.compare(op, left, right, e)
            if not self.truth(r, e):
                return False
            left = right
        return True

    def compare(self, op, a, b, node):
        if isinstance(op, ast.Eq):
            return self.py_eq(a, b, node)
        if isinstance(op, ast.NotEq):
            return not self.truth(self.py_eq(a, b, node), node)
        if isinstance(op, ast.Is):
            return self.py_is(a, b, node)
        if isinstance(op, ast.IsNot):
            return not self.truth(self.py_is(a, b, node), node)
        if isinstance(op, ast.In):
            return self.py_in(a, b, node)
        if isinstance(op, ast.NotIn):
            return not self.truth(self.py_in(a, b, node), node)
        if self._intish(a) and self._intish(b):
            if isinstance(a, int) and isinstance(b, int):
                return _PYCMP[type(op)](a, b)
            x, y = self.ex(a), self.ex(b)
            return self.wrap({ast.Lt: x < y, ast.LtE: x <= y, ast.Gt: x > y, ast.GtE: x >= y}[type(op)])
        if isinstance(a, (int, float)) and isinstance(b, (int, float)):
            return _PYCMP[type(op)](a, b)
        raise CheckerError(f'comparison {type(op).__name__} on {a!r}, {b!r} unsupported at line {node.lineno}')

    def py_is(self, a, b, node):
        if b is None or a is None:
            x = a if b is None else b
            if x is None:
                return True
            if isinstance(x, Z):
                if self.sort_name(x) == 'OptStr':
                    return self.wrap(self.w.OptStr.is_NoneS(x.e))
                return False
            if hasattr(x, 'is_none'):
                return x.is_none(self)
            return False
        if is_native(a) and is_native(b) and isinstance(a, bool) and isinstance(b, bool):
            return a is b
        if isinstance(a, (Obj, ClassVal, FuncVal)) or isinstance(b, (Obj, ClassVal, FuncVal)):
            return a is b
        raise CheckerError(f'`is` on {a!r}, {b!r} unsupported at line {node.lineno}')

    def py_eq(self, a, b, node):
        for x, y in ((a, b), (b, a)):
            if hasattr(x, 'py_eq_first'):
                r = x.py_eq_first(self, y, node)
                if r is not None:
                    return r
        # user-defined __eq__ of the left operand first (Python semantics), then reflected
        for x, y in ((a, b), (b, a)):
            if isinstance(x, NTObj):
                continue
            if isinstance(x, Z) and self.sort_name(x) in ('Cat', 'Feat') or isinstance(x, Obj):
                meth = self.getattr(x, '__eq__', node, default=None)
                if meth is not None:
                    return self.call(meth, [y], {}, node)
        if isinstance(a, (tuple, list)) and isinstance(b, (tuple, list)):
            if type(a) is not type(b) or len(a) != len(b):
                return False
            for x, y in zip(a, b):
                if not self.truth(self.py_eq(x, y, node), node):
                    return False
            return True
        if is_native(a) and is_native(b):
            return a == b
        if isinstance(a, Foreign) or isinstance(b, Foreign):
            return a is b
        if isinstance(a, _CALLABLES) or isinstance(b, _CALLABLES):
            return a is b         # function / bound-method objects compare by identity (never equal to a str or a category)
        sa, sb = self.sort_name(a), self.sort_name(b)
        S = {'str': 'String', 'int': 'Int', 'bool': 'Bool', 'NoneType': 'None'}
        sa, sb = S.get(sa, sa), S.get(sb, sb)
        if sa == sb and sa in ('String', 'Int', 'Bool', 'OptStr'):
            return self.wrap(self.ex(a) == self.ex(b))
        if {sa, sb} == {'OptStr', 'String'}:
            o, s = (a, b) if sa == 'OptStr' else (b, a)
            return self.wrap(o.e == self.w.OptStr.SomeS(self.ex(s)))
        if {sa, sb} == {'OptStr', 'None'}:
            o = a if sa == 'OptStr' else b
            return self.wrap(self.w.OptStr.is_NoneS(o.e))
        if hasattr(a, 'py_eq'):
            return a.py_eq(self, b, node)
        if hasattr(b, 'py_eq'):
            return b.py_eq(self, a, node)
        if sa != sb and {sa, sb} <= {'String', 'Int', 'Bool', 'None', 'tuple', 'list', 'dict'}:
            return False
        raise CheckerError(f'== on {a!r}, {b!r} unsupported at line {getattr(node, "lineno", "?")}')

    def py_in(self, item, cont, node):
        if isinstance(cont, (tuple, list)):
            terms = []
            for x in cont:
                if is_native(item) and is_native(x):
                    if item == x:
                        return True
                    continue
                r = self.py_eq(item, x, node)
                if isinstance(r, bool):
                    if r:
                        return True
                    continue
                if isinstance(r, Z) and self.sort_name(r) == 'Bool':
                    terms.append(r.e)      # == on these operands is pure: a disjunction instead of a path split
                    continue
                if self.truth(r, node):
                    return True
            if terms:
                return self.wrap(z3.Or(*terms))
            return False
        if isinstance(cont, str):
            if isinstance(item, str):
                return item in cont
            if self._strish(item) and len(cont) > 8:
                self.used_lib.add('str.__contains__ on a literal container = str.contains')
                return self.wrap(z3.Contains(z3.StringVal(cont), item.e))
            if self._strish(item):
                subs = sorted({cont[i:j] for i in range(len(cont) + 1) for j in range(i, len(cont) + 1)})
                self.used_lib.add('str.__contains__ on a literal container = disjunction over its substrings')
                return self.wrap(z3.Or([item.e == z3.StringVal(s) for s in subs]))
            raise PyRaise('TypeError', 'in <string> requires string', node)
        if isinstance(cont, Z) and self.sort_name(cont) == 'String':
            if self._strish(item):
                self.used_lib.add('str.__contains__ = str.contains')
                return self.wrap(z3.Contains(cont.e, self.ex(item)))
        if isinstance(cont, (dict, set, frozenset)):
            if is_native(item) or isinstance(item, tuple):
                return self.hashable(item) in cont
            # symbolic key against concrete keys
            if self._strish(item) and isinstance(cont, (set, frozenset)) and all(isinstance(k, str) for k in cont):
                return self.wrap(z3.Or([item.e == z3.StringVal(k) for k in sorted(cont)])) if cont else False      # pure: a disjunction instead of a path split
            for k in list(cont):
                if self.truth(self.py_eq(item, self.unhash(k), node), node):
                    return True
            return False
        if isinstance(cont, VarArgs):
            if isinstance(item, Z) and self.sort_name(item) == 'Feat':
                return self.wrap(z3.IsMember(item.e, cont.member))
            raise CheckerError('membership of a non-feature in *args unsupported')
        if hasattr(cont, 'contains'):
            return cont.contains(self, item, node)
        raise CheckerError(f'`in` on {cont!r} unsupported at line {node.lineno}')

    def unhash(self, k):
        return k

    def ev_JoinedStr(self, e, env, module):
        parts = []
        for v in e.values:
            if isinstance(v, ast.Constant):
                parts.append(v.value)
            else:
                if v.format_spec is not None or v.conversion not in (-1, 115):
                    raise CheckerError(f'format spec in f-string unsupported at line {e.lineno}')
                parts.append(self.py_str(self.eval(v.value, env, module), v))
        if all(isinstance(p, str) for p in parts):
            return ''.join(parts)
        for p in parts:
            if hasattr(p, 'fstring_part') or isinstance(p, FString):
                flat = []
                for q in parts:
                    flat.extend(q.parts if isinstance(q, FString) else [q])
                return FString(flat)
        return self.wrap(z3.Concat(*[self.ex(p) for p in parts])) if len(parts) > 1 else parts[0]

    def py_str(self, v, node):
        if is_native(v):
            return str(v)
        if isinstance(v, Z):
            sn = self.sort_name(v)
            if sn == 'String':
                return v
            if sn in ('Cat', 'Feat'):
                return self.call(self.getattr(v, '__str__', node), [], {}, node)
            if sn == 'OptStr':
                if self.branch(self.w.OptStr.is_NoneS(v.e), node):
                    return 'None'
                return self.wrap(self.w.OptStr.s(v.e))
            if sn == 'Int':
                return SymIntStr(v)
            if sn == 'Bool':
                return 'True' if self.branch(v.e, node) else 'False'
        if isinstance(v, (tuple, list)) and all(is_native(x) for x in v):
            return str(v)
        if isinstance(v, (tuple, list)) and all(is_native(x) or isinstance(x, Z) and self.sort_name(x) == 'Int' for x in v):
            # repr of a sequence with symbolic integers (only ever used inside messages): kept as structured text
            parts = ['(' if isinstance(v, tuple) else '[']
            for i, x in enumerate(v):
                if i:
                    parts.append(', ')
                parts.append(SymIntStr(x) if isinstance(x, Z) else repr(x))
            parts.append(')' if isinstance(v, tuple) else ']')
            return FString(parts)
        if hasattr(v, 'py_str'):
            return v.py_str(self, node)
        raise CheckerError(f'str() of {v!r} unsupported at line {getattr(node, "lineno", "?")}')

    def ev_Attribute(self, e, env, module):
        return self.getattr(self.eval(e.value, env, module), e.attr, e)

    _MISSING = object()

    def getattr(self, o, name, node, default=_MISSING):
        if isinstance(o, Z):
            sn = self.sort_name(o)
            if sn in ('Cat', 'Feat'):
                return self.getattr_adt(o, name, node, default)
            if sn == 'String':
                return NativeMethod(o, name)
            if sn == 'OptStr':
                if self.branch(self.w.OptStr.is_NoneS(o.e), node):
                    raise PyRaise('AttributeError', f'NoneType.{name}', node)
                return NativeMethod(self.wrap(self.w.OptStr.s(o.e)), name)
        if isinstance(o, Obj):
            if name in o.attrs:
                return o.attrs[name]
            v, owner = o.cls.lookup(name)
            if v is None:
                if default is not Interp._MISSING:
                    return default
                raise PyRaise('AttributeError', name, node)
            return self.bind(v, o, o.cls, node)
        if isinstance(o, ClassVal):
            v, owner = o.lookup(name)
            if v is None:
                raise PyRaise('AttributeError', name, node)
            if isinstance(v, FuncVal) and v.kind == 'classmethod':
                return BoundMethod(v, o)
            return v
        if isinstance(o, ModuleVal):
            try:
                return o.env.lookup(name)
            except KeyError:
                try:
                    return self.load_module(o.name + '.' + name)
                except CheckerError:
                    raise PyRaise('AttributeError', name, node)
        if hasattr(o, 'getattr'):
            return o.getattr(self, name, node)
        if isinstance(o, (str, list, dict, tuple, set, frozenset)):
            if not hasattr(o, name):
                raise PyRaise('AttributeError', name, node)
            return NativeMethod(o, name)
        if o is None:
            if default is not Interp._MISSING:
                return default
            raise PyRaise('AttributeError', f'NoneType.{name}', node)
        if isinstance(o, (FuncVal, BoundMethod, Foreign)):
            if default is not Interp._MISSING:
                return default
            raise PyRaise('AttributeError', name, node)
        # real python object (library module, compiled regex, ...)
        if is_native(o):
            if default is not Interp._MISSING:
                return default
            raise PyRaise('AttributeError', name, node)
        try:
            return getattr(o, name)
        except AttributeError:
            raise PyRaise('AttributeError', name, node)

    def bind(self, v, recv, cls, node):
        if isinstance(v, FuncVal):
            if v.kind == 'property':
                return self.call_function(v, [recv], {}, node)
            if v.kind == 'staticmethod':
                return v
            if v.kind == 'classmethod':
                return BoundMethod(v, cls)
            return BoundMethod(v, recv)
        return v

    def class_of_ctor(self, ctor):
        m = self.load_module('depccg.cat')
        return m.env.lookup(ctor)

    def getattr_adt(self, o, name, node, default=_MISSING):
        w = self.w
        sn = self.sort_name(o)
        base = 'Category' if sn == 'Cat' else 'Feature'
        vc = self.virtual.get((base, name))
        if vc is not None:
            if getattr(vc, 'is_property', False):
                return self.use_contract(vc, [o], {}, node)
            return ContractMethod(vc, o)
        ctors = w.cat_ctors if sn == 'Cat' else w.feat_ctors
        chosen = None
        for c in ctors[:-1]:
            if self.branch(w.recog(c)(o.e), node):
                chosen = c
                break
        if chosen is None:
            chosen = ctors[-1]
        # dataclass field?
        for nm, ann, parts in w.layout[chosen]:
            if nm == name:
                if ann == 'Pair[str]':
                    return tuple(self.wrap(w.acc(chosen, zf)(o.e)) for zf, _ in parts)
                val = w.acc(chosen, parts[0][0])(o.e)
                if ann == 'Optional[str]':
                    return self.opt(val)
                return self.wrap(val)
        cls = self.class_of_ctor(chosen)
        v, owner = cls.lookup(name)
        if v is None:
            if default is not Interp._MISSING:
                return default
            raise PyRaise('AttributeError', f'{chosen}.{name}', node)
        return self.bind(v, o, cls, node)

    def ev_Subscript(self, e, env, module):
        o = self.eval(e.value, env, module)
        if isinstance(e.slice, ast.Slice):
            lo = self.eval(e.slice.lower, env, module) if e.slice.lower else None
            hi = self.eval(e.slice.upper, env, module) if e.slice.upper else None
            if e.slice.step is not None:
                step = self.eval(e.slice.step, env, module)
                if isinstance(step, int) and not isinstance(step, bool) and isinstance(o, (str, list, tuple)) and (lo is None or isinstance(lo, int)) and (hi is None or isinstance(hi, int)):
                    return o[lo:hi:step]
                if hasattr(o, 'slice_step'):
                    return o.slice_step(self, lo, hi, step, e)
                raise CheckerError('slice step unsupported')
            return self.slice(o, lo, hi, e)
        k = self.eval(e.slice, env, module)
        return self.subscript(o, k, e)

    def slice(self, o, lo, hi, node):
        if isinstance(o, (str, list, tuple)) and (lo is None or isinstance(lo, int)) and (hi is None or isinstance(hi, int)):
            return o[lo:hi]
        if hasattr(o, 'slice'):
            return o.slice(self, lo, hi, node)
        if isinstance(o, Z) and self.sort_name(o) == 'String' and (lo is None or self._intish(lo)) and (hi is None or self._intish(hi)):
            # python slice semantics on a symbolic string: negative bounds count from the end, both are clipped to [0, len]
            n = z3.Length(o.e)

            def norm(v, default):
                if v is None:
                    return default
                x = self.ex(v)
                return z3.If(x < 0, z3.If(x + n < 0, z3.IntVal(0), x + n), z3.If(x > n, n, x))
            a, b = norm(lo, z3.IntVal(0)), norm(hi, n)
            return self.wrap(z3.If(b > a, z3.SubString(o.e, a, b - a), z3.StringVal('')))
        raise CheckerError(f'slice of {o!r} unsupported at line {node.lineno}')

    def subscript(self, o, k, node):
        if hasattr(o, 'getitem'):
            return o.getitem(self, k, node)
        if isinstance(o, (list, tuple, str)):
            if isinstance(k, int):
                try:
                    return o[k]
                except IndexError:
                    raise PyRaise('IndexError', '', node)
            raise CheckerError(f'symbolic index into a concrete sequence at line {node.lineno}')
        if isinstance(o, dict):
            hk = self.hashable(k)
            if is_native(k) or isinstance(k, tuple) and all(is_native(x) for x in k):
                if hk in o:
                    return o[hk]
                raise PyRaise('KeyError', str(k), node)
            for kk in list(o):
                if self.truth(self.py_eq(k, kk, node), node):
                    return o[kk]
            raise PyRaise('KeyError', 'symbolic', node)
        if isinstance(o, Z) and self.sort_name(o) == 'String':
            if self._intish(k):
                i = self.ex(k)
                n = z3.Length(o.e)
                if self.branch(z3.And(i >= 0, i < n), node):
                    return self.wrap(z3.SubString(o.e, i, 1))
                if self.branch(z3.And(i < 0, i >= -n), node):
                    return self.wrap(z3.SubString(o.e, n + i, 1))
                raise PyRaise('IndexError', 'string index', node)
        if isinstance(o, Obj):
            return self.call(self.getattr(o, '__getitem__', node), [k], {}, node)
        if not isinstance(o, (Z, Foreign, FuncVal, ClassVal)) and not is_native(o):
            if getattr(o, '__module__', None) in ('typing', 'collections.abc', 'types') or type(o).__module__ == 'typing':
                return Foreign()          # a type annotation object: never used as a value
            try:
                return o[k]
            except Exception:
                pass
        raise CheckerError(f'subscript of {o!r} unsupported at line {node.lineno}')

    # comprehensions (concrete-length iterables only)
    def _comp(self, gens, env, module, emit):
        def rec(i, env):
            if i == len(gens):
                emit(env)
                return
            g = gens[i]
            it = self.eval(g.iter, env, module)
            if hasattr(it, 'comprehension'):
                raise CheckerError('comprehension over a symbolic collection needs a contract')
            for x in self.iterate(it, g.iter):
                sub = Env(env)
                self.assign(g.target, x, sub, module)
                if all(self.truth(self.eval(c, sub, module), c) for c in g.ifs):
                    rec(i + 1, sub)
        rec(0, env)

    def ev_ListComp(self, e, env, module):
        if len(e.generators) == 1 and isinstance(e, ast.ListComp):
            it = self.eval(e.generators[0].iter, env, module)
            if hasattr(it, 'comprehension'):
                return it.comprehension(self, e, env, module)
        out = []
        self._comp(e.generators, env, module, lambda en: out.append(self.eval(e.elt, en, module)))
        return out

    def ev_GeneratorExp(self, e, env, module):
        return self.ev_ListComp(e, env, module)

    def ev_SetComp(self, e, env, module):
        out = self.ev_ListComp(e, env, module)
        if all(is_native(v) or isinstance(v, (type, ClassVal)) for v in out):
            try:
                return set(out)
            except TypeError:
                pass
        return SymSmallSet(out)

    def ev_DictComp(self, e, env, module):
        if len(e.generators) == 1:
            it = self.eval(e.generators[0].iter, env, module)
            if hasattr(it, 'dict_comprehension'):
                return it.dict_comprehension(self, e, env, module)
        out = {}
        def emit(en):
            out[self.hashable(self.eval(e.key, en, module))] = self.eval(e.value, en, module)
        self._comp(e.generators, env, module, emit)
        return out

    def ev_Starred(self, e, env, module):
        raise CheckerError('starred expression outside call/display')

    # ------------------------------------------------------------------ calls
    def ev_Call(self, e, env, module):
        f = self.eval(e.func, env, module)
        args = []
        for a in e.args:
            if isinstance(a, ast.Starred):
                v = self.eval(a.value, env, module)
                if isinstance(v, VarArgs):
                    args.append(v)
                else:
                    args.extend(self.iterate(v, a))
            else:
                args.append(self.eval(a, env, module))
        kwargs = {}
        for k in e.keywords:
            if k.arg is None:
                d = self.eval(k.value, env, module)
                if not isinstance(d, dict):
                    raise CheckerError('** of a non-dict')
                kwargs.update(d)
            else:
                kwargs[k.arg] = self.eval(k.value, env, module)
        return self.call(f, args, kwargs, e)

    def call(self, f, args, kwargs, node):
        if isinstance(f, BoundMethod):
            return self.call_function(f.func, [f.recv] + list(args), kwargs, node)
        if isinstance(f, ContractMethod):
            return self.use_contract(f.contract, [f.recv] + list(args), kwargs, node)
        if isinstance(f, FuncVal):
            return self.call_function(f, list(args), kwargs, node)
        if isinstance(f, ClassVal):
            return self.construct(f, args, kwargs, node)
        if isinstance(f, Obj):
            return self.call(self.getattr(f, '__call__', node), args, kwargs, node)
        if isinstance(f, ExcClass):
            msg = args[0] if args and isinstance(args[0], str) else ''
            return ExcInstance(f.name, msg)
        if isinstance(f, InterpBuiltin):
            return getattr(self, 'bi_' + f.name)(args, kwargs, node)
        if isinstance(f, NativeMethod):
            return f.call(self, args, kwargs, node)
        if hasattr(f, 'call'):
            return f.call(self, args, kwargs, node)
        if f is str:
            if len(args) != 1:
                return ''
            return self.py_str(args[0], node)
        if f is list and args and hasattr(args[0], 'to_list'):
            return args[0].to_list(self, node)
        if f in (list, tuple):
            items = self.iterate(args[0], node) if args else []
            return f(items)
        if f is dict:
            if not args:
                return dict(kwargs)
            if isinstance(args[0], dict):
                return dict(args[0])
            if hasattr(args[0], 'to_dict'):
                return args[0].to_dict(self, node)
            return {self.hashable(k): v for k, v in (self.iterate(p, node) for p in self.iterate(args[0], node))}
        if f is set:
            if not args:
                return set()
            if hasattr(args[0], 'to_set'):
                return args[0].to_set(self, node)
            items = self.iterate(args[0], node)
            if all(is_native(x) or isinstance(x, tuple) and all(is_native(y) for y in x) for x in items):
                return set(items)
            return SymSmallSet(items)
        if f is type and len(args) == 1 and isinstance(args[0], Obj):
            return args[0].cls
        if f is int and len(args) == 1 and isinstance(args[0], (int, str)):
            try:
                return int(args[0])
            except ValueError:
                raise PyRaise('ValueError', 'int()', node)
        if f is bool and len(args) == 1:
            return self.truth(args[0], node)
        if callable(f) and not isinstance(f, (Z,)):
            h = getattr(self, 'lib_contracts', {}).get(getattr(f, '__module__', None) and (f.__module__.split('.')[0], getattr(f, '__name__', '')))
            if h is not None:
                return h(self, args, kwargs, node)
            # library function: only with concrete arguments
            if all(self._concrete(a) for a in args) and all(self._concrete(a) for a in kwargs.values()):
                try:
                    r = f(*args, **kwargs)
                except Exception as ex:
                    raise PyRaise(type(ex).__name__, str(ex), node)
                self.used_lib.add(f'CPython evaluation of {getattr(f, "__qualname__", repr(f))} on concrete arguments')
                return r
            raise CheckerError(f'library call {getattr(f, "__qualname__", f)!r} with symbolic arguments has no contract (line {node.lineno})')
        raise PyRaise('TypeError', f'{f!r} is not callable', node)

    def _concrete(self, v):
        if is_native(v):
            return True
        if isinstance(v, (list, tuple)):
            return all(self._concrete(x) for x in v)
        if isinstance(v, dict):
            return all(self._concrete(x) for x in v.values())
        if isinstance(v, (Z, Obj, FuncVal, ClassVal, BoundMethod, Foreign, VarArgs)):
            return False
        return True

    def construct(self, cls, args, kwargs, node):
        w = self.w
        if cls.name in w.layout and cls.module.name == 'depccg.cat':
            fields = cls.dc['fields']
            vals = {}
            if len(args) > len(fields):
                raise PyRaise('TypeError', f'{cls.name}() takes {len(fields)} arguments', node)
            for f, a in zip(fields, args):
                vals[f['name']] = a
            for k, v in kwargs.items():
                if k in vals or k not in [f['name'] for f in fields]:
                    raise PyRaise('TypeError', f'{cls.name}() argument {k}', node)
                vals[k] = v
            zargs = []
            for nm, ann, parts in w.layout[cls.name]:
                if nm not in vals:
                    if nm in cls.attrs:
                        vals[nm] = cls.attrs[nm]
                    else:
                        raise PyRaise('TypeError', f'{cls.name}() missing {nm}', node)
                v = vals[nm]
                if ann == 'Pair[str]':
                    if not (isinstance(v, tuple) and len(v) == 2 and all(self._strish(x) for x in v)):
                        raise CheckerError(f'{cls.name}.{nm}: only pairs of strings are modelled (got {v!r})')
                    zargs.extend(self.ex(x) for x in v)
                elif ann == 'Optional[str]':
                    if v is None:
                        zargs.append(w.OptStr.NoneS)
                    elif self._strish(v):
                        zargs.append(w.OptStr.SomeS(self.ex(v)))
                    elif isinstance(v, Z) and self.sort_name(v) == 'OptStr':
                        zargs.append(v.e)
                    else:
                        raise CheckerError(f'{cls.name}.{nm}: value {v!r} outside the modelled type {ann}')
                else:
                    want = {'str': 'String', 'Category': 'Cat', "'Category'": 'Cat', 'Feature': 'Feat', "'Feature'": 'Feat', 'int': 'Int', 'bool': 'Bool'}[ann]
                    if want == 'String' and self._strish(v) or want == 'Int' and self._intish(v) or want == 'Bool' and isinstance(v, bool) \
                            or isinstance(v, Z) and self.sort_name(v) == want:
                        zargs.append(self.ex(v))
                    else:
                        raise CheckerError(f'{cls.name}.{nm}: value {v!r} outside the modelled type {ann} (line {getattr(node, "lineno", "?")})')
            return Z(z3.simplify(w.ctor(cls.name)(*zargs)))
        if cls.dc is not None:
            raise CheckerError(f'dataclass {cls.name} is not modelled')
        if getattr(cls, 'nt_fields', None) is not None:
            o = NTObj(cls)
            if len(args) > len(cls.nt_fields):
                raise PyRaise('TypeError', f'{cls.name}() takes {len(cls.nt_fields)} positional arguments', node)
            vals = dict(zip(cls.nt_fields, args))
            for k, v in kwargs.items():
                if k not in cls.nt_fields or k in vals:
                    raise PyRaise('TypeError', f'{cls.name}() got an unexpected keyword argument {k}', node)
                vals[k] = v
            for fn in cls.nt_fields:
                if fn not in vals:
                    if fn in cls.nt_defaults:
                        vals[fn] = cls.nt_defaults[fn]
                    else:
                        raise PyRaise('TypeError', f'{cls.name}() missing required argument {fn}', node)
            o.attrs = {fn: vals[fn] for fn in cls.nt_fields}
            return o
        o = Obj(cls)
        init, _ = cls.lookup('__init__')
        if init is not None:
            self.call_function(init, [o] + list(args), kwargs, node)
        elif args or kwargs:
            raise PyRaise('TypeError', f'{cls.name}() takes no arguments', node)
        return o

    def contract_of(self, f):
        return self.contracts.get(f'{f.module.rel}::{f.qualname}')

    def call_function(self, f, args, kwargs, node):
        c = self.contract_of(f)
        if c is not None and f is not self.target and not getattr(c, 'inline_at_calls', False):
            self.callee = f
            return self.use_contract(c, args, kwargs, node)
        if c is not None and f is self.target and self.depth > 0:
            self.callee = f
            return self.use_contract(c, args, kwargs, node, recursive=True)
        return self.inline(f, args, kwargs, node)

    def use_contract(self, c, args, kwargs, node, recursive=False):
        self.used_contracts.add(c.name)
        return c.apply(self, args, kwargs, node)

    def bind_args(self, f, args, kwargs, node):
        a = f.node.args
        env = Env(f.env)
        params = [p.arg for p in a.posonlyargs + a.args]
        nargs = len(args)
        pos = list(args)
        if any(isinstance(x, VarArgs) for x in pos):
            # f(*args) forwarding
            if a.vararg is None or len(pos) - 1 != len(params) or not isinstance(pos[-1], VarArgs):
                raise CheckerError('forwarding *args to a function without matching *args')
            for p, v in zip(params, pos[:-1]):
                env.vars[p] = v
            env.vars[a.vararg.arg] = pos[-1]
            return env
        if len(pos) > len(params) and a.vararg is None:
            raise PyRaise('TypeError', f'{f.qualname}() takes {len(params)} positional arguments but {nargs} were given', node)
        for p, v in zip(params, pos):
            env.vars[p] = v
        if a.vararg is not None:
            env.vars[a.vararg.arg] = tuple(pos[len(params):])
        for k, v in kwargs.items():
            if k in env.vars:
                raise PyRaise('TypeError', f'{f.qualname}() got multiple values for argument {k}', node)
            if k in params or k in [p.arg for p in a.kwonlyargs]:
                env.vars[k] = v
            elif a.kwarg is not None:
                env.vars.setdefault(a.kwarg.arg, {})[k] = v
            else:
                raise PyRaise('TypeError', f'{f.qualname}() got an unexpected keyword argument {k}', node)
        nd = len(f.defaults)
        for i, p in enumerate(params):
            if p not in env.vars:
                j = i - (len(params) - nd)
                if j >= 0:
                    env.vars[p] = f.defaults[j]
                else:
                    raise PyRaise('TypeError', f'{f.qualname}() missing required argument {p}', node)
        for p in a.kwonlyargs:
            if p.arg not in env.vars:
                if p.arg in f.kw_defaults:
                    env.vars[p.arg] = f.kw_defaults[p.arg]
                else:
                    raise PyRaise('TypeError', f'{f.qualname}() missing keyword argument {p.arg}', node)
        if a.kwarg is not None and a.kwarg.arg not in env.vars:
            env.vars[a.kwarg.arg] = {}
        return env

    def inline(self, f, args, kwargs, node):
        if f.kind == 'classmethod' and not (args and isinstance(args[0], ClassVal)):
            args = [f.owner] + list(args)
        env = self.bind_args(f, args, kwargs, node)
        if self.depth > MAX_INLINE_DEPTH:
            raise CheckerError(f'inlining depth exceeded at {f.qualname}: recursion needs a contract')
        # a function that calls itself is unrolled only a few levels (enough for recursion over a short concrete list); deeper self-recursion over
        # symbolic data would fork at every level: it needs a contract (not analysable, never a violation)
        stack = self.__dict__.setdefault('inline_stack', [])
        mine = [nf for g, nf in stack if g.node is f.node]
        if len(mine) >= MAX_SELF_RECURSION:
            # recursion that follows a concrete value (a pattern, a short list) stays shallow; recursion that follows the shape of a symbolic value goes straight down
            # on the first path and would fork without end: the whole job is not analysable
            raise JobAbort(f'{f.qualname} calls itself more than {MAX_SELF_RECURSION} levels deep while being executed in place: recursion over symbolic data needs a contract')
        if mine:
            # self-recursion executed in place is bounded by a budget of activations per job: recursion that follows a concrete value (a pattern, a short
            # list) stays far below it, recursion that follows the shape of a symbolic value forks at every level and would not end
            budget = self.__dict__.setdefault('recursion_budget', {})
            bk = id(f.node)
            budget[bk] = budget.get(bk, 0) + 1
            if _BUDGET_LOG is not None and budget[bk] > _BUDGET_LOG.get(f.qualname, 0):
                _BUDGET_LOG[f.qualname] = budget[bk]
            if budget[bk] > MAX_RECURSIVE_ACTIVATIONS:
                raise JobAbort(f'{f.qualname} recurses over symbolic data while being executed in place ({MAX_RECURSIVE_ACTIVATIONS} nested activations in this job): recursion needs a contract')
        stack.append((f, 0))
        try:
            return self._inline_body(f, env)
        finally:
            stack.pop()

    def _inline_body(self, f, env):
        self.depth += 1
        self.inlined.add(f'{f.module.rel}::{f.qualname}')
        try:
            if isinstance(f.node, ast.Lambda):
                return self.eval(f.node.body, env, f.module)
            if f is not self.target:
                for n in ast.walk(f.node):
                    if isinstance(n, (ast.Yield, ast.YieldFrom)):
                        return self.run_generator(f, env)
            try:
                self.exec_block(f.node.body, env, f.module, f.qualname)
            except _Return as r:
                return r.v
            return None
        finally:
            self.depth -= 1

    def run_generator(self, f, env):
        raise CheckerError(f'generator {f.qualname} needs a contract')

    # ------------------------------------------------------------------ builtins implemented here
    def bi_isinstance(self, args, kwargs, node):
        v, t = args
        ts = t if isinstance(t, tuple) else (t,)
        for t in ts:
            r = self._isinstance1(v, t, node)
            if isinstance(r, Z):
                r = self.truth(r, node)
            if r:
                return True
        return False

    def _isinstance1(self, v, t, node):
        w = self.w
        if isinstance(v, Foreign):
            return False
        if hasattr(v, 'isinstance_of'):
            return v.isinstance_of(self, t, node)
        if isinstance(t, ClassVal):
            if isinstance(v, Z):
                sn = self.sort_name(v)
                if sn not in ('Cat', 'Feat'):
                    return False
                ctors = w.cat_ctors if sn == 'Cat' else w.feat_ctors
                names = [c.name for c in [t]]
                # which constructors are subclasses of t?
                subs = [c for c in ctors if t in self.class_of_ctor(c).mro()]
                if not subs:
                    return False
                if len(subs) == len(ctors):
                    return True
                return self.wrap(z3.Or([w.recog(c)(v.e) for c in subs]))
            if isinstance(v, Obj):
                return t in v.cls.mro()
            return False
        if t is str:
            return self._strish(v)
        if t is int:
            return self._intish(v) or isinstance(v, bool)
        if t is bool:
            return isinstance(v, bool) or isinstance(v, Z) and self.sort_name(v) == 'Bool'
        if t in (list, tuple, dict, set):
            return isinstance(v, t)
        if t is object:
            return True
        if isinstance(t, type):
            return isinstance(v, t) if not isinstance(v, (Z, Obj)) else False
        raise CheckerError(f'isinstance against {t!r} unsupported at line {node.lineno}')

    def bi_len(self, args, kwargs, node):
        v, = args
        if isinstance(v, (str, list, tuple, dict, set, frozenset)):
            return len(v)
        if isinstance(v, Z) and self.sort_name(v) == 'String':
            return self.wrap(z3.Length(v.e))
        if hasattr(v, 'length'):
            return v.length(self, node)
        if isinstance(v, Obj):
            return self.call(self.getattr(v, '__len__', node), [], {}, node)
        raise PyRaise('TypeError', f'len() of {self.sort_name(v)}', node)

    def bi_next(self, args, kwargs, node):
        it = args[0]
        if hasattr(it, 'py_next'):
            return it.py_next(self, node)
        raise CheckerError('next() of a value that is not a modelled iterator')

    def bi_map(self, args, kwargs, node):
        """map over concrete-length iterables (evaluated eagerly: the interpreted code only consumes the result)"""
        f, its = args[0], [self.iterate(a, node) for a in args[1:]]
        return [self.call(f, list(xs), {}, node) for xs in zip(*its)]

    def bi_filter(self, args, kwargs, node):
        f, items = args[0], self.iterate(args[1], node)
        out = []
        for x in items:
            v = x if f is None else self.call(f, [x], {}, node)
            if self.truth(v, node):
                out.append(x)
        return out

    def bi_reversed(self, args, kwargs, node):
        return list(reversed(self.iterate(args[0], node)))

    def bi_zip(self, args, kwargs, node):
        if args and hasattr(args[0], 'zip_with'):
            return args[0].zip_with(self, list(args[1:]), node)
        return list(zip(*[self.iterate(a, node) for a in args]))

    def bi_enumerate(self, args, kwargs, node):
        start = args[1] if len(args) > 1 else kwargs.get('start', 0)
        if hasattr(args[0], 'enumerate'):
            return args[0].enumerate(self, start, node)
        return list(enumerate(self.iterate(args[0], node), start))

    def bi_range(self, args, kwargs, node):
        if all(isinstance(a, int) for a in args):
            return range(*args)
        mk = getattr(self, 'sym_range', None)
        if mk is not None:
            return mk(self, args, node)
        raise CheckerError('symbolic range needs a loop invariant')

    def _bools(self, items):
        out = []
        for x in items:
            if isinstance(x, bool):
                out.append(z3.BoolVal(x))
            elif isinstance(x, Z) and self.sort_name(x) == 'Bool':
                out.append(x.e)
            else:
                return None
        return out

    def bi_all(self, args, kwargs, node):
        items = self.iterate(args[0], node)
        bs = self._bools(items)
        if bs is not None:
            return self.wrap(z3.And(*bs)) if bs else True     # the elements are already evaluated: no side effect is skipped
        for x in items:
            if not self.truth(x, node):
                return False
        return True

    def bi_any(self, args, kwargs, node):
        items = self.iterate(args[0], node)
        bs = self._bools(items)
        if bs is not None:
            return self.wrap(z3.Or(*bs)) if bs else False
        for x in items:
            if self.truth(x, node):
                return True
        return False

    def bi_max(self, args, kwargs, node):
        items = self.iterate(args[0], node) if len(args) == 1 else list(args)
        if all(isinstance(x, int) for x in items):
            return max(items)
        if len(items) >= 2 and all(self._intish(x) for x in items) and not kwargs:
            r = self.ex(items[0])
            for x in items[1:]:
                b = self.ex(x)
                r = z3.If(b > r, b, r)
            return self.wrap(r)
        raise CheckerError('max of symbolic values unsupported')

    def bi_min(self, args, kwargs, node):
        items = self.iterate(args[0], node) if len(args) == 1 else list(args)
        if all(isinstance(x, int) for x in items):
            return min(items)
        if len(items) >= 2 and all(self._intish(x) for x in items) and not kwargs:
            r = self.ex(items[0])
            for x in items[1:]:
                b = self.ex(x)
                r = z3.If(b < r, b, r)
            return self.wrap(r)
        raise CheckerError('min of symbolic values unsupported')

    def bi_sorted(self, args, kwargs, node):
        if hasattr(args[0], 'sorted') and not kwargs:
            return args[0].sorted(self, node)
        items = self.iterate(args[0], node)
        if all(is_native(x) for x in items) and not kwargs:
            return sorted(items)
        raise CheckerError('sorted of symbolic values unsupported')

    def bi_repr(self, args, kwargs, node):
        if is_native(args[0]):
            return repr(args[0])
        raise CheckerError('repr of symbolic value unsupported')

    def bi_print(self, args, kwargs, node):
        f = kwargs.get('file')
        if f is not None and hasattr(f, 'write_line'):
            f.write_line(self, args, kwargs, node)
        return None

    def bi_id(self, args, kwargs, node):
        raise CheckerError('id() is not modelled (identity-dependent behaviour)')

    def bi_hash(self, args, kwargs, node):
        raise CheckerError('hash() is not modelled')

    def bi_TypeVar(self, args, kwargs, node):
        return Foreign()


_CALLABLES = (FuncVal, BoundMethod, ContractMethod, ClassVal)
BUILTIN_EXC = set(EXC_PARENTS) | {'BaseException'}
INTERP_BUILTINS = {'isinstance', 'len', 'reversed', 'zip', 'enumerate', 'range', 'all', 'any', 'max', 'min', 'sorted', 'repr', 'print', 'id', 'hash', 'map', 'filter', 'next'}


class InterpBuiltin:
    def __init__(self, name):
        self.name = name


class SymIntStr:
    """str(<symbolic int>) kept abstract: only usable as part of a dictionary key pattern"""
    fstring_part = True

    def __init__(self, z):
        self.z = z

    def py_str(self, I, node):
        return self


class FString:
    """an f-string with abstract integer parts: literal pieces and str(<symbolic int>) pieces, kept as a list (used as a map key / structured text)"""
    def __init__(self, parts):
        self.parts = parts

    def py_str(self, I, node):
        return self

    def binop(self, I, op, other, node):
        if isinstance(op, ast.Add) and isinstance(other, (str, FString, SymIntStr)):
            return FString(list(self.parts) + (list(other.parts) if isinstance(other, FString) else [other]))
        raise CheckerError(f'operator {type(op).__name__} on an f-string with symbolic parts')

    def rbinop(self, I, op, other, node):
        if isinstance(op, ast.Add) and isinstance(other, (str, SymIntStr)):
            return FString([other] + list(self.parts))
        raise CheckerError(f'operator {type(op).__name__} on an f-string with symbolic parts')


class SymSmallSet:
    """a set display of finitely many symbolic values (membership by ==)"""
    def __init__(self, items):
        self.items = items

    def contains(self, I, item, node):
        for x in self.items:
            if I.truth(I.py_eq(item, x, node), node):
                return True
        return False


class NativeMethod:
    """method of a str/list/dict/tuple value (concrete container possibly holding symbolic values, or symbolic str)"""
    def __init__(self, recv, name):
        self.recv, self.name = recv, name

    def call(self, I, args, kwargs, node):
        r, n = self.recv, self.name
        if isinstance(r, list):
            if n == 'append':
                r.append(args[0])
                return None
            if n == 'pop':
                try:
                    return r.pop(*args)
                except IndexError:
                    raise PyRaise('IndexError', 'pop from empty list', node)
            if n == 'extend':
                r.extend(I.iterate(args[0], node))
                return None
            if n == 'insert':
                r.insert(args[0], args[1])
                return None
            if n == 'index' and all(is_native(x) for x in r) and is_native(args[0]):
                try:
                    return r.index(args[0])
                except ValueError:
                    raise PyRaise('ValueError', 'index', node)
        if isinstance(r, dict):
            if n == 'get':
                k = args[0]
                d = args[1] if len(args) > 1 else None
                if I.truth(I.py_in(k, r, node), node):
                    return I.subscript(r, k, node)
                return d
            if n == 'items':
                return [(k, v) for k, v in r.items()]
            if n == 'keys':
                return list(r.keys())
            if n == 'values':
                return list(r.values())
            if n == 'pop':
                k = args[0]
                if is_native(k):
                    if k in r:
                        return r.pop(k)
                    if len(args) > 1:
                        return args[1]
                    raise PyRaise('KeyError', str(k), node)
            if n == 'update' and isinstance(args[0], dict):
                r.update(args[0])
                return None
            if n == 'setdefault' and is_native(args[0]):
                return r.setdefault(args[0], args[1] if len(args) > 1 else None)
        if isinstance(r, str):
            if n == 'join':
                items = I.iterate(args[0], node)
                if all(isinstance(x, str) for x in items):
                    return r.join(items)
                if any(isinstance(x, FString) or hasattr(x, 'fstring_part') for x in items):
                    parts = []
                    for i, x in enumerate(items):
                        if i:
                            parts.append(r)
                        parts.extend(x.parts if isinstance(x, FString) else [x])
                    return FString(parts)
                if not all(I._strish(x) for x in items):
                    raise PyRaise('TypeError', 'join of non-strings', node)
                parts = []
                for i, x in enumerate(items):
                    if i:
                        parts.append(z3.StringVal(r))
                    parts.append(I.ex(x))
                if not parts:
                    return ''
                return I.wrap(z3.Concat(*parts)) if len(parts) > 1 else I.wrap(parts[0])
            if all(I._concrete(a) for a in args):
                try:
                    res = getattr(r, n)(*args, **kwargs)
                except Exception as ex:
                    raise PyRaise(type(ex).__name__, str(ex), node)
                return res
            if n in ('startswith', 'endswith') and len(args) == 1 and I._strish(args[0]):
                fn = z3.PrefixOf if n == 'startswith' else z3.SuffixOf
                return I.wrap(fn(I.ex(args[0]), z3.StringVal(r)))
        if isinstance(r, Z):   # symbolic string
            e = r.e
            if n == 'startswith' and len(args) == 1 and I._strish(args[0]):
                I.used_lib.add('str.startswith = str.prefixof')
                return I.wrap(z3.PrefixOf(I.ex(args[0]), e))
            if n == 'endswith' and len(args) == 1 and I._strish(args[0]):
                I.used_lib.add('str.endswith = str.suffixof')
                return I.wrap(z3.SuffixOf(I.ex(args[0]), e))
            if n == 'replace' and len(args) == 2 and all(isinstance(a, str) for a in args):
                I.used_lib.add('str.replace = str.replace_all')
                if hasattr(z3, 'ReplaceAll'):
                    return I.wrap(z3.ReplaceAll(e, z3.StringVal(args[0]), z3.StringVal(args[1])))
                # no replace_all in this z3 build: an uninterpreted function with the one fact "nothing to replace -> unchanged"
                S_ = z3.StringSort()
                f = z3.Function('py_str_replace', S_, S_, S_, S_)
                r_ = f(e, z3.StringVal(args[0]), z3.StringVal(args[1]))
                if args[0] != '':
                    I.ctx.assume(z3.Implies(z3.Not(z3.Contains(e, z3.StringVal(args[0]))), r_ == e))
                return I.wrap(r_)
            if n == 'partition' and len(args) == 1 and isinstance(args[0], str) and args[0]:
                # (head, sep, tail) around the first occurrence of sep; (s, '', '') when there is none
                sep = z3.StringVal(args[0])
                i = z3.IndexOf(e, sep, z3.IntVal(0))
                L = z3.Length(e)
                head = z3.If(i < 0, e, z3.SubString(e, 0, i))
                mid = z3.If(i < 0, z3.StringVal(''), sep)
                tail = z3.If(i < 0, z3.StringVal(''), z3.SubString(e, i + len(args[0]), L - i - len(args[0])))
                I.used_lib.add('str.partition = prefix / separator / suffix around str.indexof')
                return (I.wrap(head), I.wrap(mid), I.wrap(tail))
            if n == 'find' and I._strish(args[0]):
                I.used_lib.add('str.find = str.indexof')
                start = I.ex(args[1]) if len(args) > 1 else z3.IntVal(0)
                return I.wrap(z3.IndexOf(e, I.ex(args[0]), start))
            if n == 'lower':
                return SymLower(r)
        if isinstance(r, (tuple, set, frozenset)) or True:
            if I._concrete(r) and all(I._concrete(a) for a in args):
                try:
                    return getattr(r, n)(*args, **kwargs)
                except Exception as ex:
                    raise PyRaise(type(ex).__name__, str(ex), node)
        raise CheckerError(f'method {n} on {r!r} with these arguments is not modelled (line {getattr(node, "lineno", "?")})')


class SymLower:
    def __init__(self, z):
        self.z = z


def _unsupported(what):
    raise CheckerError(f'{what} unsupported by this z3')


def _zstr(e):
    s = e.as_string()
    # z3 escapes non-ascii / special characters as \u{XXXX}
    import re as _re
    return _re.sub(r'\\u\{([0-9a-fA-F]+)\}', lambda m: chr(int(m.group(1), 16)), s)


def _pure_call(n):
    return isinstance(n.func, ast.Attribute) and n.func.attr in ('startswith', 'endswith') and not n.keywords


def _load(t):
    import copy
    t2 = copy.deepcopy(t)
    for n in ast.walk(t2):
        if hasattr(n, 'ctx'):
            n.ctx = ast.Load()
    return t2


import operator as _op
_PYOPS = {ast.Add: _op.add, ast.Sub: _op.sub, ast.Mult: _op.mul, ast.FloorDiv: _op.floordiv, ast.Mod: _op.mod, ast.Div: _op.truediv,
          ast.Pow: _op.pow}
_PYCMP = {ast.Lt: _op.lt, ast.LtE: _op.le, ast.Gt: _op.gt, ast.GtE: _op.ge}


# ---------------------------------------------------------------------- path exploration
class _PrefixStop(Exception):
    pass


def enumerate_prefixes(I: Interp, run, depth):
    """the decision prefixes of length <= depth that partition the paths (for distributing one function over processes)"""
    work, out = [[]], []
    while work:
        dec = work.pop()
        ctx = PathCtx(dec)
        ctx.abstract = I.w.abstract
        ctx.stop_at = depth
        I.ctx = ctx
        I.depth = 0
        try:
            run(ctx)
            out.append(list(ctx.decisions))
        except _PrefixStop:
            out.append(list(ctx.decisions))
        except Infeasible:
            pass
        work.extend(ctx.pending)
    uniq = []
    for p in out:
        if p not in uniq:
            uniq.append(p)
    return uniq


def explore(I: Interp, run, max_paths=MAX_PATHS, prefix=None):
    """run(ctx) executes the target once under the decisions of ctx; yields one outcome per feasible path.
    With `prefix`, only the paths whose decisions start with it."""
    work = [list(prefix or [])]
    plen = len(prefix or [])
    outcomes = []
    n = 0
    while work:
        dec = work.pop()
        n += 1
        if n > max_paths:
            raise CheckerError('path limit exceeded')
        ctx = PathCtx(dec)
        ctx.abstract = I.w.abstract
        I.ctx = ctx
        I.depth = 0
        try:
            kind, val = run(ctx)
        except Infeasible:
            work.extend(ctx.pending)
            continue
        work.extend(ctx.pending)
        outcomes.append(dict(kind=kind, value=val, pc=list(ctx.pc), obligations=ctx.obligations, decisions=list(ctx.decisions), ctx=ctx))
    if plen:
        # alternatives that flip a decision inside the prefix belong to another partition
        outcomes = [o for o in outcomes if o['decisions'][:plen] == list(prefix)]
    return outcomes
