"""DePyx: mechanical .pyx -> .py extraction for depccg/parsing.pyx (no semantic choices).

Rules (line oriented; a line no rule covers and that python cannot parse stops the run with CheckerError):
  1. `cimport` lines and `from ... cimport ...` lines are deleted.
  2. `cdef extern from ...:` blocks (the line and its indented body) are deleted.
  3. `cdef <type> name(<typed params>) [except ...|noexcept]:`  ->  `def name(<param names>):`
  4. `cdef <type> x` -> `x = __c_default__("<type>")`;  `cdef <type> x = e` -> `x = e`;  `cdef <type> a, b` -> one default each.
  5. typed parameters of `def` lose their type; casts `<...>` are erased; `&x` -> `x`; `NULL` -> `None`; a trailing `;` is dropped.
What is dropped: C types, pointer-ness, exception specifications.  C behaviour that matters is restored by the shim the
harness injects (unsigned wrap-around of pair fields, `cache[0]`, `token_id[0]`).
"""
import ast
import os
import re

try:
    from .sorts import CheckerError, REPO
except Exception:        # used from the replay interpreter, which has no z3
    REPO = os.environ.get('VERIF_REPO', '/repo')

    class CheckerError(Exception):
        pass

CTYPE = r'(?:const\s+)?(?:unsigned\s+int|unsigned|int|float|double|bint|list|dict|object|void|str|bytes|size_t|' \
        r'np\.ndarray\[[^\]]*\]|[A-Za-z_][A-Za-z0-9_]*(?:\[[^\]]*\])?)(?:\s*\*+|\s*&|\s+)'


def _split_params(s):
    out, depth, cur = [], 0, ''
    for ch in s:
        if ch in '([':
            depth += 1
        elif ch in ')]':
            depth -= 1
        if ch == ',' and depth == 0:
            out.append(cur)
            cur = ''
        else:
            cur += ch
    if cur.strip():
        out.append(cur)
    return out


def _param_name(p):
    p = p.strip()
    if not p:
        return p
    if p.startswith('*'):
        return p
    default = ''
    if '=' in p:
        p, default = p.split('=', 1)
        default = '=' + default.strip()
        p = p.strip()
    name = re.split(r'[\s\*&]+', p)[-1]
    return name + default


def convert(text):
    dropped = []
    out = []
    lines = text.split('\n')
    i = 0
    while i < len(lines):
        ln = lines[i]
        st = ln.strip()
        ind = ln[:len(ln) - len(ln.lstrip())]
        if re.match(r'(from\s+\S+\s+)?cimport\s', st):
            dropped.append(st)
            out.append(ind + '# [depyx] ' + st)
            i += 1
            continue
        if re.match(r'cdef\s+extern\s+from\b', st):
            dropped.append(st)
            out.append(ind + '# [depyx] ' + st)
            i += 1
            while i < len(lines) and (lines[i].strip() == '' or len(lines[i]) - len(lines[i].lstrip()) > len(ind)):
                if lines[i].strip():
                    dropped.append(lines[i].strip())
                out.append('# [depyx] ' + lines[i].strip() if lines[i].strip() else '')
                i += 1
            continue
        # function headers may span several lines: join until the colon that ends the header
        if re.match(r'(cdef|def|cpdef)\s', st) and '(' in st and not st.rstrip().endswith(':'):
            j = i
            acc = ln
            while j + 1 < len(lines) and not re.search(r'\)\s*(?:->[^:]*|noexcept|except\s*[^:]*)?\s*:\s*$', acc):
                j += 1
                acc += ' ' + lines[j].strip()
            if re.search(r':\s*$', acc):
                blank = j - i
                ln, st = acc, acc.strip()
                i = j
                pad = blank
            else:
                pad = 0
        else:
            pad = 0
        m = re.match(r'(cdef|cpdef)\s+(?:inline\s+)?(?:' + CTYPE + r'\s*)?([A-Za-z_][A-Za-z0-9_]*)\s*\((.*)\)\s*(noexcept|except\s*[^:]*)?\s*:\s*$', st)
        if m:
            params = ', '.join(_param_name(p) for p in _split_params(m.group(3)))
            dropped.append(f'signature types / exception spec of {m.group(2)}: {st}')
            out.append(f'{ind}def {m.group(2)}({params}):')
            out.extend([''] * pad)
            i += 1
            continue
        m = re.match(r'def\s+([A-Za-z_][A-Za-z0-9_]*)\s*\((.*)\)\s*(->\s*[^:]+)?:\s*$', st)
        if m and re.search(r'(^|,)\s*(?:' + CTYPE + r')[A-Za-z_]', m.group(2)):
            params = ', '.join(_param_name(p) for p in _split_params(m.group(2)))
            dropped.append(f'parameter types of {m.group(1)}')
            out.append(f'{ind}def {m.group(1)}({params}){m.group(3) or ""}:')
            out.extend([''] * pad)
            i += 1
            continue
        m = re.match(r'cdef\s+([A-Za-z_][A-Za-z0-9_]*(?:\s*,\s*[A-Za-z_][A-Za-z0-9_]*)+)$', st.rstrip(';'))
        if m:       # `cdef cat_id, rule_id` : untyped C declarations
            names = [n.strip() for n in m.group(1).split(',')]
            out.append(ind + '; '.join(f'{n} = None' for n in names))
            dropped.append(f'untyped cdef of {", ".join(names)}')
            i += 1
            continue
        m = re.match(r'cdef\s+(' + CTYPE + r')(?<=[\s\*&\]])\s*([A-Za-z_][A-Za-z0-9_]*(?:\s*,\s*[A-Za-z_][A-Za-z0-9_]*)*)\s*(=\s*(.*))?$', st.rstrip(';'))
        if m:
            names = [n.strip() for n in m.group(2).split(',')]
            ty = m.group(1).strip()
            if m.group(4) is not None and len(names) == 1:
                out.append(f'{ind}{names[0]} = {_expr(m.group(4))}')
            else:
                out.append(ind + '; '.join(f'{n} = __c_default__({ty!r})' for n in names))
            dropped.append(f'declaration type {ty} of {", ".join(names)}')
            i += 1
            continue
        out.append(ind + _expr(ln[len(ind):]) if st else ln)
        i += 1
    src = '\n'.join(out)
    try:
        ast.parse(src)
    except SyntaxError as e:
        raise CheckerError(f'depyx: no rule for parsing.pyx line {e.lineno}: {(e.text or "").strip()}')
    return src, dropped


def _expr(s):
    s = re.sub(r'<\s*[A-Za-z_][A-Za-z0-9_\.]*\s*\**\s*>', '', s)        # casts
    s = re.sub(r'(?<![A-Za-z0-9_\)\]])&(?=[A-Za-z_])', '', s)            # address-of
    s = re.sub(r'\bNULL\b', 'None', s)
    s = re.sub(r';\s*$', '', s)
    return s


def load(rel='depccg/parsing.pyx'):
    path = os.path.join(REPO, rel)
    if not os.path.exists(path):
        raise CheckerError(f'{rel} not found')
    return convert(open(path, encoding='utf-8').read())


if __name__ == '__main__':
    src, dropped = load()
    print(src)
