"""Real-code harness for depccg/parsing.h + parsing.pyx (replay and bounded stand-ins; runs under /venv/bin/python).

* parsing.h is compiled as it stands in the working tree together with shim.cpp (g++, temp directory outside /repo and /verif,
  removed at exit) and loaded with ctypes;
* the Python side of the extension is the DePyx text of parsing.pyx (vc/depyx.py), executed with a shim for the C-level names
  (`__c_default__`, `parse_sentence`, `UINT_MAX`); tqdm is replaced by the identity.
Pops are observed through the guarded hook of parsing.h when it is present (DEPCCG_VERIF=1)."""
import atexit
import ctypes
import os
import re
import shutil
import subprocess
import sys
import tempfile
import types

REPO = os.environ.get('VERIF_REPO', '/repo')
HDR = os.path.join(REPO, 'depccg/parsing.h')

SHIM = r'''
#include <climits>
#include <cstdlib>
#include <cstring>
#include "%(hdr)s"
extern "C" {
typedef int (*py_rules_cb)(unsigned x, unsigned y, void *results);
typedef unsigned (*py_fin_cb)(parsing::cell_item *item, unsigned *token_id);
static int shim_scaffold(void *cb, unsigned x, unsigned y, std::vector<combinator_result> *results) {
    return ((py_rules_cb)cb)(x, y, (void *)results);
}
static py_fin_cb g_fin;
static unsigned shim_finalizer(parsing::cell_item *item, unsigned *tok, cache_type *cache, void *args) { return g_fin(item, tok); }
void shim_push_result(void *results, unsigned cat_id, unsigned rule_id, int head_is_left, const char *op_string, const char *op_symbol) {
    combinator_result r;
    r.cat_id = cat_id; r.rule_id = rule_id; r.head_is_left = (head_is_left != 0); r.op_string = op_string; r.op_symbol = op_symbol;
    ((std::vector<combinator_result> *)results)->push_back(r);
}
void *shim_new_cache() { return new cache_type(); }
int shim_cache_len(void *c, unsigned x, unsigned y) {
    auto *cc = (cache_type *)c;
    std::pair<unsigned, unsigned> key(x, y);
    if (cc->count(key) == 0) return -1;
    return (int)cc->at(key).size();
}
int shim_cache_entry(void *c, unsigned x, unsigned y, unsigned i, unsigned *cat_id, unsigned *rule_id, int *head_is_left, char *op_string, char *op_symbol, unsigned buflen) {
    auto *cc = (cache_type *)c;
    std::pair<unsigned, unsigned> key(x, y);
    if (cc->count(key) == 0 || i >= cc->at(key).size()) return -1;
    const combinator_result &r = cc->at(key)[i];
    *cat_id = r.cat_id; *rule_id = r.rule_id; *head_is_left = r.head_is_left ? 1 : 0;
    std::strncpy(op_string, r.op_string.c_str(), buflen - 1); op_string[buflen - 1] = 0;
    std::strncpy(op_symbol, r.op_symbol.c_str(), buflen - 1); op_symbol[buflen - 1] = 0;
    return 0;
}
void shim_free_cache(void *c) { delete (cache_type *)c; }
unsigned shim_sizeof_item() { return sizeof(parsing::cell_item); }
static config g_config;
/* the config object parse_sentence was given, as it is after the call (parsing.pyx passes one config to every sentence of a run: writes persist) */
void shim_config_after(unsigned *num_tags, float *unary_penalty, float *beta, int *use_beta, unsigned *pruning_size, unsigned *nbest, unsigned *max_step) {
    *num_tags = g_config.num_tags; *unary_penalty = g_config.unary_penalty; *beta = g_config.beta; *use_beta = g_config.use_beta ? 1 : 0;
    *pruning_size = g_config.pruning_size; *nbest = g_config.nbest; *max_step = g_config.max_step;
}
int shim_parse(float *tag, float *dep, unsigned length, unsigned *roots, unsigned nroots, py_rules_cb bin, py_rules_cb un, py_fin_cb fin,
               void *cache, unsigned num_tags, float unary_penalty, float beta, int use_beta, unsigned pruning_size, unsigned nbest, unsigned max_step) {
    std::unordered_set<unsigned> rs(roots, roots + nroots);
    config &c = g_config;
    c.num_tags = num_tags; c.unary_penalty = unary_penalty; c.beta = beta; c.use_beta = (use_beta != 0);
    c.pruning_size = pruning_size; c.nbest = nbest; c.max_step = max_step;
    g_fin = fin;
    try {
        return (int)parse_sentence(tag, dep, length, rs, (void *)bin, (void *)un, shim_finalizer, shim_scaffold, nullptr, (cache_type *)cache, &c);
    } catch (std::exception &e) {
        return -1;
    }
}
#ifdef SHIM_HAVE_HOOK
typedef void (*py_pop_cb)(parsing::cell_item *);
void shim_set_pop_hook(py_pop_cb cb) { depccg_verif_pop_hook = cb; }
#endif
}
'''

_LIB = None
_TMP = None


def cell_fields():
    """(name, type[, bits]) of the data members of struct cell_item, in declaration order: comments are stripped, bit-fields (`unsigned x : 8`) keep their width"""
    txt = open(HDR).read()
    txt = re.sub(r'/\*.*?\*/', ' ', txt, flags=re.S)
    txt = re.sub(r'//[^\n]*', ' ', txt)
    m = re.search(r'struct\s+cell_item\s*\{(.*?)\n\s*(?:inline\s+)?float\s+score\s*\(', txt, re.S)
    if not m:
        raise RuntimeError('cannot find struct cell_item in parsing.h')
    out = []
    for ln in m.group(1).split(';'):
        ln = ' '.join(ln.split())
        if not ln:
            continue
        mm = re.match(r'(bool|float|unsigned int|unsigned|category_id|cell_item\s*\*)\s*(\w+)\s*(?::\s*(\d+))?$', ln)
        if not mm:
            raise RuntimeError(f'unrecognised field declaration in cell_item: {ln}')
        ty = mm.group(1).replace(' ', '').replace('unsignedint', 'unsigned')
        out.append((mm.group(2), ty) + ((int(mm.group(3)),) if mm.group(3) else ()))
    return out


class CellItem(ctypes.Structure):
    pass


def _define_struct():
    ct = {'bool': ctypes.c_bool, 'float': ctypes.c_float, 'unsigned': ctypes.c_uint, 'category_id': ctypes.c_uint, 'cell_item*': ctypes.POINTER(CellItem)}
    # a bit-field of type bool is read as an unsigned bit-field (ctypes has no bool bit-fields; the storage unit is shared with its unsigned neighbours under the Itanium ABI)
    CellItem._fields_ = [((f[0], ct[f[1]]) if len(f) == 2 else (f[0], ctypes.c_uint if f[1] in ('bool', 'unsigned', 'category_id') else ct[f[1]], f[2])) for f in cell_fields()]


RULES_CB = ctypes.CFUNCTYPE(ctypes.c_int, ctypes.c_uint, ctypes.c_uint, ctypes.c_void_p)
FIN_CB = ctypes.CFUNCTYPE(ctypes.c_uint, ctypes.POINTER(CellItem), ctypes.POINTER(ctypes.c_uint))
POP_CB = ctypes.CFUNCTYPE(None, ctypes.POINTER(CellItem))


def lib():
    global _LIB, _TMP
    if _LIB is not None:
        return _LIB
    _define_struct()
    _TMP = tempfile.mkdtemp(prefix='depccg_shim.')
    atexit.register(lambda: shutil.rmtree(_TMP, ignore_errors=True))
    src = os.path.join(_TMP, 'shim.cpp')
    have_hook = 'depccg_verif_pop_hook' in open(HDR).read()
    open(src, 'w').write(SHIM % dict(hdr=HDR))
    so = os.path.join(_TMP, 'shim.so')
    cmd = ['g++', '-std=c++14', '-O1', '-shared', '-fPIC', '-o', so, src] + (['-DSHIM_HAVE_HOOK'] if have_hook else [])
    p = subprocess.run(cmd, capture_output=True, text=True)
    if p.returncode != 0:
        raise RuntimeError('parsing.h does not compile: ' + p.stderr[-1500:])
    L = ctypes.CDLL(so)
    L.shim_new_cache.restype = ctypes.c_void_p
    L.shim_free_cache.argtypes = [ctypes.c_void_p]
    L.shim_cache_len.argtypes = [ctypes.c_void_p, ctypes.c_uint, ctypes.c_uint]
    L.shim_cache_len.restype = ctypes.c_int
    L.shim_cache_entry.argtypes = [ctypes.c_void_p, ctypes.c_uint, ctypes.c_uint, ctypes.c_uint, ctypes.POINTER(ctypes.c_uint), ctypes.POINTER(ctypes.c_uint),
                                   ctypes.POINTER(ctypes.c_int), ctypes.c_char_p, ctypes.c_char_p, ctypes.c_uint]
    L.shim_cache_entry.restype = ctypes.c_int
    L.shim_push_result.argtypes = [ctypes.c_void_p, ctypes.c_uint, ctypes.c_uint, ctypes.c_int, ctypes.c_char_p, ctypes.c_char_p]
    L.shim_parse.argtypes = [ctypes.c_void_p, ctypes.c_void_p, ctypes.c_uint, ctypes.POINTER(ctypes.c_uint), ctypes.c_uint, RULES_CB, RULES_CB, FIN_CB,
                             ctypes.c_void_p, ctypes.c_uint, ctypes.c_float, ctypes.c_float, ctypes.c_int, ctypes.c_uint, ctypes.c_uint, ctypes.c_uint]
    L.shim_parse.restype = ctypes.c_int
    L.shim_config_after.argtypes = [ctypes.POINTER(ctypes.c_uint), ctypes.POINTER(ctypes.c_float), ctypes.POINTER(ctypes.c_float), ctypes.POINTER(ctypes.c_int),
                                    ctypes.POINTER(ctypes.c_uint), ctypes.POINTER(ctypes.c_uint), ctypes.POINTER(ctypes.c_uint)]
    if L.shim_sizeof_item() != ctypes.sizeof(CellItem):
        raise RuntimeError('ctypes layout of cell_item differs from the compiled one')
    L.have_hook = have_hook
    if have_hook:
        L.shim_set_pop_hook.argtypes = [POP_CB]
        os.environ['DEPCCG_VERIF'] = '1'
    _LIB = L
    return L


def item_to_py(p):
    """copies the derivation below a cell_item into nested dicts (the C++ memory is released when parse_sentence returns)"""
    if not p:
        return None
    it = p.contents
    d = {n: getattr(it, n) for n, *_ in CellItem._fields_ if n not in ('left', 'right')}
    d['left'] = item_to_py(it.left)
    d['right'] = item_to_py(it.right)
    return d


class Cache:
    def __init__(self):
        self.handle = lib().shim_new_cache()
        self.py = {}          # mirror: (x, y) -> list of records, filled exactly when the C++ side misses its cache

    def close(self):
        if self.handle:
            lib().shim_free_cache(self.handle)
            self.handle = None


def parse_raw(tag, dep, length, roots, binary, unary, cache=None, num_tags=None, unary_penalty=0.1, beta=0.00001, use_beta=True, pruning_size=50,
              nbest=1, max_step=10000000, on_scaffold=None):
    """one call of the real parse_sentence.  binary(x, y) / unary(x) -> list of (cat_id, rule_id, head_is_left, op_string, op_symbol).
    returns (status, [derivation dicts in finalizer order], [popped items as dicts without children])"""
    import numpy
    L = lib()
    tag = numpy.ascontiguousarray(tag, dtype=numpy.float32)
    dep = numpy.ascontiguousarray(dep, dtype=numpy.float32)
    own = cache is None
    cache = cache or Cache()
    outs, pops, errors = [], [], []

    def mk(fn, is_unary):
        def cb(x, y, results):
            try:
                rs = fn(x) if is_unary else fn(x, y)
                recs = []
                for r in rs:
                    cat_id, rule_id, hil, s1, s2 = r
                    L.shim_push_result(results, cat_id, rule_id, 1 if hil else 0, s1.encode('utf-8') if isinstance(s1, str) else s1,
                                       s2.encode('utf-8') if isinstance(s2, str) else s2)
                    recs.append(r)
                cache.py[(x, y)] = recs
                return 0
            except Exception as e:       # noqa
                errors.append(repr(e))
                return -1
        return RULES_CB(cb)

    def fin(item, tok):
        outs.append(item_to_py(item))
        return 0
    bcb, ucb, fcb = mk(binary, False), mk(unary, True), FIN_CB(fin)
    if L.have_hook:
        def pop(p):
            it = p.contents
            pops.append({n: getattr(it, n) for n, *_ in CellItem._fields_ if n not in ('left', 'right')})
        pcb = POP_CB(pop)
        L.shim_set_pop_hook(pcb)
    rs = (ctypes.c_uint * max(1, len(roots)))(*roots)
    status = L.shim_parse(tag.ctypes.data_as(ctypes.c_void_p), dep.ctypes.data_as(ctypes.c_void_p), length, rs, len(roots), bcb, ucb, fcb, cache.handle,
                          num_tags if num_tags is not None else tag.shape[1], unary_penalty, beta, 1 if use_beta else 0, pruning_size, nbest, max_step)
    if L.have_hook:
        L.shim_set_pop_hook(POP_CB(0))
    if own:
        cache.close()
    if errors:
        raise RuntimeError('callback failed: ' + errors[0])
    return status, outs, pops


# ------------------------------------------------------------------ the pyx level
class _Rec:
    def __init__(self, **kw):
        self.__dict__.update(kw)

    def copy(self):
        return _Rec(**self.__dict__)


class _Pair:
    first = 0
    second = 0

    def key(self):
        return (self.first & 0xFFFFFFFF, self.second & 0xFFFFFFFF)      # the fields are C `unsigned`: -1 is UINT_MAX


class _CVec:
    """cache[0][key]: the vector stored in the REAL C++ cache (not a python mirror)"""
    def __init__(self, cache, key):
        self.cache, self.key = cache, key

    def __len__(self):
        return max(0, lib().shim_cache_len(self.cache.handle, self.key[0], self.key[1]))

    def __getitem__(self, i):
        a, b, h = ctypes.c_uint(), ctypes.c_uint(), ctypes.c_int()
        s1, s2 = ctypes.create_string_buffer(256), ctypes.create_string_buffer(256)
        if i < 0 or lib().shim_cache_entry(self.cache.handle, self.key[0], self.key[1], i, ctypes.byref(a), ctypes.byref(b), ctypes.byref(h), s1, s2, 256) != 0:
            raise IndexError(f'rule index {i} outside the cached result vector of {self.key} (undefined behaviour in C++)')
        return _Rec(cat_id=a.value, rule_id=b.value, head_is_left=bool(h.value), op_string=s1.value, op_symbol=s2.value)


class _PyCache:
    def __init__(self, cache):
        self.cache = cache

    def __getitem__(self, k):
        key = k.key() if isinstance(k, _Pair) else k
        if lib().shim_cache_len(self.cache.handle, key[0], key[1]) < 0:
            raise KeyError(f'{key} not in the rule cache (operator[] would insert an empty vector in C++)')
        return _CVec(self.cache, key)


class _Vec(list):
    def push_back(self, r):
        self.append(r.copy())           # C++ copies the struct


class _USet(set):
    def insert(self, x):
        self.add(x)


class _CItem:
    """view of a cell_item pointer for the DePyx text of retrieve_tree"""
    def __init__(self, p):
        self._p = p
        it = p.contents
        for n, *_ in CellItem._fields_:
            if n not in ('left', 'right'):
                setattr(self, n, getattr(it, n))
        self.left = _CItem(it.left) if it.left else None
        self.right = _CItem(it.right) if it.right else None

    def score(self):
        return ctypes.c_float(self.in_score + self.out_score).value


class _CacheHandle:
    def __init__(self):
        self.c = Cache()


def pyx_module():
    """the DePyx text of parsing.pyx as a module object, C-level names provided by this file"""
    from vc import depyx
    src, dropped = depyx.load()
    if 'tqdm' not in sys.modules:
        t = types.ModuleType('tqdm')
        t.tqdm = lambda it, **kw: it
        sys.modules['tqdm'] = t
    mod = types.ModuleType('depccg__parsing_depyx')
    g = mod.__dict__

    def c_default(ty):
        ty = ty.strip()
        if ty == 'list':
            return []
        if ty.startswith('pair'):
            return _Pair()
        if ty in ('combinator_result', 'config'):
            return _Rec()
        if ty.startswith('unordered_set'):
            return _USet()
        if ty == 'cache_type':
            return _CacheHandle()
        if ty in ('unsigned', 'int', 'bint'):
            return 0
        return None

    def parse_sentence(c_tag, c_dep, length, roots, binary_callback, unary_callback, retrieve_tree, scaffold, finalizer_args, c_cache, c_config):
        import numpy
        L = lib()
        cache = c_cache.c
        errors = []

        def mk(pycb):
            def cb(x, y, results):
                try:
                    vec = _Vec()
                    scaffold(pycb, x, y, vec)
                    for r in vec:
                        L.shim_push_result(results, r.cat_id, r.rule_id, 1 if r.head_is_left else 0, r.op_string, r.op_symbol)
                    cache.py[(x, y)] = list(vec)
                    return 0
                except Exception as e:   # noqa
                    errors.append(repr(e))
                    return -1
            return RULES_CB(cb)

        def fin(item, tok):
            try:
                token_id = [tok.contents.value]
                retrieve_tree(_CItem(item), token_id, [_PyCache(cache)], finalizer_args)
                return 0
            except Exception as e:       # noqa
                errors.append('finalizer: ' + repr(e))
                return 0
        tag = numpy.frombuffer(c_tag, dtype=numpy.float32) if not isinstance(c_tag, numpy.ndarray) else c_tag
        dep = numpy.frombuffer(c_dep, dtype=numpy.float32) if not isinstance(c_dep, numpy.ndarray) else c_dep
        tag = numpy.ascontiguousarray(tag, dtype=numpy.float32)
        dep = numpy.ascontiguousarray(dep, dtype=numpy.float32)
        rl = sorted(roots)
        rs = (ctypes.c_uint * max(1, len(rl)))(*rl)
        bcb, ucb, fcb = mk(binary_callback), mk(unary_callback), FIN_CB(fin)
        pops = []
        if L.have_hook and g.get('__pop_log__') is not None:
            def pop(p):
                it = p.contents
                g['__pop_log__'].append({n: getattr(it, n) for n, *_ in CellItem._fields_ if n not in ('left', 'right')})
            pcb = POP_CB(pop)
            L.shim_set_pop_hook(pcb)
        status = L.shim_parse(tag.ctypes.data_as(ctypes.c_void_p), dep.ctypes.data_as(ctypes.c_void_p), length & 0xFFFFFFFF, rs, len(rl), bcb, ucb, fcb,
                              cache.handle, c_config.num_tags, c_config.unary_penalty, c_config.beta, 1 if c_config.use_beta else 0,
                              c_config.pruning_size, c_config.nbest, c_config.max_step)
        if L.have_hook:
            L.shim_set_pop_hook(POP_CB(0))
        # parsing.pyx hands the same config object to every sentence of a run: what parse_sentence wrote into it stays written
        nt, up, be, ub, ps, nb, ms = (ctypes.c_uint(), ctypes.c_float(), ctypes.c_float(), ctypes.c_int(), ctypes.c_uint(), ctypes.c_uint(), ctypes.c_uint())
        L.shim_config_after(nt, up, be, ub, ps, nb, ms)
        for name, before, after in (('num_tags', c_config.num_tags, nt.value), ('use_beta', 1 if c_config.use_beta else 0, ub.value),
                                    ('pruning_size', c_config.pruning_size, ps.value), ('nbest', c_config.nbest, nb.value), ('max_step', c_config.max_step, ms.value)):
            if before != after:
                setattr(c_config, name, bool(after) if name == 'use_beta' else after)
        if ctypes.c_float(c_config.unary_penalty).value != up.value:
            c_config.unary_penalty = up.value
        if ctypes.c_float(c_config.beta).value != be.value:
            c_config.beta = be.value
        if errors:
            raise RuntimeError(errors[0])
        if status < 0:
            raise RuntimeError('some error has occurred in the callback Python function.')
        return status
    g.update(__c_default__=c_default, parse_sentence=parse_sentence, UINT_MAX=0xFFFFFFFF, __pop_log__=None, __depyx_dropped__=dropped)
    exec(compile(src, os.path.join(REPO, 'depccg/parsing.pyx') + ' [depyx]', 'exec'), g)
    return mod
