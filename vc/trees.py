"""Real printers / readers of the working tree + derivation generators + independent spec decoders
(for the bounded stand-ins of C07, C08, C15, C18, C19, C20; runs under /venv/bin/python).

The package depccg.printer cannot be imported as a package here (its __init__ pulls chainer/allennlp/nltk): the sub-modules are
imported under an empty stand-in package, and `to_string` is taken from the __init__ source by ast (function definitions and the
_formatters table only; the ccg2lambda formats are out of reach)."""
import ast
import copy
import io
import json
import os
import random
import re
import sys
import types

REPO = os.environ.get('VERIF_REPO', '/repo')

_pk = types.ModuleType('depccg.printer')
_pk.__path__ = [os.path.join(REPO, 'depccg/printer')]
sys.modules.setdefault('depccg.printer', _pk)

from depccg.cat import Category, Atom, Functor, UnaryFeature, TernaryFeature     # noqa: E402
from depccg.tree import Tree, ScoredTree                                            # noqa: E402
from depccg.types import Token, CombinatorResult                                     # noqa: E402
from depccg.grammar import en, ja                                                    # noqa: E402
import depccg.lang as lang                                                           # noqa: E402
from depccg.printer import auto, conll, deriv, html, ptb, xml, jigg_xml, my_json, prolog   # noqa: E402
from depccg.printer import ja as ja_printer                                          # noqa: E402
from depccg.tools import reader                                                      # noqa: E402
from depccg.tools.ja import reader as ja_reader                                      # noqa: E402
from lxml import etree                                                               # noqa: E402


def load_to_string():
    src = open(os.path.join(REPO, 'depccg/printer/__init__.py'), encoding='utf-8').read()
    tree = ast.parse(src)
    # every top-level statement of the module is kept (functions, tables, constants); its imports are tried one by one - those that need optional third-party
    # packages fail and the names they would bind are the stand-ins below (bound first, so a successful import overrides them)
    imports = [n for n in tree.body if isinstance(n, (ast.Import, ast.ImportFrom))]
    keep = [n for n in tree.body if not isinstance(n, (ast.Import, ast.ImportFrom))]
    mod = ast.Module(body=keep, type_ignores=[])
    g = dict(json=json, StringIO=io.StringIO, etree=etree, ScoredTree=ScoredTree, get_global_language=lang.get_global_language,
             SEMANTIC_TEMPLATES={}, ccg2lambda=None, to_mathml=html.to_mathml, to_jigg_xml=jigg_xml.to_jigg_xml, to_prolog_en=prolog.to_prolog_en,
             to_prolog_ja=prolog.to_prolog_ja, xml_of=xml.xml_of, ja_of=ja_printer.ja_of, conll_of=conll.conll_of, json_of=my_json.json_of, deriv_of=deriv.deriv_of,
             ptb_of=ptb.ptb_of, auto_of=auto.auto_of, auto_extended_of=auto.auto_extended_of)
    import typing
    g.update(List=typing.List, Optional=typing.Optional, Union=typing.Union)
    g['__name__'] = 'depccg.printer'
    g['__package__'] = 'depccg.printer'
    for imp in imports:
        standins = dict(g)
        try:
            exec(compile(ast.Module(body=[imp], type_ignores=[]), 'depccg/printer/__init__.py[import]', 'exec'), g)
        except Exception:       # noqa  (chainer / nltk / simplejson missing here)
            pass
        for k in ('ccg2lambda', 'SEMANTIC_TEMPLATES'):
            g[k] = standins[k]          # the semantics back end is never available here: keep the stand-ins
    exec(compile(mod, os.path.join(REPO, 'depccg/printer/__init__.py'), 'exec'), g)
    return g['to_string']


to_string = load_to_string()


def cli_formats():
    """format lists offered by the CLI, read from depccg/argparse.py"""
    src = open(os.path.join(REPO, 'depccg/argparse.py'), encoding='utf-8').read()
    tree = ast.parse(src)
    out = {}
    for n in ast.walk(tree):
        if isinstance(n, ast.Call) and getattr(n.func, 'attr', None) == 'add_argument' and any(isinstance(a, ast.Constant) and a.value == '--format' for a in n.args):
            who = getattr(n.func.value, 'id', '')
            for kw in n.keywords:
                if kw.arg == 'choices':
                    out['en' if 'english' in who else 'ja'] = [e.value for e in kw.value.elts]
    return out


UNREACHABLE = ('ccg2lambda', 'jigg_xml_ccg2lambda')        # need nltk / yaml / the template engine


def load_ccg2lambda_tools():
    """build_ccg_tree / normalize_tokens / normalize_token / find_node_by_id extracted by ast (their modules import nltk, simplejson, yaml)"""
    g = dict(copy=copy, re=re, etree=etree)
    for rel, names in (('depccg/semantics/ccg2lambda/normalization.py', ['normalize_token']),
                       ('depccg/semantics/ccg2lambda/semantic_index.py', ['find_node_by_id']),
                       ('depccg/semantics/ccg2lambda/ccg2lambda_tools.py', ['build_ccg_tree', 'normalize_tokens'])):
        tree = ast.parse(open(os.path.join(REPO, rel), encoding='utf-8').read())
        keep = [n for n in tree.body if isinstance(n, ast.FunctionDef) and n.name in names]
        if len(keep) != len(names):
            raise RuntimeError(f'{rel}: functions {names} not found')
        exec(compile(ast.Module(body=keep, type_ignores=[]), os.path.join(REPO, rel), 'exec'), g)
    g['semantic_index'] = types.SimpleNamespace(find_node_by_id=g['find_node_by_id'])
    return g


# ------------------------------------------------------------------ label vocabulary of the grammars (harvested from source)
def grammar_labels(which):
    src = open(os.path.join(REPO, f'depccg/grammar/{which}.py'), encoding='utf-8').read()
    tree = ast.parse(src)
    binary, unary = set(), set()
    # labels kept as immutable module-level constants: NAME = ("fa", ">")
    for st in tree.body:
        if isinstance(st, ast.Assign) and isinstance(st.value, ast.Tuple) and len(st.value.elts) == 2 and all(isinstance(e, ast.Constant) and isinstance(e.value, str) for e in st.value.elts):
            binary.add((st.value.elts[0].value, st.value.elts[1].value))
    for fn in tree.body:
        if not isinstance(fn, ast.FunctionDef):
            continue
        for n in ast.walk(fn):
            if isinstance(n, ast.Call):
                # a result built directly (keywords op_string / op_symbol) or through a helper that takes the label and the symbol as two consecutive
                # string literals (e.g. _make_result(cat, "fa", ">"))
                kw = {k.arg: k.value for k in n.keywords}
                s1, s2 = kw.get('op_string'), kw.get('op_symbol')
                if isinstance(s1, ast.Constant) and isinstance(s2, ast.Constant) and isinstance(s1.value, str) and isinstance(s2.value, str):
                    binary.add((s1.value, s2.value))
                for a, b in zip(n.args, n.args[1:]):
                    if isinstance(a, ast.Constant) and isinstance(b, ast.Constant) and isinstance(a.value, str) and isinstance(b.value, str) \
                            and getattr(n.func, 'id', '') not in ('Unification', 'print') and not isinstance(n.func, ast.Attribute):
                        binary.add((a.value, b.value))
        if fn.name == '_unary_rule_symbol':
            for n in ast.walk(fn):
                if isinstance(n, ast.Return) and isinstance(n.value, ast.Constant):
                    unary.add((n.value.value, n.value.value))
    if which == 'en':
        unary |= {('tr', '<un>'), ('lex', '<un>')}
        binary = {b for b in binary if b[1] != '<un>'}
    return sorted(binary), sorted(unary)


# ------------------------------------------------------------------ derivations
EN_LEX = {
    'John': ['NP', 'N'], 'Mary': ['NP', 'N'], 'dog': ['N'], 'the': ['NP[nb]/N'], 'likes': ['(S[dcl]\\NP)/NP', 'S[dcl]\\NP'], 'runs': ['S[dcl]\\NP'],
    'quickly': ['(S\\NP)\\(S\\NP)', '(S\\NP)/(S\\NP)'], 'and': ['conj'], ',': [','], '.': ['.'], 'big': ['N/N'], 'in': ['(NP\\NP)/NP', '((S\\NP)\\(S\\NP))/NP'],
    'that': ['(NP\\NP)/(S[dcl]/NP)', 'S[em]/S[dcl]'], 'says': ['(S[dcl]\\NP)/S[em]', '(S[dcl]\\NP)/S[dcl]'],
}
JA_LEX = {
    '太郎': ['NP[case=nc,mod=nm,fin=f]'], 'が': ['NP[case=ga,mod=nm,fin=f]\\NP[case=nc,mod=nm,fin=f]'], 'を': ['NP[case=o,mod=nm,fin=f]\\NP[case=nc,mod=nm,fin=f]'],
    '本': ['NP[case=nc,mod=nm,fin=f]'], '読む': ['(S[mod=nm,form=base,fin=f]\\NP[case=ga,mod=nm,fin=f])\\NP[case=o,mod=nm,fin=f]', 'S[mod=nm,form=base,fin=f]\\NP[case=ga,mod=nm,fin=f]'],
    '走る': ['S[mod=nm,form=base,fin=f]\\NP[case=ga,mod=nm,fin=f]', 'S[mod=adn,form=base,fin=f]\\NP[case=ga,mod=nm,fin=f]'],
    '。': ['S[mod=nm,form=base,fin=t]\\S[mod=nm,form=base,fin=f]'], 'た': ['S[mod=nm,form=base,fin=f]\\S[mod=nm,form=base,fin=f]'],
    '赤い': ['NP[case=nc,mod=X1,fin=X2]/NP[case=nc,mod=X1,fin=X2]', 'S[mod=adn,form=base,fin=f]'],
}
ADVERSARIAL = ['(', ')', '[', ']', '{', '}', '<', '>', 'a<b', 'x>y', '&', 'R&D', '"', "'", "it's", '/', 'a/b', 'naïve', '日本', '<L', 'T>', '|', '-LRB-', '.', ',', '!', 'a-b', '-', 'a.b', '100%', '#', 'a=b', 'see-LRB-s-RRB-', 'a-RAB-b', '-LCB-x', 'x-RCB-', '-LAB-', 'p-LSB-q-RSB-',
               # brackets inside longer tokens (unbalanced within the token), and characters outside the Basic Multilingual Plane
               ':-(', 'a(b', ':)', 'f(x)', ')x(', '[a', 'b]', '{c', '\U00020bb7', '\U0001f600', 'a\U0001f600b']


def jsonnet_table(name, key):
    from vc import jsonnet_lite
    try:
        return jsonnet_lite.load(os.path.join(REPO, 'depccg/models', name))[key]
    except Exception:
        return []


def unary_table(which):
    t = {}
    for k, v in jsonnet_table(f'unary_rules.{which}.jsonnet', 'unary_rules'):
        t.setdefault(Category.parse(k), []).append(Category.parse(v))
    return t


def en_token(word, rng, rich=True):
    if rich:
        return Token(word=word, lemma=word.lower() if word.isalpha() else 'XX', pos=rng.choice(['NN', 'VBZ', 'DT', ',', 'XX']), entity=rng.choice(['O', 'I-PER', 'XX']), chunk=rng.choice(['I-NP', 'XX']))
    return Token.of_word(word)


def ja_token(word, rng):
    return Token(word=word, surf=word, pos=rng.choice(['名詞', '動詞', '助詞']), pos1=rng.choice(['*', '一般']), pos2='*', pos3='*', inflectionForm=rng.choice(['*', '基本形']),
                 inflectionType=rng.choice(['*', '五段']), reading='*', base=word)


def random_derivation(which, rng, max_len=4, words=None, tries=60):
    """a derivation licensed by the real grammar: random lexical categories combined bottom-up with the real rule functions (labels as emitted)"""
    G = en if which == 'en' else ja
    lex = EN_LEX if which == 'en' else JA_LEX
    un = unary_table(which)
    for _ in range(tries):
        n = rng.randint(1, max_len)
        ws = [rng.choice(list(lex)) for _ in range(n)]
        items = []
        for i, w_ in enumerate(ws):
            c = Category.parse(rng.choice(lex[w_]))
            word = words[i] if words else w_
            tok = en_token(word, rng) if which == 'en' else ja_token(word, rng)
            items.append(Tree.make_terminal(tok, c))
        ok = True
        while len(items) > 1 and ok:
            # maybe a unary step somewhere
            if rng.random() < 0.3:
                k = rng.randrange(len(items))
                rs = G.apply_unary_rules(items[k].cat, un)
                if rs:
                    r = rng.choice(rs)
                    items[k] = Tree.make_unary(r.cat, items[k], r.op_string, r.op_symbol)
            cands = []
            for k in range(len(items) - 1):
                for r in G.apply_binary_rules(items[k].cat, items[k + 1].cat):
                    cands.append((k, r))
            if not cands:
                ok = False
                break
            k, r = rng.choice(cands)
            items[k:k + 2] = [Tree.make_binary(r.cat, items[k], items[k + 1], r.op_string, r.op_symbol, r.head_is_left)]
        if ok and len(items) == 1:
            return items[0]
    return None


def arbitrary_tree(rng, cats, words, labels, depth=3, rich=True, which='en'):
    """arbitrary well-formed tree: any categories, any head direction at each node, labels drawn from a vocabulary"""
    def rec(d):
        if d == 0 or rng.random() < 0.3:
            w_ = rng.choice(words)
            tok = en_token(w_, rng, rich) if which == 'en' else ja_token(w_, rng)
            return Tree.make_terminal(tok, rng.choice(cats))
        if rng.random() < 0.2:
            s1, s2 = rng.choice(labels[1])
            return Tree.make_unary(rng.choice(cats), rec(d - 1), s1, s2)
        s1, s2 = rng.choice(labels[0])
        return Tree.make_binary(rng.choice(cats), rec(d - 1), rec(d - 1), s1, s2, rng.random() < 0.5)
    return rec(depth)


def placeholder():
    """what parsing.pyx::run returns for a failed sentence: the function of the file (nested in run or at module level, whatever its name) that builds a terminal
    from a string literal - found in the DePyx text and executed on its own; the historical literal is the fall-back when no such function is recognised"""
    import ast as _ast
    try:
        from vc import depyx
        src, _ = depyx.load()
        tree = _ast.parse(src)
        for fn in _ast.walk(tree):
            if not isinstance(fn, _ast.FunctionDef) or fn.args.args or fn.args.kwonlyargs or fn.args.vararg or fn.args.kwarg:
                continue
            lits = [c for c in _ast.walk(fn) if isinstance(c, _ast.Call) and isinstance(c.func, _ast.Attribute) and c.func.attr == 'make_terminal'
                    and c.args and isinstance(c.args[0], _ast.Constant) and isinstance(c.args[0].value, str)]
            if not lits or any(isinstance(n, (_ast.For, _ast.While, _ast.Yield)) for n in _ast.walk(fn)):
                continue
            mod = _ast.fix_missing_locations(_ast.Module(body=[fn], type_ignores=[]))
            ns = dict(ScoredTree=ScoredTree, Tree=Tree, Category=Category, float=float)
            exec(compile(mod, 'parsing.pyx[placeholder]', 'exec'), ns)
            r = ns[fn.name]()
            if isinstance(r, list) and r and isinstance(r[0], ScoredTree):
                return r
    except Exception:       # noqa
        pass
    return [ScoredTree(tree=Tree.make_terminal("FAILED", Category.parse("NP")), score=-float('inf'))]


# ------------------------------------------------------------------ views and structural snapshots
def shape(t):
    """derivation as nested tuples: (cat text, op_string, op_symbol, head_is_left, children...) / (cat text, token dict)"""
    if t.is_leaf:
        return ('L', str(t.cat), dict(t.token))
    return ('N', str(t.cat), t.op_string, t.op_symbol, t.head_is_left, tuple(shape(c) for c in t.children))


def snapshot(nbest):
    """deep structural snapshot of parse results incl. token dictionaries and object identities of nothing (values only)"""
    return [[(shape(st.tree), st.score) for st in trees] for trees in nbest]


def leaves(t):
    return [(str(l.cat), l.token) for l in t.leaves]


def heads_spec(t):
    """head assignment implied by the head flags: list of head positions (-1 for the root word)"""
    res = []

    def rec(node):
        if node.is_leaf:
            res.append(-1)
            return len(res) - 1
        if node.is_unary:
            return rec(node.children[0])
        l, r = rec(node.children[0]), rec(node.children[1])
        if node.head_is_left:
            res[r] = l
            return l
        res[l] = r
        return r
    rec(t)
    return res
