"""Sorts and spec functions, read off the class bodies of /repo/depccg/cat.py on every run.

The algebraic datatypes below are *generated* from the dataclass declarations in the
working tree (field names, order, annotations); the contracts in /verif/props refer to
constructors and fields by name.  A field the generator has no sort for, or a missing
class the contracts need, is a CHECKER-ERROR (exit 3), never a pass.
"""
import ast
import os
import z3

REPO = os.environ.get('VERIF_REPO', '/repo')


class CheckerError(Exception):
    pass


def read_source(rel):
    path = os.path.join(REPO, rel)
    if not os.path.exists(path):
        raise CheckerError(f'source file missing: {rel}')
    with open(path, encoding='utf-8') as f:
        return f.read()


def parse_source(rel):
    try:
        return ast.parse(read_source(rel), filename=rel)
    except SyntaxError as e:
        raise CheckerError(f'cannot parse {rel}: {e}')


def _ann(node):
    return ast.unparse(node).replace(' ', '')


def dataclass_info(cls: ast.ClassDef):
    """returns None if not a dataclass, else dict(frozen, eq, unsafe_hash, fields=[(name, ann, default_node, compare, hash)])"""
    deco = None
    for d in cls.decorator_list:
        name = d.func if isinstance(d, ast.Call) else d
        if isinstance(name, ast.Name) and name.id == 'dataclass' or isinstance(name, ast.Attribute) and name.attr == 'dataclass':
            deco = d
    if deco is None:
        return None
    opts = dict(frozen=False, eq=True, unsafe_hash=False, repr=True, order=False, init=True)
    if isinstance(deco, ast.Call):
        for kw in deco.keywords:
            if not isinstance(kw.value, ast.Constant):
                raise CheckerError(f'dataclass option {kw.arg} of {cls.name} is not a literal')
            opts[kw.arg] = kw.value.value
    fields = []
    for st in cls.body:
        if isinstance(st, ast.AnnAssign) and isinstance(st.target, ast.Name):
            ann = _ann(st.annotation)
            if ann.startswith('ClassVar'):
                continue
            compare, hash_, default = True, None, st.value
            if isinstance(st.value, ast.Call) and isinstance(st.value.func, ast.Name) and st.value.func.id == 'field':
                default = None
                for kw in st.value.keywords:
                    if kw.arg == 'compare':
                        compare = kw.value.value
                    elif kw.arg == 'hash':
                        hash_ = kw.value.value
                    elif kw.arg == 'default':
                        default = kw.value
                    elif kw.arg == 'default_factory':
                        raise CheckerError('default_factory unsupported')
            fields.append(dict(name=st.target.id, ann=ann, default=default, compare=compare, hash=hash_))
    opts['fields'] = fields
    opts['has_eq'] = any(isinstance(s, ast.FunctionDef) and s.name == '__eq__' for s in cls.body)
    opts['has_hash'] = any(isinstance(s, ast.FunctionDef) and s.name == '__hash__' for s in cls.body) or \
        any(isinstance(s, ast.Assign) and any(isinstance(t, ast.Name) and t.id == '__hash__' for t in s.targets) for s in cls.body)
    return opts


class World:
    """the datatypes + spec functions for one run"""

    FEATURE_BASE = 'Feature'
    CATEGORY_BASE = 'Category'

    def __init__(self):
        tree = parse_source('depccg/cat.py')
        self.cat_classes = {c.name: c for c in tree.body if isinstance(c, ast.ClassDef)}
        for need in ('Feature', 'UnaryFeature', 'TernaryFeature', 'Category', 'Atom', 'Functor'):
            if need not in self.cat_classes:
                raise CheckerError(f'class {need} not found in depccg/cat.py')
        self.dc = {}
        for name, c in self.cat_classes.items():
            info = dataclass_info(c)
            if info is not None:
                info['bases'] = [ast.unparse(b) for b in c.bases]
                self.dc[name] = info
        self.feat_ctors = [n for n, i in self.dc.items() if self.FEATURE_BASE in i['bases']]
        self.cat_ctors = [n for n, i in self.dc.items() if self.CATEGORY_BASE in i['bases']]
        if set(self.feat_ctors) != {'UnaryFeature', 'TernaryFeature'} or set(self.cat_ctors) != {'Atom', 'Functor'}:
            raise CheckerError(f'unexpected dataclass hierarchy: features={self.feat_ctors} categories={self.cat_ctors}')

        S = z3.StringSort()
        OptStr = z3.Datatype('OptStr')
        OptStr.declare('NoneS')
        OptStr.declare('SomeS', ('s', S))
        self.OptStr = OptStr.create()

        Feat = z3.Datatype('Feat')
        Cat = z3.Datatype('Cat')
        self.layout = {}   # ctor -> list of (pyfield, [(z3field, sortname)])
        for sortdt, ctors in ((Feat, self.feat_ctors), (Cat, self.cat_ctors)):
            for ctor in ctors:
                lay, decl = [], []
                for f in self.dc[ctor]['fields']:
                    ann, nm = f['ann'], f['name']
                    if ann == 'str':
                        parts = [(nm, 'String')]
                    elif ann == 'Optional[str]':
                        parts = [(nm, 'OptStr')]
                    elif ann in ('Category', "'Category'"):
                        parts = [(nm, 'Cat')]
                    elif ann in ('Feature', "'Feature'"):
                        parts = [(nm, 'Feat')]
                    elif ann == 'Pair[str]':
                        parts = [(nm + '_0', 'String'), (nm + '_1', 'String')]
                    elif ann == 'int':
                        parts = [(nm, 'Int')]
                    elif ann == 'bool':
                        parts = [(nm, 'Bool')]
                    else:
                        raise CheckerError(f'field {ctor}.{nm}: no sort for annotation {ann}')
                    lay.append((nm, ann, parts))
                    for zf, sn in parts:
                        decl.append((f'{ctor}_{zf}', {'String': S, 'OptStr': self.OptStr, 'Cat': Cat, 'Feat': Feat,
                                                      'Int': z3.IntSort(), 'Bool': z3.BoolSort()}[sn]))
                self.layout[ctor] = lay
                sortdt.declare(ctor, *decl)
        self.Feat, self.Cat = z3.CreateDatatypes(Feat, Cat)
        self.S = S
        for need_ctor, need_fields in (('Atom', ['base', 'feature']), ('Functor', ['left', 'slash', 'right']),
                                      ('UnaryFeature', ['value']), ('TernaryFeature', ['kv1', 'kv2', 'kv3'])):
            have = [f[0] for f in self.layout[need_ctor]]
            for nf in need_fields:
                if nf not in have:
                    raise CheckerError(f'{need_ctor} lost field {nf}')
        self._specs()

    # ---- generic access -------------------------------------------------
    def sort_of_ctor(self, ctor):
        return self.Feat if ctor in self.feat_ctors else self.Cat

    def ctor(self, name):
        return getattr(self.sort_of_ctor(name), name)

    def recog(self, name):
        return getattr(self.sort_of_ctor(name), 'is_' + name)

    def acc(self, ctor, zfield):
        return getattr(self.sort_of_ctor(ctor), f'{ctor}_{zfield}')

    def zfields(self, ctor):
        out = []
        for nm, ann, parts in self.layout[ctor]:
            out.extend(parts)
        return out

    # ---- convenient constructors ---------------------------------------
    def none_feat(self):
        return self.mk('UnaryFeature', value=self.OptStr.NoneS)

    def unary(self, text):
        return self.mk('UnaryFeature', value=self.OptStr.SomeS(z3.StringVal(text) if isinstance(text, str) else text))

    def mk(self, ctor, **kw):
        args = []
        for zf, sn in self.zfields(ctor):
            if zf not in kw:
                raise CheckerError(f'spec layer has no value for extra field {ctor}.{zf}')
            v = kw[zf]
            if isinstance(v, str):
                v = z3.StringVal(v)
            args.append(v)
        return self.ctor(ctor)(*args)

    def atom(self, base, feat=None):
        extra = {zf: self._default_extra(sn) for zf, sn in self.zfields('Atom') if zf not in ('base', 'feature')}
        return self.mk('Atom', base=base, feature=self.none_feat() if feat is None else feat, **extra)

    def functor(self, l, s, r):
        extra = {zf: self._default_extra(sn) for zf, sn in self.zfields('Functor') if zf not in ('left', 'slash', 'right')}
        return self.mk('Functor', left=l, slash=s, right=r, **extra)

    def _default_extra(self, sn):
        return {'String': z3.StringVal(''), 'Int': z3.IntVal(0), 'Bool': z3.BoolVal(False), 'OptStr': self.OptStr.NoneS}.get(sn)

    # ---- spec functions -------------------------------------------------
    def _map_cat(self, name, leaf_fn, extra_sorts=(), extra_args=()):
        """RecFunction f(c, *extra) rebuilding c with atoms' feature replaced by leaf_fn(feature, *extra);
        every other field (also ones the repo may add) is kept."""
        Cat = self.Cat
        f = z3.RecFunction(name, Cat, *extra_sorts, Cat)
        c = z3.Const(name + '_c', Cat)
        def rebuild(ctor):
            args = []
            for zf, sn in self.zfields(ctor):
                a = self.acc(ctor, zf)(c)
                if sn == 'Cat':
                    a = f(a, *extra_args)
                elif sn == 'Feat':
                    a = leaf_fn(a, *extra_args)
                args.append(a)
            return self.ctor(ctor)(*args)
        z3.RecAddDefinition(f, [c, *extra_args], z3.If(self.recog('Atom')(c), rebuild('Atom'), rebuild('Functor')))
        return f

    def _specs(self):
        Cat, Feat, S = self.Cat, self.Feat, self.S
        NF = self.none_feat()
        # strip: all features replaced by the absent feature
        self.strip = self._map_cat('strip', lambda f: NF)
        # erase(c, N): feature replaced by the absent feature iff it is in the set N
        FS = z3.SetSort(Feat)
        self.FeatSet = FS
        N = z3.Const('erase_N', FS)
        self.erase = self._map_cat('erase', lambda f, n: z3.If(z3.IsMember(f, n), NF, f), (FS,), (N,))
        # subst(c, M): feature f replaced by M[f] when M has an entry
        OF = z3.Datatype('OptFeat')
        OF.declare('NoF')
        OF.declare('SomeF', ('f', Feat))
        self.OptFeat = OF.create()
        MS = z3.ArraySort(Feat, self.OptFeat)
        self.FeatMap = MS
        M = z3.Const('subst_M', MS)
        self.subst = self._map_cat('subst', lambda f, m: z3.If(self.OptFeat.is_SomeF(m[f]), self.OptFeat.f(m[f]), f), (MS,), (M,))
        # nleaves / leaf
        c = z3.Const('nl_c', Cat)
        i = z3.Int('lf_i')
        L, R = self.acc('Functor', 'left'), self.acc('Functor', 'right')
        self.nleaves = z3.RecFunction('nleaves', Cat, z3.IntSort())
        z3.RecAddDefinition(self.nleaves, [c], z3.If(self.recog('Atom')(c), 1, self.nleaves(L(c)) + self.nleaves(R(c))))
        self.leaf = z3.RecFunction('leaf', Cat, z3.IntSort(), Feat)
        z3.RecAddDefinition(self.leaf, [c, i], z3.If(self.recog('Atom')(c), self.acc('Atom', 'feature')(c),
                            z3.If(i < self.nleaves(L(c)), self.leaf(L(c), i), self.leaf(R(c), i - self.nleaves(L(c))))))
        # size (for decreases)
        self.size = z3.RecFunction('size', Cat, z3.IntSort())
        z3.RecAddDefinition(self.size, [c], z3.If(self.recog('Atom')(c), 1, 1 + self.size(L(c)) + self.size(R(c))))
        # hasfeat(c, f): f occurs as the feature of some atom of c
        f = z3.Const('hf_f', Feat)
        self.hasfeat = z3.RecFunction('hasfeat', Cat, Feat, z3.BoolSort())
        z3.RecAddDefinition(self.hasfeat, [c, f], z3.If(self.recog('Atom')(c), self.acc('Atom', 'feature')(c) == f,
                            z3.Or(self.hasfeat(L(c), f), self.hasfeat(R(c), f))))
        # nargs
        self.nargs = z3.RecFunction('nargs', Cat, z3.IntSort())
        z3.RecAddDefinition(self.nargs, [c], z3.If(self.recog('Atom')(c), 0, 1 + self.nargs(L(c))))
        # head_atom(c) = c.arg(0): the innermost result category
        self.head_atom = z3.RecFunction('head_atom', Cat, Cat)
        z3.RecAddDefinition(self.head_atom, [c], z3.If(self.recog('Atom')(c), c, self.head_atom(L(c))))
        # wf: what the rule functions need in order not to raise: non-empty atom names, slashes are one of / \\ |
        self.wf = z3.RecFunction('wf', Cat, z3.BoolSort())
        SLv = self.acc('Functor', 'slash')(c)
        z3.RecAddDefinition(self.wf, [c], z3.If(self.recog('Atom')(c), z3.Length(self.acc('Atom', 'base')(c)) > 0,
                            z3.And(z3.Or(SLv == z3.StringVal('/'), SLv == z3.StringVal('\\'), SLv == z3.StringVal('|')),
                                   self.wf(L(c)), self.wf(R(c)))))
        # canonical text
        self.feat_str = z3.Function('feat_str', Feat, S)      # constrained per use by featstr_def
        self.str_spec = z3.RecFunction('str_spec', Cat, S)
        def fs(ft):
            U, T = 'UnaryFeature', 'TernaryFeature'
            v = self.acc(U, 'value')(ft)
            tern = z3.Concat(self.acc(T, 'kv1_0')(ft), z3.StringVal('='), self.acc(T, 'kv1_1')(ft), z3.StringVal(','),
                             self.acc(T, 'kv2_0')(ft), z3.StringVal('='), self.acc(T, 'kv2_1')(ft), z3.StringVal(','),
                             self.acc(T, 'kv3_0')(ft), z3.StringVal('='), self.acc(T, 'kv3_1')(ft))
            return z3.If(self.recog(U)(ft), z3.If(self.OptStr.is_NoneS(v), z3.StringVal(''), self.OptStr.s(v)), tern)
        self.feat_text = fs
        def op(x):
            return z3.If(self.recog('Functor')(x), z3.Concat(z3.StringVal('('), self.str_spec(x), z3.StringVal(')')), self.str_spec(x))
        fx = fs(self.acc('Atom', 'feature')(c))
        b = self.acc('Atom', 'base')(c)
        z3.RecAddDefinition(self.str_spec, [c], z3.If(self.recog('Atom')(c),
                            z3.If(z3.Length(fx) == 0, b, z3.Concat(b, z3.StringVal('['), fx, z3.StringVal(']'))),
                            z3.Concat(op(L(c)), self.acc('Functor', 'slash')(c), op(R(c)))))

    # ---- opaque view of the spec functions (path feasibility only) -----
    def abstract(self, e):
        """replaces every recursive spec function by an uninterpreted twin.  Used for the path-feasibility
        queries of the symbolic executor only (an over-approximation: more paths are kept, none is lost);
        obligations are always discharged with the real definitions."""
        if not hasattr(self, '_twins'):
            self._twins = []
            for f in (self.strip, self.erase, self.subst, self.nleaves, self.leaf, self.size, self.hasfeat, self.nargs, self.str_spec, self.wf, self.head_atom):
                dom = [f.domain(i) for i in range(f.arity())]
                g = z3.Function(f.name() + '_opaque', *dom, f.range())
                self._twins.append((f, g(*[z3.Var(i, d) for i, d in enumerate(dom)])))
        if not z3.is_expr(e):
            return e
        return z3.substitute_funs(e, *self._twins)

    def canon_text(self, t):
        """canonical text of a ground value given as nested tuples (python twin of str_spec)"""
        if t[0] == 'Atom':
            f = t[2]
            if f[0] == 'UnaryFeature':
                ft = '' if f[1][0] == 'NoneS' else f[1][1]
            else:
                ft = f'{f[1]}={f[2]},{f[3]}={f[4]},{f[5]}={f[6]}'
            return t[1] if ft == '' else f'{t[1]}[{ft}]'
        op = lambda x: self.canon_text(x) if x[0] == 'Atom' else '(' + self.canon_text(x) + ')'
        return op(t[1]) + t[2] + op(t[3])

    # ---- python <-> z3 for concrete values (replay, concrete folding) ---
    def to_py(self, term):
        """ground z3 ADT term -> nested python tuples ('Atom', base, feat) ..."""
        term = z3.simplify(term)
        if z3.is_string_value(term):
            return term.as_string()
        if z3.is_int_value(term):
            return term.as_long()
        if z3.is_true(term):
            return True
        if z3.is_false(term):
            return False
        if term.sort() in (self.Cat, self.Feat, self.OptStr, self.OptFeat) and z3.is_app(term):
            return (term.decl().name(),) + tuple(self.to_py(a) for a in term.children())
        raise ValueError(f'not ground: {term}')


_WORLD = None


def get_world():
    global _WORLD
    if _WORLD is None:
        _WORLD = World()
    return _WORLD
