"""./check driver.  exit 0 held / 1 violation / 2 undecided / 3 checker error"""
import argparse
import importlib
import json
import os
import sys
import traceback

sys.path.insert(0, os.path.dirname(os.path.dirname(os.path.abspath(__file__))))
sys.setrecursionlimit(20000)


def main():
    ap = argparse.ArgumentParser()
    ap.add_argument('prop')
    ap.add_argument('--tier', default=os.environ.get('VERIF_TIER', 'quick'))
    ap.add_argument('--replay')
    a = ap.parse_args()
    seed = int(os.environ.get('VERIF_SEED', '0') or 0)
    prop = a.prop.upper()
    if a.replay:
        d = json.load(open(a.replay))
        print(json.dumps({k: d[k] for k in ('property', 'obligation', 'model', 'witness') if k in d}, indent=1))
        rp = d.get('replay') or {}
        if rp.get('script'):
            from vc import engine
            rc, out, err = engine.run_real(rp['script'])
            print(out, err)
            sys.exit(1 if 'REPRODUCED' in out and 'NOT-REPRODUCED' not in out else 0)
        print('no concrete replay script in this file (obligation-level violation)')
        sys.exit(0)
    try:
        mod = importlib.import_module('props.' + prop.lower())
    except ImportError:
        print(f'CHECKER-ERROR no check for {prop}')
        traceback.print_exc()
        sys.exit(3)
    try:
        rc = mod.main(tier=a.tier, seed=seed)
    except Exception as e:
        print(f'CHECKER-ERROR {type(e).__name__}: {e}')
        if os.environ.get('VERIF_DEBUG'):
            traceback.print_exc()
        rc = 3
    sys.exit(rc)


if __name__ == '__main__':
    main()
