"""Executable twins of the grammar schema tables (replay / bounded runs on the real code).
Runs under /venv/bin/python with PYTHONPATH=/repo:/verif.  Mirrors contracts/grammar.py."""
import string
from depccg.cat import Category, Atom, Functor, UnaryFeature, TernaryFeature
from vc import twin
from vc.twin import same, strip, leaves, member, pattern_of, shape, compat, is_atom, outcome

NF = UnaryFeature(None)


def bare(name):
    return Atom(name, NF)


def F(l, s, r):
    return Functor(l, s, r)


def is_modifier(c):
    return (not is_atom(c)) and same(c.left, c.right)


def is_punct(c):
    return is_atom(c) and len(c.base) > 0 and (c.base[0] not in string.ascii_letters or c.base in ('LRB', 'RRB', 'LQU', 'RQU'))


def match(px, py, x, y):
    """(matched?, last bindings) per the statement of C06; None if mixed feature systems"""
    ok, last, mixed = twin.match_spec(pattern_of(px), pattern_of(py), x, y)
    return (None if mixed else ok), last


def feats_from(r, x, y):
    fs = leaves(x) + leaves(y)
    return all(member(f, fs) for f in leaves(r))


def uni_alt(px, py, skeleton, modifier, other, side=None):
    def fn(x, y, r):
        ok, b = match(px, py, x, y)
        if ok is None:
            return None
        if not ok:
            return False
        if side is not None and not side(b):
            return False
        m = x if modifier == 'x' else y
        o = x if other == 'x' else y
        if is_modifier(m):
            return same(r, o)
        sk = skeleton({v: strip(t) for v, t in b.items()}, x, y)
        return same(strip(r), sk) and feats_from(r, x, y)
    return fn


def not_bare(var):
    return lambda b: not same(b[var], bare('N')) and not same(b[var], bare('NP'))


def P(text):
    return twin.build(PARSED[text]) if text in PARSED else _parse(text)


PARSED = {}


def _parse(text):
    """literal of a schema: an independent mini reader (atoms with optional [feature], round brackets, one slash per level)"""
    import re
    toks = [t for t in re.split(r'([()/\\|])', text) if t]
    pos = 0

    def atom(t):
        m = re.fullmatch(r'([^\[\]]+)(?:\[([^\[\]]*)\])?', t)
        return Atom(m.group(1), UnaryFeature(m.group(2)) if m.group(2) is not None else NF)

    def operand():
        nonlocal pos
        if toks[pos] == '(':
            pos += 1
            e = expr()
            pos += 1
            return e
        pos += 1
        return atom(toks[pos - 1])

    def expr():
        nonlocal pos
        l = operand()
        if pos < len(toks) and toks[pos] in '/\\|':
            s = toks[pos]
            pos += 1
            return Functor(l, s, operand())
        return l
    return expr()


EN = {
    ('fa', '>'): [uni_alt('a/b', 'b', lambda b, x, y: b['a'], 'x', 'y')],
    ('ba', '<'): [uni_alt('b', 'a\\b', lambda b, x, y: b['a'], 'y', 'x')],
    ('fc', '>B'): [uni_alt('a/b', 'b/c', lambda b, x, y: F(b['a'], '/', b['c']), 'x', 'y')],
    ('bx', '<B'): [uni_alt('b/c', 'a\\b', lambda b, x, y: F(b['a'], '/', b['c']), 'y', 'x', side=not_bare('b'))],
    ('gfc', '>B'): [uni_alt('a/b', '(b/c)|d', lambda b, x, y: F(F(b['a'], '/', b['c']), y.slash, b['d']), 'x', 'y')],
    ('gbx', '<B'): [uni_alt('(b/c)|d', 'a\\b', lambda b, x, y: F(F(b['a'], '/', b['c']), x.slash, b['d']), 'y', 'x', side=not_bare('b'))],
    ('conj', '<Φ>'): [lambda x, y, r: any(same(x, bare(n)) for n in (',', ';', 'conj')) and same(r, F(y, '\\', y)),
                      lambda x, y, r: same(x, bare('conj')) and same(y, P('NP\\NP')) and same(r, y)],
    ('lp', '<lp>'): [lambda x, y, r: is_punct(x) and same(r, y),
                     lambda x, y, r: (same(x, bare('LQU')) or same(x, bare('LRB'))) and same(r, F(y, '\\', y))],
    ('rp', '<rp>'): [lambda x, y, r: is_punct(y) and same(r, x)],
    ('lp', '<*>'): [lambda x, y, r: same(x, bare(',')) and (same(y, P('S[ng]\\NP')) or same(y, P('S[pss]\\NP'))) and same(r, P('(S\\NP)\\(S\\NP)')),
                    lambda x, y, r: same(x, bare(',')) and same(y, P('S[dcl]/S[dcl]')) and same(r, P('(S\\NP)/(S\\NP)'))],
}

JA = {
    ('fa', '>'): [uni_alt('a/b', 'b', lambda b, x, y: b['a'], 'x', 'y')],
    ('ba', '<'): [uni_alt('b', 'a\\b', lambda b, x, y: b['a'], 'y', 'x')],
    ('fc', '>B'): [uni_alt('a/b', 'b/c', lambda b, x, y: F(b['a'], '/', b['c']), 'x', 'y')],
    ('bx', '<B1'): [uni_alt('b\\c', 'a\\b', lambda b, x, y: F(b['a'], '\\', b['c']), 'y', 'x')],
    ('bx', '<B2'): [uni_alt('(b\\c)|d', 'a\\b', lambda b, x, y: F(F(b['a'], '\\', b['c']), x.slash, b['d']), 'y', 'x')],
    ('bx', '<B3'): [uni_alt('((b\\c)|d)|e', 'a\\b', lambda b, x, y: F(F(F(b['a'], '\\', b['c']), x.left.slash, b['d']), x.slash, b['e']), 'y', 'x')],
    ('bx', '<B4'): [uni_alt('(((b\\c)|d)|e)|f', 'a\\b',
                            lambda b, x, y: F(F(F(F(b['a'], '\\', b['c']), x.left.left.slash, b['d']), x.left.slash, b['e']), x.slash, b['f']), 'y', 'x')],
    ('fx', '>Bx1'): [uni_alt('a/b', 'b\\c', lambda b, x, y: F(b['a'], '\\', b['c']), 'x', 'y')],
    ('fx', '>Bx2'): [uni_alt('a/b', '(b\\c)|d', lambda b, x, y: F(F(b['a'], '\\', b['c']), y.slash, b['d']), 'x', 'y')],
    ('fx', '>Bx3'): [uni_alt('a/b', '((b\\c)|d)|e', lambda b, x, y: F(F(F(b['a'], '\\', b['c']), y.left.slash, b['d']), y.slash, b['e']), 'x', 'y')],
}


def ja_roots():
    from depccg.grammar import ja
    return list(ja._possible_root_categories)


def justified(lang, x, y, res):
    """None if outside the precondition (mixed feature systems), else True/False"""
    table = EN if lang == 'en' else JA
    key = (res.op_string, res.op_symbol)
    if lang == 'ja' and key == ('other', 'SSEQ'):
        roots = ja_roots()
        ok = any(same(x, r) for r in roots) and any(same(y, r) for r in roots) and same(res.cat, y)
        return ok and res.head_is_left is False
    alts = table.get(key)
    if alts is None:
        return False
    vals = [a(x, y, res.cat) for a in alts]
    if any(v is True for v in vals):
        return res.head_is_left is (lang == 'en')
    if any(v is None for v in vals):
        return None
    return False


def check_combinator(lang, fname, x, y):
    import importlib
    mod = importlib.import_module('depccg.grammar.' + lang)
    fn = getattr(mod, fname)
    got = outcome(fn, x, y)
    if got[0] == 'raise':
        return [('raises', got)]
    res = got[1]
    if res is None:
        return []
    j = justified(lang, x, y, res)
    if j is False:
        return [('result not justified by the schema its label names', (res.op_string, res.op_symbol), repr(res.cat), res.head_is_left)]
    return []
