"""CxxVC: verification conditions for the C++14 subset used by /repo/depccg/parsing.h, generated from clang's JSON AST of
the real header on every run (clang++-14 -Xclang -ast-dump=json -Xclang -ast-dump-filter=<decl>).

Encoded semantics / what is assumed of C++: `unsigned` values are mathematical integers with an explicit no-wrap obligation
on every + - * (result in [0, 2^32)); `float` is a mathematical real (no rounding, no NaN/Inf); struct values are records of
their fields in declaration order (aggregate initialisation binds initialisers to fields by that order, as the compiler
does); pointers to cell_item are references to records (null or an item); STL containers and the small classes of the
header (matrix, chart, cell) are used through the contracts of contracts/parsing_h.py.  Anything else is a CheckerError.
"""
import json
import os
import subprocess
import tempfile
import z3

from .sorts import CheckerError, REPO

U32 = 2 ** 32


def _docs(text):
    dec = json.JSONDecoder()
    i, out = 0, []
    while i < len(text):
        while i < len(text) and text[i].isspace():
            i += 1
        if i >= len(text):
            break
        o, j = dec.raw_decode(text, i)
        out.append(o)
        i = j
    return out


class Ast:
    """clang JSON AST of the declarations of parsing.h that the contracts need"""
    FILTERS = ('parse_sentence', 'cell_item', 'combinator_result', 'config', 'compute_outside_probabilities', 'argmax', 'chart', 'matrix')

    def __init__(self):
        hdr = os.path.join(REPO, 'depccg/parsing.h')
        if not os.path.exists(hdr):
            raise CheckerError('depccg/parsing.h not found')
        self.tmp = tempfile.mkdtemp(prefix='cxxvc.')
        tu = os.path.join(self.tmp, 'tu.cpp')
        with open(tu, 'w') as f:
            f.write(f'#include <climits>\n#include "{hdr}"\n')
        procs = {}
        for flt in self.FILTERS:
            out = open(os.path.join(self.tmp, flt + '.json'), 'w')
            procs[flt] = (subprocess.Popen(['clang++-14', '-std=c++14', '-fsyntax-only', '-Xclang', '-ast-dump=json', '-Xclang',
                                            f'-ast-dump-filter={flt}', tu], stdout=out, stderr=subprocess.PIPE), out)
        self.docs = {}
        errs = []
        for flt, (p, out) in procs.items():
            _, err = p.communicate(timeout=120)
            out.close()
            if p.returncode != 0:
                errs.append(err.decode()[-500:])
            self.docs[flt] = _docs(open(os.path.join(self.tmp, flt + '.json')).read())
        import shutil
        shutil.rmtree(self.tmp, ignore_errors=True)
        if errs:
            raise CheckerError('parsing.h does not compile with clang++-14: ' + errs[0])

    def record(self, name):
        for d in self.docs.get(name, []):
            if d.get('kind') == 'CXXRecordDecl' and d.get('name') == name and d.get('inner'):
                return d
        raise CheckerError(f'struct {name} not found in parsing.h')

    def fields(self, name):
        return [(c['name'], c['type']['qualType']) for c in self.record(name)['inner'] if c['kind'] == 'FieldDecl']

    def function(self, name):
        for d in self.docs.get(name, []):
            if d.get('kind') == 'FunctionDecl' and d.get('name') == name:
                return d
            if d.get('kind') == 'FunctionTemplateDecl' and d.get('name') == name:
                for c in d.get('inner', []):
                    if c.get('kind') == 'FunctionDecl' and c.get('inner') and any(x.get('kind') == 'CompoundStmt' for x in c['inner']):
                        return c
        raise CheckerError(f'function {name} not found in parsing.h')

    def method(self, record, name):
        def walk(n):
            if isinstance(n, dict):
                if n.get('kind') in ('CXXMethodDecl', 'CXXConstructorDecl') and n.get('name') == name and any(
                        x.get('kind') == 'CompoundStmt' for x in n.get('inner', [])):
                    return n
                for c in n.get('inner', []):
                    r = walk(c)
                    if r is not None:
                        return r
            return None
        r = walk(self.record(record))
        if r is None:
            raise CheckerError(f'method {record}::{name} not found')
        return r


def line_of(n):
    b = n.get('range', {}).get('begin', {})
    return b.get('line') or b.get('expansionLoc', {}).get('line') or b.get('spellingLoc', {}).get('line') or 0


def body_of(fn):
    for c in fn.get('inner', []):
        if c.get('kind') == 'CompoundStmt':
            return c
    raise CheckerError('function without body')


def strip_casts(n):
    while n.get('kind') in ('ImplicitCastExpr', 'ParenExpr', 'ExprWithCleanups', 'MaterializeTemporaryExpr', 'CXXBindTemporaryExpr',
                            'CXXFunctionalCastExpr', 'CXXStaticCastExpr', 'ConstantExpr') and n.get('inner'):
        n = n['inner'][0]
    return n


# ---------------------------------------------------------------------------- values
class Item:
    """a cell_item record (struct value or the target of a pointer)"""
    def __init__(self, fields, name=''):
        self.f = dict(fields)
        self.name = name

    def __repr__(self):
        return f'Item({self.name})'


class Ptr:
    def __init__(self, target):
        self.target = target       # Item or None (nullptr)


class Rec:
    """other struct values (combinator_result, config, pair)"""
    def __init__(self, kind, fields):
        self.kind, self.f = kind, dict(fields)


class Abstract:
    """an object used only through its contract (containers, matrices, lambdas)"""
    def __init__(self, kind, **kw):
        self.kind = kind
        self.__dict__.update(kw)

    def __repr__(self):
        return f'<{self.kind}>'


class _Break(Exception):
    pass


class _Continue(Exception):
    pass


class _Return(Exception):
    def __init__(self, v):
        self.v = v


class Infeasible(Exception):
    pass


class Exec:
    """path-wise symbolic execution of statements; the `model` object supplies the contracts (method calls, loops, ranges)"""
    def __init__(self, ast, model):
        self.ast, self.model = ast, model
        self.reset([])

    def reset(self, decisions):
        self.decisions = list(decisions)
        self.pos = 0
        self.pending = []
        self.pc = []
        self.obligations = []
        self.nfresh = 0
        self.lits = {}

    # ---- path control
    def branch(self, cond, what=''):
        cond = z3.simplify(cond)
        if z3.is_true(cond):
            return True
        if z3.is_false(cond):
            return False
        k = self.lits.get(cond.get_id())
        if k is not None:
            return k
        if z3.is_not(cond):
            k = self.lits.get(cond.arg(0).get_id())
            if k is not None:
                return not k
        if self.pos < len(self.decisions):
            d = self.decisions[self.pos]
        else:
            d = True
            self.pending.append(self.decisions[:self.pos] + [False])
            self.decisions.append(True)
        self.pos += 1
        self.assume(cond if d else z3.Not(cond))
        return d

    def assume(self, c):
        c = z3.simplify(c)
        if z3.is_false(c):
            raise Infeasible()
        if z3.is_true(c):
            return
        self.pc.append(c)
        neg = False
        x = c
        while z3.is_not(x):
            x, neg = x.arg(0), not neg
        self.lits[x.get_id()] = not neg
        self._keep = getattr(self, '_keep', [])
        self._keep.append(x)

    def oblige(self, kind, goal, node=None, what=''):
        self.obligations.append(dict(kind=kind, line=line_of(node) if node else 0, goal=goal, pc=list(self.pc), what=what))

    def fresh(self, name, sort):
        self.nfresh += 1
        return z3.Const(f'{name}!{self.nfresh}', sort)

    # ---- statements
    def run(self, st, env):
        k = st.get('kind')
        m = getattr(self, 'st_' + k, None)
        if m is None:
            # expression statement
            if k.endswith('Expr') or k.endswith('Operator') or k == 'ExprWithCleanups':
                self.ev(st, env)
                return
            raise CheckerError(f'unsupported C++ statement {k} at parsing.h:{line_of(st)}')
        return m(st, env)

    def st_CompoundStmt(self, st, env):
        for s in st.get('inner', []):
            self.run(s, env)

    def st_DeclStmt(self, st, env):
        for d in st.get('inner', []):
            if d.get('kind') in ('TypeAliasDecl', 'TypedefDecl', 'UsingDecl', 'StaticAssertDecl'):
                continue              # a local type alias declares no object
            if d.get('kind') != 'VarDecl':
                raise CheckerError(f'unsupported declaration {d.get("kind")} at parsing.h:{line_of(st)}')
            init = [c for c in d.get('inner', []) if 'kind' in c]
            ty = d['type']['qualType']
            static = d.get('storageClass') == 'static'
            if static:
                v = self.model.declare(self, d['name'], ty, init[0] if init else None, env, static=True)
            elif init:
                v = self.model.declare(self, d['name'], ty, init[0], env)
            else:
                v = self.model.declare(self, d['name'], ty, None, env)
            env[d['name']] = v

    def st_IfStmt(self, st, env):
        parts = st['inner']
        if st.get('hasVar') or st.get('hasInit'):
            raise CheckerError('if with declaration unsupported')
        cond = self.truth(self.ev(parts[0], env))
        if self.branch(cond):
            self.run(parts[1], env)
        elif len(parts) > 2:
            self.run(parts[2], env)

    def st_ContinueStmt(self, st, env):
        raise _Continue()

    def st_BreakStmt(self, st, env):
        raise _Break()

    def st_ReturnStmt(self, st, env):
        inner = [c for c in st.get('inner', []) if 'kind' in c]
        raise _Return(self.ev(inner[0], env) if inner else None)

    def st_ForStmt(self, st, env):
        return self.model.for_loop(self, st, env)

    def st_WhileStmt(self, st, env):
        return self.model.for_loop(self, st, env)

    def st_CXXForRangeStmt(self, st, env):
        return self.model.range_loop(self, st, env)

    def st_NullStmt(self, st, env):
        pass

    # ---- expressions
    def truth(self, v):
        if isinstance(v, bool):
            return z3.BoolVal(v)
        if z3.is_expr(v) and v.sort() == z3.BoolSort():
            return v
        if z3.is_expr(v) and v.sort() == z3.IntSort():
            return v != 0
        if isinstance(v, Ptr):
            return z3.BoolVal(v.target is not None)
        raise CheckerError(f'condition of unsupported kind {v!r}')

    def ev(self, e, env):
        k = e.get('kind')
        m = getattr(self, 'ev_' + k, None)
        if m is None:
            raise CheckerError(f'unsupported C++ expression {k} at parsing.h:{line_of(e)}')
        return m(e, env)

    def _pass(self, e, env):
        return self.ev(e['inner'][0], env)
    ev_ParenExpr = ev_ExprWithCleanups = ev_MaterializeTemporaryExpr = ev_CXXBindTemporaryExpr = ev_ConstantExpr = _pass

    def ev_ImplicitCastExpr(self, e, env):
        v = self.ev(e['inner'][0], env)
        ck = e.get('castKind')
        if ck in ('IntegralToFloating',) and z3.is_expr(v) and v.sort() == z3.IntSort():
            return z3.ToReal(v)
        if ck == 'IntegralToBoolean':
            return self.truth(v)
        if ck == 'IntegralCast' and z3.is_expr(v) and v.sort() == z3.IntSort():
            to = e['type']['qualType']
            if 'unsigned' in to or to in ('category_id',):
                if z3.is_int_value(v) and v.as_long() < 0:
                    return z3.IntVal(v.as_long() % U32)        # e.g. (unsigned)-1
                return v
            return v
        if ck == 'FloatingCast':
            return v
        if ck == 'NullToPointer':
            return Ptr(None)
        if ck == 'PointerToBoolean':
            return self.truth(v)
        return v
    ev_CXXStaticCastExpr = ev_ImplicitCastExpr
    ev_CXXFunctionalCastExpr = ev_ImplicitCastExpr

    def ev_IntegerLiteral(self, e, env):
        return z3.IntVal(int(e['value']))

    def ev_FloatingLiteral(self, e, env):
        return z3.RealVal(e['value'])

    def ev_CXXBoolLiteralExpr(self, e, env):
        return z3.BoolVal(bool(e['value']))

    def ev_CXXNullPtrLiteralExpr(self, e, env):
        return Ptr(None)

    def ev_ImplicitValueInitExpr(self, e, env):
        t = e['type']['qualType']
        if 'float' in t:
            return z3.RealVal(0)
        if t == 'bool':
            return z3.BoolVal(False)
        if '*' in t:
            return Ptr(None)
        return z3.IntVal(0)

    def ev_DeclRefExpr(self, e, env):
        name = e['referencedDecl'].get('name')
        if name in env:
            return env[name]
        return self.model.global_ref(self, name, e)

    def ev_MemberExpr(self, e, env):
        base = self.ev(e['inner'][0], env)
        name = e['name']
        if isinstance(base, Ptr):
            if base.target is None:
                self.oblige('nonnull', z3.BoolVal(False), e, f'dereference of a null pointer for ->{name}')
                raise Infeasible()
            base = base.target
        if isinstance(base, (Item, Rec)):
            if name in base.f:
                return base.f[name]
            return BoundMember(base, name)
        if isinstance(base, Abstract):
            return BoundMember(base, name)
        raise CheckerError(f'member {name} of {base!r} at parsing.h:{line_of(e)}')

    def ev_UnaryOperator(self, e, env):
        op = e['opcode']
        v = self.ev(e['inner'][0], env)
        if op == '&':
            if isinstance(v, Item):
                return Ptr(v)
            return AddrOf(v)
        if op == '*':
            if isinstance(v, Ptr):
                if v.target is None:
                    self.oblige('nonnull', z3.BoolVal(False), e, 'dereference of a null pointer')
                    raise Infeasible()
                return v.target
            return v
        if op == '!':
            return z3.Not(self.truth(v))
        if op == '-':
            return -v
        if op in ('++', '--'):
            # scalar pre/post increment as a store through the model (frame obligations see it)
            new = v + 1 if op == '++' else v - 1
            ty = e['type']['qualType']
            if 'unsigned' in ty or ty == 'category_id':
                self.oblige('nowrap', z3.And(new >= 0, new < U32), e, f'unsigned {op} does not wrap')
            self.model.assign(self, strip_casts(e['inner'][0]), new, env, e)
            return v if e.get('isPostfix') else new
        raise CheckerError(f'unary operator {op}')

    def ev_BinaryOperator(self, e, env):
        op = e['opcode']
        if op == '=':
            rhs = self.ev(e['inner'][1], env)
            tgt = strip_casts(e['inner'][0])
            return self.model.assign(self, tgt, rhs, env, e)
        if op == '&&':
            a = self.truth(self.ev(e['inner'][0], env))
            if not self.branch(a):
                return z3.BoolVal(False)
            return self.truth(self.ev(e['inner'][1], env))
        if op == '||':
            a = self.truth(self.ev(e['inner'][0], env))
            if self.branch(a):
                return z3.BoolVal(True)
            return self.truth(self.ev(e['inner'][1], env))
        a = self.ev(e['inner'][0], env)
        b = self.ev(e['inner'][1], env)
        if op == ',':
            return b
        ty = e['type']['qualType']
        if isinstance(a, Ptr) or isinstance(b, Ptr):
            if op in ('==', '!='):
                same = (a.target is b.target)
                return z3.BoolVal(same if op == '==' else not same)
            raise CheckerError('pointer arithmetic')
        if op in ('+', '-', '*'):
            r = {'+': a + b, '-': a - b, '*': a * b}[op]
            if 'unsigned' in ty or ty == 'category_id':
                self.oblige('nowrap', z3.And(r >= 0, r < U32), e, f'unsigned {op} does not wrap')
            return r
        if op == '/':
            return a / b
        if op in ('<', '<=', '>', '>=', '==', '!='):
            if a.sort() != b.sort():
                if a.sort() == z3.IntSort():
                    a = z3.ToReal(a)
                if b.sort() == z3.IntSort():
                    b = z3.ToReal(b)
            return {'<': a < b, '<=': a <= b, '>': a > b, '>=': a >= b, '==': a == b, '!=': a != b}[op]
        raise CheckerError(f'binary operator {op}')

    def ev_CompoundAssignOperator(self, e, env):
        op = e['opcode']
        cur = self.ev(e['inner'][0], env)
        rhs = self.ev(e['inner'][1], env)
        val = {'+=': cur + rhs, '-=': cur - rhs, '*=': cur * rhs}[op]
        tgt = strip_casts(e['inner'][0])
        return self.model.assign(self, tgt, val, env, e)

    def ev_ConditionalOperator(self, e, env):
        c = self.truth(self.ev(e['inner'][0], env))
        a_node, b_node = e['inner'][1], e['inner'][2]
        ty = e['type']['qualType']
        if '*' in ty or 'cell_item' in ty:
            return self.ev(a_node, env) if self.branch(c) else self.ev(b_node, env)
        # scalar: evaluate both sides without side effects
        a = self.ev(a_node, env)
        b = self.ev(b_node, env)
        return z3.If(c, a, b)

    def ev_InitListExpr(self, e, env):
        ty = e['type']['qualType']
        return self.model.init_list(self, ty, [self.ev(x, env) for x in e.get('inner', [])], e)

    def ev_CXXConstructExpr(self, e, env):
        inner = [c for c in e.get('inner', []) if 'kind' in c]
        ty = e['type']['qualType']
        if len(inner) == 1 and strip_casts(inner[0]).get('kind') in ('InitListExpr',):
            return self.ev(inner[0], env)
        return self.model.construct(self, ty, [self.ev(x, env) for x in inner], e)

    def ev_CXXMemberCallExpr(self, e, env):
        callee = e['inner'][0]
        args = [self.ev(a, env) for a in e['inner'][1:]]
        callee = strip_casts(callee)
        if callee.get('kind') != 'MemberExpr':
            raise CheckerError('member call through a non-member expression')
        obj = self.ev(callee['inner'][0], env)
        if isinstance(obj, Ptr):
            if obj.target is None:
                self.oblige('nonnull', z3.BoolVal(False), e, 'method call on a null pointer')
                raise Infeasible()
            obj = obj.target
        return self.model.method(self, obj, callee['name'], args, e)

    def ev_CXXOperatorCallExpr(self, e, env):
        fn = strip_casts(e['inner'][0])
        opname = fn.get('referencedDecl', {}).get('name')
        args = [self.ev(a, env) for a in e['inner'][1:]]
        self.cur_env = env             # a lambda capturing by reference is executed in the environment of its call
        return self.model.operator(self, opname, args, e)

    def ev_CallExpr(self, e, env):
        fn = strip_casts(e['inner'][0])
        name = fn.get('referencedDecl', {}).get('name')
        if name is not None and name in env and isinstance(env[name], Abstract) and env[name].kind == 'fnptr':
            name = None
        if name is None:
            f = self.ev(e['inner'][0], env)
            return self.model.call_value(self, f, [self.ev(a, env) for a in e['inner'][1:]], e)
        return self.model.call(self, name, [self.ev(a, env) for a in e['inner'][1:]], e, env)

    def ev_LambdaExpr(self, e, env):
        return self.model.lambda_(self, e, env)

    def ev_CXXThrowExpr(self, e, env):
        if getattr(self.model, 'throw_ok', None) is not None:
            from contracts.parsing_h import LambdaThrow
            raise LambdaThrow()
        raise CheckerError('throw outside a modelled lambda')

    def ev_CXXDefaultArgExpr(self, e, env):
        return None

    def ev_CXXThisExpr(self, e, env):
        return env['this']

    def ev_StringLiteral(self, e, env):
        return e.get('value')


class BoundMember:
    def __init__(self, obj, name):
        self.obj, self.name = obj, name


class AddrOf:
    def __init__(self, v):
        self.v = v


def explore(ex: Exec, run, max_paths=5000):
    work = [[]]
    outs = []
    n = 0
    while work:
        dec = work.pop()
        n += 1
        if n > max_paths:
            raise CheckerError('path limit exceeded (C++)')
        ex.reset(dec)
        try:
            kind, val = run()
        except Infeasible:
            work.extend(ex.pending)
            # obligations recorded before the path died (e.g. a null dereference) are kept
            if ex.obligations:
                outs.append(dict(kind='dead', value=None, pc=list(ex.pc), obligations=list(ex.obligations)))
            continue
        work.extend(ex.pending)
        outs.append(dict(kind=kind, value=val, pc=list(ex.pc), obligations=list(ex.obligations)))
    return outs
