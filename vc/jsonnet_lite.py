"""Reader for the literal subset of jsonnet used by depccg/models/*.jsonnet data files:
objects with bare or quoted keys, arrays, single- or double-quoted strings, numbers, true/false/null,
comments.  `local`/`import` (config_*.jsonnet) are not data and are rejected."""
import re

_TOK = re.compile(r"""\s*(?:(//[^\n]*|\#[^\n]*)|('(?:\\.|[^'\\])*'|"(?:\\.|[^"\\])*")|([A-Za-z_][A-Za-z0-9_]*)|(-?\d+(?:\.\d+)?(?:[eE][+-]?\d+)?)|([{}\[\],:]))""")

_ESC = {'n': '\n', 't': '\t', '\\': '\\', "'": "'", '"': '"', '/': '/', 'r': '\r', 'b': '\b', 'f': '\f'}


def _unq(s):
    body = s[1:-1]
    out, i = [], 0
    while i < len(body):
        c = body[i]
        if c == '\\':
            n = body[i + 1]
            if n == 'u':
                out.append(chr(int(body[i + 2:i + 6], 16)))
                i += 6
                continue
            out.append(_ESC.get(n, n))
            i += 2
        else:
            out.append(c)
            i += 1
    return ''.join(out)


def loads(text):
    toks = []
    pos = 0
    n = len(text)
    while True:
        m = _TOK.match(text, pos)
        if not m:
            if text[pos:].strip() == '':
                break
            raise ValueError(f'jsonnet_lite: cannot tokenise at {pos}: {text[pos:pos + 40]!r}')
        pos = m.end()
        if m.group(1):
            continue
        if m.group(2):
            toks.append(('s', _unq(m.group(2))))
        elif m.group(3):
            toks.append(('i', m.group(3)))
        elif m.group(4):
            toks.append(('n', float(m.group(4)) if any(c in m.group(4) for c in '.eE') else int(m.group(4))))
        else:
            toks.append(('p', m.group(5)))
        if pos >= n:
            break
    i = 0

    def val():
        nonlocal i
        k, v = toks[i]
        if k == 'p' and v == '{':
            i += 1
            d = {}
            while toks[i] != ('p', '}'):
                kk, kv = toks[i]
                if kk not in ('s', 'i'):
                    raise ValueError('object key')
                i += 1
                if toks[i] != ('p', ':'):
                    raise ValueError('expected :')
                i += 1
                d[kv] = val()
                if toks[i] == ('p', ','):
                    i += 1
            i += 1
            return d
        if k == 'p' and v == '[':
            i += 1
            a = []
            while toks[i] != ('p', ']'):
                a.append(val())
                if toks[i] == ('p', ','):
                    i += 1
            i += 1
            return a
        i += 1
        if k in ('s', 'n'):
            return v
        if k == 'i':
            if v in ('true', 'false', 'null'):
                return {'true': True, 'false': False, 'null': None}[v]
            raise ValueError(f'jsonnet_lite: identifier {v} is not data')
        raise ValueError(f'unexpected token {v}')
    r = val()
    if i != len(toks):
        raise ValueError('trailing tokens')
    return r


def load(path):
    with open(path, encoding='utf-8') as f:
        return loads(f.read())
