"""A python list with an unknown (symbolic) bottom part and an explicit top part.

`TailList(n, items)` stands for  T ++ items  where T is an arbitrary list of length n (n a z3 Int >= 0
or a python int).  The shift-reduce loops of the repository only touch the top of their stacks, so one
iteration of such a loop can be executed symbolically on `T ++ items` without sequence theories.
Elements pulled out of T are fresh constants of the declared element kinds.
"""
import z3
from .pyvc import Z, PyRaise, is_native
from .sorts import CheckerError


class TailList:
    def __init__(self, name, n, items, elem_kinds=('String', 'Cat'), peek=None):
        self.name, self.n, self.items, self.elem_kinds = name, n, list(items), elem_kinds
        self.pulled = 0
        self.peek = peek          # optional: callable(I) -> value of the top element of T (when n > 0)

    # -- helpers
    def _n(self):
        return self.n if z3.is_expr(self.n) else z3.IntVal(self.n)

    def length(self, I, node):
        return I.wrap(self._n() + len(self.items))

    def truth(self, I, node):
        return I.truth(I.wrap(self._n() + len(self.items) > 0), node)

    def _pull(self, I, node):
        """materialise the top element of T (caller has established n > 0)"""
        self.pulled += 1
        if self.pulled > 6:
            raise CheckerError(f'the loop keeps consuming the unknown bottom part of `{self.name}` (more than 6 elements): not analysable with this configuration template')
        if self.peek is not None and self.pulled == 1:
            v = self.peek(I)
        else:
            w = I.w
            if self.elem_kinds == ('String',):
                v = Z(I.fresh(f'{self.name}_el', z3.StringSort()))
            else:
                is_tok = I.fresh(f'{self.name}_is_tok', z3.BoolSort())
                if I.branch(is_tok, node):
                    v = Z(I.fresh(f'{self.name}_tok', z3.StringSort()))
                else:
                    v = Z(I.fresh(f'{self.name}_cat', w.Cat))
        self.n = z3.simplify(self._n() - 1)
        return v

    def getattr(self, I, name, node):
        return _TLMethod(self, name)

    def getitem(self, I, k, node):
        if not isinstance(k, int):
            raise CheckerError('symbolic index into a tail list')
        if k < 0 and -k <= len(self.items):
            return self.items[k]
        if k >= 0 and not z3.is_expr(self.n) and self.n == 0:
            if k < len(self.items):
                return self.items[k]
            raise PyRaise('IndexError', 'list index out of range', node)
        if k >= 0 and z3.is_expr(self.n) and z3.is_int_value(z3.simplify(self.n)) and z3.simplify(self.n).as_long() == 0:
            if k < len(self.items):
                return self.items[k]
            raise PyRaise('IndexError', 'list index out of range', node)
        if k == -1 and not self.items:
            if not I.branch(self._n() > 0, node):
                raise PyRaise('IndexError', 'list index out of range', node)
            v = self._pull(I, node)
            self.items.insert(0, v)
            return v
        raise CheckerError(f'index {k} into a tail list reaches the unknown part (line {getattr(node, "lineno", "?")})')

    def unpack(self, I, k, node):
        total = self._n() + len(self.items)
        if not I.branch(total == k, node):
            raise PyRaise('ValueError', 'unpack', node)
        while len(self.items) < k:
            self.items.insert(0, self._pull(I, node))
        return list(self.items)

    def iterate(self, I, node):
        raise CheckerError('iteration over a list with unknown bottom part')


class _TLMethod:
    def __init__(self, tl, name):
        self.tl, self.name = tl, name

    def call(self, I, args, kwargs, node):
        tl = self.tl
        if self.name == 'append':
            tl.items.append(args[0])
            return None
        if self.name == 'pop' and not args:
            if tl.items:
                return tl.items.pop()
            if not I.branch(tl._n() > 0, node):
                raise PyRaise('IndexError', 'pop from empty list', node)
            return tl._pull(I, node)
        raise CheckerError(f'list.{self.name} on a tail list is not modelled')
