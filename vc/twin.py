"""Executable twins of the spec functions, for replay on the real code (runs under /venv/bin/python
with PYTHONPATH=/repo:/verif).  Comparisons here never use the repository's __eq__/__hash__/__str__:
they look at the dataclass fields directly, so that a changed __eq__ cannot hide itself."""
import dataclasses
from depccg.cat import Atom, Functor, UnaryFeature, TernaryFeature, Feature, Category


def build(t):
    """value from the nested tuples the verifier extracts from a solver model"""
    if not isinstance(t, (tuple, list)):
        return t
    tag = t[0]
    if tag == 'NoneS':
        return None
    if tag == 'SomeS':
        return t[1]
    if tag == 'UnaryFeature':
        return UnaryFeature(build(t[1]))
    if tag == 'TernaryFeature':
        return TernaryFeature((t[1], t[2]), (t[3], t[4]), (t[5], t[6]))
    if tag == 'Atom':
        return Atom(t[1], build(t[2]), *[build(x) for x in t[3:]])
    if tag == 'Functor':
        return Functor(build(t[1]), t[2], build(t[3]), *[build(x) for x in t[4:]])
    if tag == 'NoF':
        return None
    if tag == 'SomeF':
        return build(t[1])
    raise ValueError(t)


def fields(x):
    return [getattr(x, f.name) for f in dataclasses.fields(x)]


def same(a, b):
    """structural identity of two values built from the repo's dataclasses"""
    if dataclasses.is_dataclass(a) or dataclasses.is_dataclass(b):
        if type(a) is not type(b):
            return False
        return all(same(x, y) for x, y in zip(fields(a), fields(b)))
    if isinstance(a, tuple) and isinstance(b, tuple):
        return len(a) == len(b) and all(same(x, y) for x, y in zip(a, b))
    return type(a) is type(b) and a == b


def is_atom(c):
    return type(c) is Atom


def mapf(c, fn):
    if is_atom(c):
        return dataclasses.replace(c, feature=fn(c.feature))
    return dataclasses.replace(c, left=mapf(c.left, fn), right=mapf(c.right, fn))


NF = UnaryFeature(None)


def strip(c):
    return mapf(c, lambda f: NF)


def member(f, N):
    return any(same(f, g) for g in N)


def erase(c, N):
    return mapf(c, lambda f: NF if member(f, N) else f)


def feat_text(f):
    if type(f) is UnaryFeature:
        return f.value if f.value is not None else ''
    return ','.join(f'{k}={v}' for k, v in (f.kv1, f.kv2, f.kv3))


def str_spec(c):
    if is_atom(c):
        t = feat_text(c.feature)
        return c.base if len(t) == 0 else f'{c.base}[{t}]'
    def op(x):
        return f'({str_spec(x)})' if not is_atom(x) else str_spec(x)
    return op(c.left) + c.slash + op(c.right)


def feat_parse(text):
    """spec of Feature.parse"""
    if '=' in text and ',' in text:
        kvs = [tuple(kv.split('=')) for kv in text.split(',')]
        return TernaryFeature(*kvs)
    return UnaryFeature(text)


def leaves(c):
    if is_atom(c):
        return [c.feature]
    return leaves(c.left) + leaves(c.right)


def subst(c, mapping_pairs):
    def fn(f):
        for k, v in mapping_pairs:
            if same(k, f):
                return v
        return f
    return mapf(c, fn)


def outcome(fn, *args, **kw):
    try:
        return ('return', fn(*args, **kw))
    except Exception as e:   # noqa
        return ('raise', type(e).__name__, str(e))
