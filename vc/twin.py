"""Executable twins of the spec functions, for replay on the real code (runs under /venv/bin/python
with PYTHONPATH=/repo:/verif).  Comparisons here never use the repository's __eq__/__hash__/__str__:
they look at the dataclass fields directly, so that a changed __eq__ cannot hide itself."""
import dataclasses
from depccg.cat import Atom, Functor, UnaryFeature, TernaryFeature, Feature, Category


def build(t):
    """value from the nested tuples the verifier extracts from a solver model"""
    if not isinstance(t, (tuple, list)):
        return t
    tag = t[0]
    if tag == 'NoneS':
        return None
    if tag == 'SomeS':
        return t[1]
    if tag == 'UnaryFeature':
        return UnaryFeature(build(t[1]))
    if tag == 'TernaryFeature':
        return TernaryFeature((t[1], t[2]), (t[3], t[4]), (t[5], t[6]))
    if tag == 'Atom':
        return Atom(t[1], build(t[2]), *[build(x) for x in t[3:]])
    if tag == 'Functor':
        return Functor(build(t[1]), t[2], build(t[3]), *[build(x) for x in t[4:]])
    if tag == 'NoF':
        return None
    if tag == 'SomeF':
        return build(t[1])
    raise ValueError(t)


def fields(x):
    return [getattr(x, f.name) for f in dataclasses.fields(x)]


def same(a, b):
    """structural identity of two values built from the repo's dataclasses"""
    if dataclasses.is_dataclass(a) or dataclasses.is_dataclass(b):
        if type(a) is not type(b):
            return False
        return all(same(x, y) for x, y in zip(fields(a), fields(b)))
    if isinstance(a, tuple) and isinstance(b, tuple):
        return len(a) == len(b) and all(same(x, y) for x, y in zip(a, b))
    return type(a) is type(b) and a == b


def is_atom(c):
    return type(c) is Atom


def mapf(c, fn):
    if is_atom(c):
        return dataclasses.replace(c, feature=fn(c.feature))
    return dataclasses.replace(c, left=mapf(c.left, fn), right=mapf(c.right, fn))


NF = UnaryFeature(None)


def strip(c):
    return mapf(c, lambda f: NF)


def member(f, N):
    return any(same(f, g) for g in N)


def erase(c, N):
    return mapf(c, lambda f: NF if member(f, N) else f)


def feat_text(f):
    if type(f) is UnaryFeature:
        return f.value if f.value is not None else ''
    return ','.join(f'{k}={v}' for k, v in (f.kv1, f.kv2, f.kv3))


def str_spec(c):
    if is_atom(c):
        t = feat_text(c.feature)
        return c.base if len(t) == 0 else f'{c.base}[{t}]'
    def op(x):
        return f'({str_spec(x)})' if not is_atom(x) else str_spec(x)
    return op(c.left) + c.slash + op(c.right)


def feat_parse(text):
    """spec of Feature.parse"""
    if '=' in text and ',' in text:
        kvs = [tuple(kv.split('=')) for kv in text.split(',')]
        return TernaryFeature(*kvs)
    return UnaryFeature(text)


def leaves(c):
    if is_atom(c):
        return [c.feature]
    return leaves(c.left) + leaves(c.right)


def subst(c, mapping_pairs):
    def fn(f):
        for k, v in mapping_pairs:
            if same(k, f):
                return v
        return f
    return mapf(c, fn)


def outcome(fn, *args, **kw):
    try:
        return ('return', fn(*args, **kw))
    except Exception as e:   # noqa
        return ('raise', type(e).__name__, str(e))


# ------------------------------------------------------------------ Unification (C06) twins
def _is_var(f):
    if type(f) is UnaryFeature:
        return f.value == 'X'
    return any(v.startswith('X') for _, v in (f.kv1, f.kv2, f.kv3))


def _ign(f):
    return type(f) is UnaryFeature and (f.value is None or f.value == 'nb')


def compat(f, g):
    """spec of feature compatibility (statement of C06)"""
    if type(f) is UnaryFeature and type(g) is UnaryFeature:
        return same(f, g) or _is_var(f) or _ign(f) or _is_var(g) or _ign(g)
    if type(f) is TernaryFeature and type(g) is TernaryFeature:
        if same(f, g):
            return True
        fk, gk = [k for k, _ in (f.kv1, f.kv2, f.kv3)], [k for k, _ in (g.kv1, g.kv2, g.kv3)]
        if fk != gk:
            return False
        fv, gv = [v for _, v in (f.kv1, f.kv2, f.kv3)], [v for _, v in (g.kv1, g.kv2, g.kv3)]
        dom = lambda a, b: all(x == y or x.startswith('X') for x, y in zip(a, b))
        return dom(fv, gv) or dom(gv, fv)
    return None   # mixed feature systems: outside the precondition


def pattern_of(text):
    """pattern text -> ('atom', v) | ('fun', l, slash, r) using an independent mini reader (patterns are bracketed texts of single letters)"""
    toks = [t for t in __import__('re').split(r'([()/\\|])', text.replace(' ', '')) if t]
    pos = 0

    def operand():
        nonlocal pos
        if toks[pos] == '(':
            pos += 1
            e = expr()
            assert toks[pos] == ')'
            pos += 1
            return e
        v = toks[pos]
        pos += 1
        return ('atom', v)

    def expr():
        nonlocal pos
        l = operand()
        if pos < len(toks) and toks[pos] in '/\\|':
            s = toks[pos]
            pos += 1
            r = operand()
            return ('fun', l, s, r)
        return l
    e = expr()
    assert pos == len(toks), text
    return e


def shape(p, t, binds):
    if p[0] == 'atom':
        binds.append((p[1], t))
        return True
    if is_atom(t):
        return False
    ps = p[2]
    if not (ps == '|' or t.slash == ps or t.slash == '|'):
        return False
    return shape(p[1], t.left, binds) and shape(p[3], t.right, binds)


def match_spec(px, py, x, y):
    """(matches?, {var: last binding}, mixed?)  -- the statement of C06, executable"""
    bx, by = [], []
    if not shape(px, x, bx) or not shape(py, y, by):
        return False, {}, False
    last = {}
    for v, t in bx + by:
        if v in last and not same(strip(t), strip(last[v])):
            return False, {}, False
        last[v] = t
    lx, ly = dict(bx), dict(by)
    for v in lx:
        if v in ly:
            for f, g in zip(leaves(lx[v]), leaves(ly[v])):
                c = compat(f, g)
                if c is None:
                    return None, {}, True
                if not c:
                    return False, {}, False
    return True, last, False


def check_unification(px_text, py_text, x, y):
    """runs the real Unification and compares with the spec; returns a list of discrepancies"""
    from depccg.unification import Unification
    bad = []
    px, py = pattern_of(px_text), pattern_of(py_text)
    want, last, is_mixed = match_spec(px, py, x, y)
    if is_mixed:
        return bad
    uni = Unification(px_text, py_text)
    got = outcome(uni, x, y)
    if got != ('return', want):
        bad.append(('result', got, want))
        return bad
    again = outcome(uni, x, y)
    if again[0] != 'raise' or again[1] != 'RuntimeError':
        bad.append(('second call answered', again))
    xy_feats = leaves(x) + leaves(y)
    for v in sorted(set(last) | {'zz'}):
        g = outcome(lambda: uni[v])
        if not want:
            if g[0] != 'raise' or g[1] != 'AssertionError':
                bad.append(('binding readable after failure', v, g))
            continue
        if v not in last:
            if g[0] != 'raise' or g[1] != 'KeyError':
                bad.append(('unbound variable readable', v, g))
            continue
        if g[0] != 'return':
            bad.append(('binding raises', v, g))
            continue
        b, t = g[1], last[v]
        if not same(strip(b), strip(t)):
            bad.append(('binding skeleton', v, b, t))
            continue
        for fb, ft in zip(leaves(b), leaves(t)):
            if not same(fb, ft) and not (_is_var(ft) and member(fb, xy_feats)):
                bad.append(('binding feature not from the inputs / non-variable feature replaced', v, b, t))
                break
    return bad
