"""C07 — every output format decodes to the same derivation.

Deductive part (PyVC, contracts/printers.py): the dependency column of conll.  `_resolve_dependencies.rec` is verified against its contract
with the recursive calls replaced by that contract (structural induction over the tree view), `_resolve_dependencies` against the specification
"one root, every other word attached to the head word its head flags imply, inside the span"; the tree view itself is checked against the real
properties of depccg/tree.py.  Everything else of C07 is decided by the bounded real-code run of bounded/printers_real.py."""
import json
import time

import z3

from vc.sorts import CheckerError, get_world
from vc.pyvc import Interp
from vc import engine
from vc.engine import verify_contract
from contracts import cat as catc, printers as pr
from props import c12

PROP = 'C07'


def setup():
    w = get_world()
    catc.bind_world(w)
    table, impls, virtuals = catc.cat_contracts()
    I = Interp(w, table)
    pr.install_etree(I)
    cs = [pr.ResolveRec(), pr.ResolveDependencies(), pr.XmlRec(), pr.XmlProcessTree()]
    for c in cs:
        I.contracts[c.name] = c
    return w, I, cs


def run_job(kind, key):
    w, I, cs = setup()
    if kind == 'contract':
        c = [x for x in cs if x.name == key][0]
        recs, npaths = verify_contract(I, c, PROP)
        for r in recs:
            r['witness'] = dict(function=c.name)
        return dict(job=key, records=recs, paths=npaths, lib=sorted(I.used_lib))
    if kind == 'view':
        return dict(job=key, records=pr.tree_view_obligations(I, PROP) + pr.view_lemmas(PROP))
    raise CheckerError(kind)


REPLAY = r'''
import itertools, json, sys
from vc import trees as T
from depccg.printer import conll
Tree, Token, Category = T.Tree, T.Token, T.Category
N = T.Category.parse('N')

def shapes(n):
    """all tree views with n words: ('L',) | ('U', c) | ('B', l, r, head_is_left); unary chains of length <= 1"""
    if n == 1:
        base = [('L',)]
    else:
        base = [('B', l, r, h) for k in range(1, n) for l in shapes(k) for r in shapes(n - k) for h in (True, False)]
    return base + [('U', b) for b in base if b[0] != 'U']

def build(v, counter=[0]):
    if v[0] == 'L':
        counter[0] += 1
        return Tree.make_terminal(Token(word='w%d' % counter[0]), N)
    if v[0] == 'U':
        return Tree.make_unary(N, build(v[1]))
    return Tree.make_binary(N, build(v[1]), build(v[2]), 'fa', '>', v[3])

def nleaves(v):
    return 1 if v[0] == 'L' else nleaves(v[1]) if v[0] == 'U' else nleaves(v[1]) + nleaves(v[2])

def headpos(v):
    if v[0] == 'L':
        return 0
    if v[0] == 'U':
        return headpos(v[1])
    return headpos(v[1]) if v[3] else nleaves(v[1]) + headpos(v[2])

def dep(v, i):
    if v[0] == 'L':
        return -1
    if v[0] == 'U':
        return dep(v[1], i)
    nl = nleaves(v[1])
    if i < nl:
        if i == headpos(v[1]):
            return -1 if v[3] else nl + headpos(v[2])
        return dep(v[1], i)
    if i - nl == headpos(v[2]):
        return headpos(v[1]) if v[3] else -1
    return nl + dep(v[2], i - nl)

for n in range(1, 5):
    for v in shapes(n):
        want = [-1 if i == headpos(v) else dep(v, i) for i in range(n)]
        try:
            got = list(conll._resolve_dependencies(build(v)))
        except Exception as e:
            got = 'raises %s: %s' % (type(e).__name__, e)
        if got != want:
            print(json.dumps(dict(reproduced=True, tree=repr(v), got=got, want=want)))
            sys.exit(0)
print(json.dumps(dict(reproduced=False)))
'''


def replay():
    rc, out, err = engine.run_real(REPLAY, timeout=300, env_extra=dict(VERIF_REPO=engine.REPO))
    try:
        d = json.loads(out.strip().splitlines()[-1])
    except Exception:
        return dict(reproduced=False, stdout=out[-500:], stderr=err[-800:])
    d['how'] = 'real _resolve_dependencies on every tree view with <= 4 words (both head directions, unary steps) against the spec functions nleaves / headpos / dep'
    return d


def main(tier='quick', seed=0):
    t0 = time.time()
    jobs = [('contract', 'depccg/printer/conll.py::_resolve_dependencies.rec'), ('contract', 'depccg/printer/conll.py::_resolve_dependencies'),
            ('contract', 'depccg/printer/xml.py::_process_tree.rec'), ('contract', 'depccg/printer/xml.py::_process_tree'), ('view', 'tree.py')]
    results = engine.run_jobs('props.c07', jobs)
    records, errors = [], []
    for r in results:
        records.extend(r.get('records', []))
        if r.get('error'):
            errors.append(f"{r['error']} (job {r['job']})")
    if any(r['verdict'] == 'failed' and 'conll' in r['name'] for r in records):
        rp = replay()
        for r in records:
            if r['verdict'] == 'failed' and 'conll' in r['name']:
                r['replay'] = rp
    assumptions = [
        'deductive part: the conll dependency column, and the element structure of C&C xml (`_process_tree`: one lf per word with start = its offset counted from 0 per tree, span 1, its category text and its token\'s attributes; '
        'one rule element per inner node with its label and category text, children in order) as equality with the recursive spec encoding enc_xml(tree, 0). Tree view Leaf | Un | Bin(head_is_left) with the attribute meanings checked against the real tree.py properties on the three shapes Tree.__init__ admits; '
        'python lists as z3 arrays with a length; the recursive calls of rec are replaced by its contract (structural induction: the induction principle is the meta-rule); '
        'len([x for x in xs if p(x)]) is axiomatised as 0 / 1 / >= 2 matching elements; lemma nleaves-positive by structural induction',
        'assumed contracts: lxml etree.Element / SubElement / set / append build the element they are told to (lxml is not importable under the verifier); Tree.tokens lists the tokens of the leaves in order; '
        'the attribute copy `for k, v in token.items(): elem.set(k, v)` is recognised as a pattern and recorded as "attributes of token(tag)" (a token with a key named start / span / cat would overwrite the lf attribute: outside the model); '
        'str(int) is injective',
        'all other clauses (text layouts, category spellings, token attributes, span offsets, numbering) are decided by the BOUNDED stand-in: run-time contract decode(encode(t)) = view(t) with independent spec decoders, '
        'and the repository readers applied to files the encoders wrote, on enumerated derivations (never counted as proved)',
        'lxml serialise/parse round trip preserves tags, attributes and order for XML-representable strings',
    ]
    extra = dict(functions_under_contract=['depccg/printer/conll.py::_resolve_dependencies', 'depccg/printer/conll.py::_resolve_dependencies.rec',
                                           'depccg/printer/xml.py::_process_tree', 'depccg/printer/xml.py::_process_tree.rec',
                                           'depccg/tree.py::Tree.is_leaf / is_unary / child / left_child / right_child / head_is_left (view lemma)'],
                 bounded_functions=['all encoders of depccg/printer', 'depccg/tools/reader.py', 'depccg/tools/ja/reader.py'])
    return c12.finish_with(PROP, tier, seed, t0, records, errors, extra, assumptions, ['printers_real.py'], level='exploration')
