"""C07 — every output format decodes to the same derivation.

Deductive part (PyVC, contracts/printers.py): the dependency column of conll.  `_resolve_dependencies.rec` is verified against its contract
with the recursive calls replaced by that contract (structural induction over the tree view), `_resolve_dependencies` against the specification
"one root, every other word attached to the head word its head flags imply, inside the span"; the tree view itself is checked against the real
properties of depccg/tree.py.  Everything else of C07 is decided by the bounded real-code run of bounded/printers_real.py."""
import json
import time

import z3

from vc.sorts import CheckerError, get_world
from vc.pyvc import Interp
from vc import engine
from vc.engine import verify_contract
from contracts import cat as catc, printers as pr
from props import c12

PROP = 'C07'


def setup():
    w = get_world()
    catc.bind_world(w)
    table, impls, virtuals = catc.cat_contracts()
    I = Interp(w, table)
    pr.install_etree(I)
    cs = [pr.ResolveRec(), pr.ResolveDependencies(), pr.XmlRec(), pr.XmlProcessTree(), pr.JsonCategory(), pr.JsonRec()]
    if False:
        pass
    for c in cs:
        I.contracts[c.name] = c
    return w, I, cs


def run_job(kind, key):
    w, I, cs = setup()
    if kind == 'contract' and key == 'depccg/printer/xml.py::xml_of':
        at = pr.XmlProcessTreeAt()
        I.contracts[at.name] = at                      # _process_tree through its (proved) contract
        c = pr.XmlOf()
        I.contracts[c.name] = c
        recs, npaths = verify_contract(I, c, PROP)
        for r in recs:
            r['witness'] = dict(function=c.name)
        return dict(job=key, records=recs, paths=npaths, lib=sorted(I.used_lib))
    if kind == 'contract':
        c = [x for x in cs if f"{x.rel}::{getattr(x, 'role', x.qualname)}" == key][0]
        recs, npaths = verify_contract(I, c, PROP)
        for r in recs:
            r['witness'] = dict(function=c.name)
        return dict(job=key, records=recs, paths=npaths, lib=sorted(I.used_lib))
    if kind == 'view':
        return dict(job=key, records=pr.tree_view_obligations(I, PROP) + pr.view_lemmas(PROP) + pr.tree_py_records(I, PROP))
    raise CheckerError(kind)


def main(tier='quick', seed=0):
    t0 = time.time()
    jobs = [('contract', 'depccg/printer/conll.py::_resolve_dependencies.rec'), ('contract', 'depccg/printer/conll.py::_resolve_dependencies'),
            ('contract', 'depccg/printer/xml.py::_process_tree.rec'), ('contract', 'depccg/printer/xml.py::_process_tree'),
            ('contract', 'depccg/printer/my_json.py::json_of.rec'), ('contract', 'depccg/printer/xml.py::xml_of'), ('view', 'tree.py')]
    results = engine.run_jobs('props.c07', jobs)
    records, errors = [], []
    for r in results:
        records.extend(r.get('records', []))
        if r.get('error'):
            errors.append(f"{r['error']} (job {r['job']})")
    pr.replay_views(records)
    assumptions = [
        'deductive part: the conll dependency column, and the element structure of C&C xml (`_process_tree`: one lf per word with start = its offset counted from 0 per tree, span 1, its category text and its token\'s attributes; '
        'one rule element per inner node with its label and category text, children in order) as equality with the recursive spec encoding enc_xml(tree, 0); the json record of a node as json_of(tree) builds it (leaf: the items of the token plus cat; inner node: type, cat text, children in order) as equality with enc_json - the branch full=True is not reachable from to_string and raises AttributeError (Atom.features does not exist): outside the listed properties. Tree view Leaf | Un | Bin(head_is_left) with the attribute meanings checked against the real tree.py properties on the three shapes Tree.__init__ admits; '
        'python lists as z3 arrays with a length; the recursive calls of rec are replaced by its contract (structural induction: the induction principle is the meta-rule); '
        'len([x for x in xs if p(x)]) is axiomatised as 0 / 1 / >= 2 matching elements; lemma nleaves-positive by structural induction',
        'assumed contracts: lxml etree.Element / SubElement / set / append build the element they are told to (lxml is not importable under the verifier); '
        'the attribute copy `for k, v in token.items(): elem.set(k, v)` is recognised as a pattern and recorded as "attributes of token(tag)" (a token with a key named start / span / cat would overwrite the lf attribute: outside the model); '
        'str(int) is injective',
        'all other clauses (text layouts, category spellings, token attributes, span offsets, numbering) are decided by the BOUNDED stand-in: run-time contract decode(encode(t)) = view(t) with independent spec decoders, '
        'and the repository readers applied to files the encoders wrote, on enumerated derivations (never counted as proved)',
        'lxml serialise/parse round trip preserves tags, attributes and order for XML-representable strings',
    ]
    extra = dict(functions_under_contract=['depccg/printer/conll.py::_resolve_dependencies', 'depccg/printer/conll.py::_resolve_dependencies.rec',
                                           'depccg/printer/xml.py::xml_of (numbering: arbitrary sentence and tree)', 'depccg/printer/xml.py::_process_tree', 'depccg/printer/xml.py::_process_tree.rec', 'depccg/printer/my_json.py::json_of.rec',
                                           'depccg/tree.py::Tree.is_leaf / is_unary / child / left_child / right_child / head_is_left (view lemma)', 'depccg/tree.py::Tree.leaves / leaves.rec / __len__ / tokens'],
                 bounded_functions=['all encoders of depccg/printer', 'depccg/tools/reader.py', 'depccg/tools/ja/reader.py'])
    return c12.finish_with(PROP, tier, seed, t0, records, errors, extra, assumptions, ['printers_real.py'], level='exploration')
