"""C18 — printing is an observation: it changes nothing and is repeatable."""
import time
from vc import engine
from contracts import frame
from props import c12

PROP = 'C18'


def replay_store(rec):
    """a failing frame obligation is replayed by rendering a deep copy and the original in sequence and comparing object graphs"""
    body = '''
import copy, random, json
from vc import trees as T
rng = random.Random(1)
bad = None
for which in ('en', 'ja'):
    T.lang.set_global_language_to(which)
    for i in range(40):
        t = T.random_derivation(which, rng)
        if t is None:
            continue
        nb = [[T.ScoredTree(t, -1.0)]]
        s0 = T.snapshot(nb)
        for f in [x for x in T.cli_formats()[which] if x not in T.UNREACHABLE]:
            try:
                T.to_string(nb, format=f)
            except Exception as e:
                bad = (which, f, 'raises ' + type(e).__name__ + ': ' + str(e))
                break
            if T.snapshot(nb) != s0:
                bad = (which, f, 'parse results changed by rendering')
                break
        if bad:
            break
    if bad:
        break
print('REPRODUCED' if bad else 'NOT-REPRODUCED', bad)
'''
    rc, out, err = engine.run_real(body, timeout=300)
    return dict(reproduced='REPRODUCED' in out and 'NOT-REPRODUCED' not in out, stdout=out[-1000:], stderr=err[-500:], script=body)


def main(tier='quick', seed=0):
    t0 = time.time()
    records = frame.frame_obligations(PROP)
    errors = []
    # the helpers the encoders call (depccg/types.py: Token / ScoredTree, depccg/tree.py, depccg/utils.py) and the encoder modules themselves keep no state
    # between calls: no store to module-level names, no mutation of an object obtained from a memoised function or a module-level table (ast frame scan)
    import glob, os
    from props import c14
    from vc.sorts import REPO
    rels = ['depccg/types.py', 'depccg/tree.py', 'depccg/utils.py'] + sorted('depccg/printer/' + os.path.basename(f) for f in glob.glob(os.path.join(REPO, 'depccg/printer/*.py')))
    records.extend(c14.purity_scan(PROP, rels=tuple(r for r in rels if os.path.exists(os.path.join(REPO, r))), imports=False, state_only=True))
    rep = None
    for r in records:
        if r['verdict'] == 'failed':
            rep = rep or replay_store(r)
            r['replay'] = rep
    assumptions = [
        'frame obligations are decided by a flow-sensitive points-to abstraction over the ast of every encoder (contracts/frame.py): P = reachable from an argument, F = fresh, FP = fresh container of argument objects; '
        'strong updates on re-binding, joins at branches and loop heads, nested functions analysed in the environment of their definition, return summaries per function',
        'library effect contracts: list/dict/tuple/sorted/enumerate/zip/copy/str/etree.Element/SubElement/StringIO allocate fresh objects; only the listed mutating methods and attribute/subscript stores modify an object; writing to a stream or to a fresh XML element is not a store into the arguments',
        'determinism: encoders read no mutable module state other than the language setting (frame: module-level tables are never stored to); together with the frame this gives "rendering again, in any order of formats, equals rendering a fresh copy"',
        'the clause itself is also run BOUNDED on the real encoders: random format sequences on shared token objects against renderings of deep copies',
    ]
    assumptions.append('state scan of depccg/types.py, tree.py, utils.py and printer/*.py (ast): global statements, stores into module-level names, mutation of objects obtained from memoised functions '
                       '(lru_cache / cache / cached_property) or module-level tables, flow-insensitively within one function; aliases passed through calls or attributes are not followed')
    extra = dict(functions_under_contract=[f'{rel}::{q}' for rel, names in frame.ENCODERS for q in names])
    return c12.finish_with(PROP, tier, seed, t0, records, errors, extra, assumptions, ['printers_real.py'])
