"""C19 — whatever the parser can return can be rendered in every offered format."""
import ast
import time
from vc import engine
from vc.sorts import parse_source, CheckerError
from props import c12

PROP = 'C19'


def literal_dict_keys(rel, name):
    tree = parse_source(rel)
    for st in tree.body:
        if isinstance(st, ast.Assign) and any(isinstance(t, ast.Name) and t.id == name for t in st.targets) and isinstance(st.value, ast.Dict):
            return [k.value for k in st.value.keys if isinstance(k, ast.Constant)]
    raise CheckerError(f'{rel}: table {name} not found')


def grammar_labels(which):
    tree = parse_source(f'depccg/grammar/{which}.py')
    binary, unary = set(), set()
    # labels kept as immutable module-level constants: NAME = ("fa", ">")
    for st in tree.body:
        if isinstance(st, ast.Assign) and isinstance(st.value, ast.Tuple) and len(st.value.elts) == 2 and all(isinstance(e, ast.Constant) and isinstance(e.value, str) for e in st.value.elts):
            binary.add((st.value.elts[0].value, st.value.elts[1].value))
    for fn in tree.body:
        if not isinstance(fn, ast.FunctionDef):
            continue
        for n in ast.walk(fn):
            if not isinstance(n, ast.Call):
                continue
            # a result built directly (keywords op_string / op_symbol) or through a helper taking label and symbol as two consecutive string literals
            kw = {k.arg: k.value for k in n.keywords}
            s1, s2 = kw.get('op_string'), kw.get('op_symbol')
            if isinstance(s1, ast.Constant) and isinstance(s2, ast.Constant):
                (unary if fn.name == 'apply_unary_rules' else binary).add((s1.value, s2.value))
            elif isinstance(s1, ast.IfExp) and isinstance(s2, ast.Constant):
                for alt in (s1.body, s1.orelse):
                    if isinstance(alt, ast.Constant):
                        unary.add((alt.value, s2.value))
            if not isinstance(n.func, ast.Attribute) and getattr(n.func, 'id', '') not in ('Unification', 'print'):
                for a, b in zip(n.args, n.args[1:]):
                    if isinstance(a, ast.Constant) and isinstance(b, ast.Constant) and isinstance(a.value, str) and isinstance(b.value, str):
                        (unary if fn.name == 'apply_unary_rules' else binary).add((a.value, b.value))
        if fn.name == '_unary_rule_symbol':
            for n in ast.walk(fn):
                if isinstance(n, ast.Return) and isinstance(n.value, ast.Constant):
                    unary.add((n.value.value, n.value.value))
    return sorted(binary), sorted(unary)


def open_vocabulary(which):
    """label / symbol expressions of the grammar that are COMPUTED (f-string, concatenation, call, table lookup) rather than written as literals or passed through from a
    helper's own parameters: then the vocabulary cannot be enumerated from the source and the closure obligation below is undecided, not discharged"""
    tree = parse_source(f'depccg/grammar/{which}.py')
    funcs = [fn for fn in ast.walk(tree) if isinstance(fn, ast.FunctionDef)]
    # immutable module-level constants holding a label, a symbol or a (label, symbol) pair
    def _lit(v):
        return isinstance(v, ast.Constant) or (isinstance(v, ast.Tuple) and all(isinstance(e, ast.Constant) for e in v.elts))
    consts = {t.id for st in tree.body if isinstance(st, ast.Assign) and _lit(st.value) for t in st.targets if isinstance(t, ast.Name)} | \
             {st.target.id for st in tree.body if isinstance(st, ast.AnnAssign) and st.value is not None and _lit(st.value) and isinstance(st.target, ast.Name)}
    helpers = {}
    for fn in funcs:
        names = [a.arg for a in fn.args.posonlyargs + fn.args.args]
        idx = [i for i, a in enumerate(names) if a in ('op_string', 'op_symbol', 'label', 'symbol')]
        if idx:
            helpers[fn.name] = (names, idx)
    out = []
    for fn in funcs:
        params = {a.arg for a in fn.args.posonlyargs + fn.args.args + fn.args.kwonlyargs}
        assigned = {}
        for st in ast.walk(fn):
            if isinstance(st, ast.Assign) and len(st.targets) == 1 and isinstance(st.targets[0], ast.Name):
                assigned.setdefault(st.targets[0].id, []).append(st.value)
            if isinstance(st, ast.Assign) and len(st.targets) == 1 and isinstance(st.targets[0], ast.Tuple) and all(isinstance(e, ast.Name) for e in st.targets[0].elts):
                for e in st.targets[0].elts:          # a, b = pair: each target is as fixed as the pair
                    assigned.setdefault(e.id, []).append(st.value)

        def fixed(e, depth=0):
            if isinstance(e, ast.Constant):
                return True
            if isinstance(e, ast.Name) and e.id in assigned and e.id not in params and depth < 4:
                return all(fixed(v, depth + 1) for v in assigned[e.id])     # a local bound to literals / harvested calls only
            if isinstance(e, ast.IfExp):
                return fixed(e.body, depth) and fixed(e.orelse, depth)
            if isinstance(e, ast.Name) and e.id in params:
                return True          # passed through: the call sites of this helper are looked at in their own right
            if isinstance(e, ast.Name) and e.id in consts and e.id not in assigned:
                return True          # a module-level constant (harvested)
            if isinstance(e, (ast.Subscript, ast.Starred)) and isinstance(e.value, ast.Name) and (e.value.id in consts or e.value.id in params):
                return True          # an element of such a constant / of a passed-through pair
            if isinstance(e, ast.Call) and getattr(e.func, 'id', None) == '_unary_rule_symbol':
                return True          # its returns are harvested
            return False
        for n in ast.walk(fn):
            if not isinstance(n, ast.Call):
                continue
            vals = [k.value for k in n.keywords if k.arg in ('op_string', 'op_symbol', 'label', 'symbol')]
            h = helpers.get(getattr(n.func, 'id', None))
            if h is not None:
                vals += [n.args[i] for i in h[1] if i < len(n.args)]
            for v in vals:
                if not fixed(v):
                    out.append(f'depccg/grammar/{which}.py:{n.lineno} label computed as `{ast.unparse(v)[:60]}`')
    return sorted(set(out))


def vocabulary_obligations():
    """noraise of the table lookups of the Prolog encoders: every label the rule functions can return is a key of the table indexed with it"""
    recs = []
    en_b, en_u = grammar_labels('en')
    ja_b, ja_u = grammar_labels('ja')
    opm = literal_dict_keys('depccg/printer/prolog.py', '_op_mapping')
    jac = literal_dict_keys('depccg/printer/prolog.py', '_ja_combinators')
    for s1, s2 in en_b:
        ok = s1 in opm
        recs.append(dict(name=f'{PROP}/depccg/printer/prolog.py::_prolog_string/noraise: _op_mapping[{s1!r}]', kind='noraise', verdict='discharged' if ok else 'failed', backend='pyvc-structural',
                         ms=0, inputs=None, detail=f'label {s1}/{s2} emitted by grammar/en.py', witness=dict(table='_op_mapping', label=s1)))
    for s1, s2 in ja_b + ja_u:
        ok = s2 in jac
        recs.append(dict(name=f'{PROP}/depccg/printer/prolog.py::to_prolog_ja/noraise: _ja_combinators[{s2!r}]', kind='noraise', verdict='discharged' if ok else 'failed', backend='pyvc-structural',
                         ms=0, inputs=None, detail=f'symbol {s2} emitted by grammar/ja.py', witness=dict(table='_ja_combinators', label=s2)))
    for which in ('en', 'ja'):
        comp = open_vocabulary(which)
        recs.append(dict(name=f'{PROP}/depccg/grammar/{which}.py/label vocabulary is enumerable from the source', kind='noraise', verdict='discharged' if not comp else 'unknown',
                         backend='pyvc-structural', ms=0, inputs=None, detail=comp or 'every label and symbol of a rule result is a literal (or a conditional of literals)',
                         witness=dict(sites=comp) if comp else None))
    return recs


def token_key_obligations():
    """every token attribute an encoder reads without a default must exist on the bare placeholder token (word only)"""
    recs = []
    tree = parse_source('depccg/parsing.pyx'.replace('.pyx', '.pyx')) if False else None
    import re
    src = open(engine.REPO + '/depccg/parsing.pyx', encoding='utf-8').read()
    m = re.search(r'Tree\.make_terminal\(\s*"FAILED"', src)
    keys = {'word'} if m else set()
    for rel in ('auto', 'conll', 'deriv', 'html', 'ja', 'jigg_xml', 'my_json', 'prolog', 'ptb', 'xml'):
        path = f'depccg/printer/{rel}.py'
        t = parse_source(path)
        bad = []
        for n in ast.walk(t):
            # token.<key> / token['<key>'] where `token` is bound from node.token / tree.tokens
            if isinstance(n, ast.Attribute) and isinstance(n.value, ast.Name) and n.value.id == 'token' and n.attr not in ('get', 'items', 'keys', 'values', 'pop', 'word') and not n.attr.startswith('_'):
                if n.attr not in keys:
                    bad.append(f'{path}:{n.lineno} token.{n.attr}')
            if isinstance(n, ast.Subscript) and isinstance(n.value, ast.Name) and n.value.id == 'token' and isinstance(n.slice, ast.Constant) and isinstance(n.ctx, ast.Load):
                if n.slice.value not in keys:
                    bad.append(f'{path}:{n.lineno} token[{n.slice.value!r}]')
        recs.append(dict(name=f'{PROP}/{path}/noraise: token attributes read without default exist on the placeholder token', kind='noraise',
                         verdict='discharged' if not bad else 'unknown', backend='pyvc-structural', ms=0, inputs=None, detail=bad or None, witness=dict(sites=bad) if bad else None))
    return recs


def main(tier='quick', seed=0):
    t0 = time.time()
    records, errors = [], []
    try:
        records = vocabulary_obligations() + token_key_obligations()
    except CheckerError as e:
        errors.append(f'CHECKER-ERROR {e}')
    assumptions = [
        'deductive part (structural obligations on the ast): the label vocabulary harvested from grammar/en.py and grammar/ja.py (all op_string/op_symbol constants of CombinatorResult(...) and the returns of _unary_rule_symbol) '
        'is contained in the key sets of the Prolog tables indexed with it; encoders read no token attribute without default that the bare placeholder token lacks',
        'exception freedom of every encoder on every derivation the grammars license is decided BOUNDED: real encoders on derivations built with the real rule functions, every label of the vocabulary, the placeholder alone and in mixed batches, all CLI formats',
        'formats ccg2lambda and jigg_xml_ccg2lambda are out of reach here (nltk, yaml and the template engine are absent): not claimed',
    ]
    extra = dict(functions_under_contract=['depccg/printer/prolog.py::_prolog_string (table lookup)', 'depccg/printer/prolog.py::to_prolog_ja (table lookup)', 'token attribute reads of all encoders'])
    return c12.finish_with(PROP, tier, seed, t0, records, errors, extra, assumptions, ['printers_real.py'], level='exploration')
