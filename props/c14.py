"""C14 — rule application is a pure, total, reproducible function; filters only remove."""
import ast
import json
import os
import time
import z3

from vc.sorts import CheckerError, get_world, parse_source
from vc import engine
from vc.engine import verify_contract, verify_lemma
from contracts import grammar as gc
from contracts import unification as uc
from props import c03, c13

PROP = 'C14'
RELS = {'en': 'depccg/grammar/en.py', 'ja': 'depccg/grammar/ja.py'}


MUTATORS = ('append', 'extend', 'insert', 'pop', 'remove', 'clear', 'update', 'add', 'discard', 'setdefault', 'sort', 'reverse', 'popitem')


def _cached_functions(tree):
    """names of functions / methods carrying a memoising decorator (functools.lru_cache, functools.cache, cached_property)"""
    out = set()
    for fn in ast.walk(tree):
        if isinstance(fn, ast.FunctionDef):
            for d in fn.decorator_list:
                core = d.func if isinstance(d, ast.Call) else d
                name = core.attr if isinstance(core, ast.Attribute) else (core.id if isinstance(core, ast.Name) else None)
                if name in ('lru_cache', 'cache', 'cached_property'):
                    out.add(fn.name)
    return out


def _shared_object_mutations(rel, fn, top, cached):
    """mutation of an object that outlives the call: a local name bound to the result of a memoised function, or to (an element of) a module-level
    table, is later stored into / mutated in the same function.  Flow-insensitive within the function; re-binding to a fresh copy (dict(v), list(v),
    v.copy(), copy.copy/deepcopy) is a different name binding and is not tracked."""
    shared = {}
    for n in ast.walk(fn):
        if isinstance(n, ast.Assign) and len(n.targets) == 1 and isinstance(n.targets[0], ast.Name):
            v = n.value
            src = None
            if isinstance(v, ast.Call):
                f = v.func
                fname = f.id if isinstance(f, ast.Name) else (f.attr if isinstance(f, ast.Attribute) else None)
                if fname in cached:
                    src = f'the memoised function {fname}'
                elif isinstance(f, ast.Attribute) and f.attr in ('get', 'setdefault') and isinstance(f.value, ast.Name) and f.value.id in top:
                    src = f'the module-level table {f.value.id}'
            base = v
            while isinstance(base, ast.Subscript):
                base = base.value
            if src is None and isinstance(base, ast.Name) and base.id in top and (base is not v or True) and not isinstance(v, ast.Call):
                src = f'the module-level name {base.id}'
            if src is not None:
                shared.setdefault(n.targets[0].id, (src, n.lineno))
    if not shared:
        return []
    # a name that is also bound to something else in the function is left alone (flow-insensitive: cannot tell which binding is mutated)
    for n in ast.walk(fn):
        if isinstance(n, ast.Assign):
            for t in n.targets:
                if isinstance(t, ast.Name) and t.id in shared and n.lineno != shared[t.id][1]:
                    shared.pop(t.id)
    out = []
    for n in ast.walk(fn):
        if isinstance(n, ast.Call) and isinstance(n.func, ast.Attribute) and n.func.attr in MUTATORS and isinstance(n.func.value, ast.Name) and n.func.value.id in shared:
            out.append(f'{rel}:{n.lineno} {n.func.value.id}.{n.func.attr}(...) mutates an object obtained from {shared[n.func.value.id][0]} (it outlives the call: later calls see the change)')
        if isinstance(n, (ast.Assign, ast.AugAssign, ast.Delete)):
            tg = n.targets if isinstance(n, (ast.Assign, ast.Delete)) else [n.target]
            for t in tg:
                if isinstance(t, (ast.Subscript, ast.Attribute)):
                    base = t
                    while isinstance(base, (ast.Subscript, ast.Attribute)):
                        base = base.value
                    if isinstance(base, ast.Name) and base.id in shared:
                        out.append(f'{rel}:{n.lineno} store into an object obtained from {shared[base.id][0]} (it outlives the call: later calls see the change)')
    return out


def purity_scan(prop=None, rels=('depccg/grammar/en.py', 'depccg/grammar/ja.py', 'depccg/unification.py', 'depccg/cat.py'), exclude=(), imports=True, state_only=False):
    """(hidden state found by this scan is UNDECIDED, not a violation - it can be a correct value-keyed cache; the bounded history / hash-seed cases decide with inputs.
    A dependence on object identity, the string hash, the clock or a random source in code reachable from rule application is a violation of `a function of its arguments`.)
    frame obligations, decided on the ast: no function reachable from rule application stores to a module-level name, declares
    global/nonlocal state outside its own closure, or calls id()/hash()/random; categories are frozen dataclasses (C13).
    exclude: top-level functions of the module that are outside the obligation; imports=False skips the module-import clause."""
    prop = prop or PROP
    recs = []
    for rel in rels:
        tree = parse_source(rel)
        skip = {id(n) for fn in tree.body if isinstance(fn, ast.FunctionDef) and fn.name in exclude for n in ast.walk(fn)}
        top = {t.id for st in tree.body if isinstance(st, (ast.Assign, ast.AnnAssign)) for t in (st.targets if isinstance(st, ast.Assign) else [st.target]) if isinstance(t, ast.Name)}
        problems = []
        cached = _cached_functions(tree)
        for fn in ast.walk(tree):
            if not isinstance(fn, (ast.FunctionDef, ast.Lambda)) or id(fn) in skip:
                continue
            if isinstance(fn, ast.FunctionDef):
                problems.extend(p for p in _shared_object_mutations(rel, fn, top, cached) if p not in problems)
            for n in ast.walk(fn):
                if isinstance(n, ast.Global):
                    problems.append(f'{rel}:{n.lineno} global statement')
                if isinstance(n, (ast.Assign, ast.AugAssign, ast.AnnAssign)):
                    tg = n.targets if isinstance(n, ast.Assign) else [n.target]
                    for t in tg:
                        base = t
                        while isinstance(base, (ast.Subscript, ast.Attribute)):
                            base = base.value
                        if isinstance(base, ast.Name) and base.id in top and not isinstance(t, ast.Name):
                            problems.append(f'{rel}:{n.lineno} store into module-level {base.id}')
                if isinstance(n, ast.Call):
                    f = n.func
                    if not state_only and isinstance(f, ast.Name) and f.id in ('id', 'hash', 'input', 'open', 'exec', 'eval', 'globals', 'setattr', 'delattr'):
                        problems.append(f'{rel}:{n.lineno} call of {f.id}()')
                    if isinstance(f, ast.Attribute) and f.attr in MUTATORS \
                            and isinstance(f.value, ast.Name) and f.value.id in top:
                        problems.append(f'{rel}:{n.lineno} mutation of module-level {f.value.id}')
                    if not state_only and isinstance(f, ast.Attribute) and isinstance(f.value, ast.Name) and f.value.id in ('random', 'time', 'os', 'sys'):
                        problems.append(f'{rel}:{n.lineno} call into {f.value.id}')
        for imp in (ast.walk(tree) if imports else ()):
            if isinstance(imp, (ast.Import, ast.ImportFrom)):
                names = [a.name for a in imp.names] + ([imp.module] if isinstance(imp, ast.ImportFrom) and imp.module else [])
                if any(n.split('.')[0] in ('random', 'time', 'threading', 'multiprocessing') for n in names):
                    problems.append(f'{rel}:{imp.lineno} imports a source of nondeterminism')
        title = 'frame: no store to module state or to objects owned by a cache / module-level table' if state_only else 'frame: no store to module state, no identity/hash/clock/random dependence'
        recs.append(dict(name=f'{prop}/{rel}/{title}', kind='frame',
                         verdict='discharged' if not problems else ('failed' if any(' call of id()' in x or ' call of hash()' in x or ' call into random' in x or ' call into time' in x for x in problems) and not state_only else 'unknown'), backend='pyvc-structural', ms=0, inputs=None, detail=problems or None,
                         witness=dict(sites=problems) if problems else None))
    return recs


def unordered_iteration_scan():
    """every `for` over a set-valued expression in the code reachable from rule application must be covered by a commute obligation
    (only Unification.__call__'s loop over meta_vars is; anything else is reported)"""
    recs = []
    for rel in ('depccg/grammar/en.py', 'depccg/grammar/ja.py', 'depccg/unification.py', 'depccg/cat.py', 'depccg/grammar/__init__.py'):
        tree = parse_source(rel)
        bad = []
        for fn in ast.walk(tree):
            if not isinstance(fn, ast.FunctionDef):
                continue
            setvars = set()
            for n in ast.walk(fn):
                if isinstance(n, ast.Assign) and len(n.targets) == 1 and isinstance(n.targets[0], ast.Name) and _is_set_expr(n.value, setvars):
                    setvars.add(n.targets[0].id)
            for n in ast.walk(fn):
                its = []
                if isinstance(n, ast.For):
                    its.append(n.iter)
                if isinstance(n, (ast.ListComp, ast.GeneratorExp, ast.DictComp)):
                    its.extend(g.iter for g in n.generators)
                for it in its:
                    if _is_set_expr(it, setvars):
                        if rel == 'depccg/unification.py' and fn.name == '__call__':
                            continue       # covered by the commute obligation below
                        bad.append(f'{rel}:{n.lineno} iteration over a set')
        recs.append(dict(name=f'{PROP}/{rel}/no uncovered iteration over an unordered collection', kind='commute', verdict='discharged' if not bad else 'unknown',
                         backend='pyvc-structural', ms=0, inputs=None, detail=bad or None, witness=dict(sites=bad) if bad else None))
    return recs


def _is_set_expr(e, setvars):
    if isinstance(e, (ast.Set, ast.SetComp)):
        return True
    if isinstance(e, ast.Call) and isinstance(e.func, ast.Name) and e.func.id in ('set', 'frozenset'):
        return True
    if isinstance(e, ast.BinOp) and isinstance(e.op, (ast.BitAnd, ast.BitOr, ast.Sub, ast.BitXor)):
        return _is_set_expr(e.left, setvars) or _is_set_expr(e.right, setvars)
    if isinstance(e, ast.Name) and e.id in setvars:
        return True
    return False


def replay_commute(inputs):
    if not inputs or any(isinstance(v, str) and v.startswith('<') for v in inputs.values()):
        return dict(reproduced=False, note='model not ground')
    body = r'''
import json, os, subprocess, sys
inputs = json.loads(%r)
child = r"""
import json, sys
from vc.twin import build, str_spec
from depccg.cat import Atom, Functor
from depccg.grammar import en
inp = json.loads(sys.argv[1])
a1, b1, a2, b2 = (build(inp[k]) for k in ('it1_x', 'it1_y', 'it2_x', 'it2_y'))
x = Functor(Functor(Atom('S', a1), '/', Atom('S', a2)), '/', Functor(Atom('N', a1), '/', Atom('N', a2)))
y = Functor(Atom('N', b1), '/', Atom('N', b2))
r = en.forward_application(x, y)
print(json.dumps([str_spec(x), str_spec(y), None if r is None else str_spec(r.cat)]))
"""
outs = {}
for seed in range(0, 24):
    env = dict(os.environ, PYTHONHASHSEED=str(seed))
    p = subprocess.run([sys.executable, '-c', child, json.dumps(inputs)], capture_output=True, text=True, env=env)
    outs.setdefault(p.stdout.strip() or p.stderr.strip()[-200:], []).append(seed)
print('REPRODUCED' if len(outs) > 1 else 'NOT-REPRODUCED', json.dumps(outs))
if outs:
    k = json.loads(list(outs)[0]) if list(outs)[0].startswith('[') else None
    if k:
        print('WITNESS', json.dumps(dict(function='forward_application', x=k[0], y=k[1])))
''' % json.dumps(inputs)
    rc, out, err = engine.run_real(body, timeout=300)
    wit = None
    for ln in out.splitlines():
        if ln.startswith('WITNESS '):
            wit = json.loads(ln[8:])
    return dict(reproduced='REPRODUCED' in out and 'NOT-REPRODUCED' not in out, stdout=out[-2000:], stderr=err[-1000:], script=body, witness=wit)


def run_job(kind, key):
    w = get_world()
    if kind == 'sound':
        lang, name = key
        r = c03.run_job('sound', name, prop=PROP, rel=RELS[lang], lang=lang)
        # C14 keeps the exception-freedom obligations (the schema postconditions belong to C03/C04)
        r['records'] = [x for x in r['records'] if x['kind'] in ('noraise', 'raises', 'vacuity') or x['verdict'] == 'unknown']
        return r
    if kind == 'apply':
        return c03.run_job('apply', 'apply_binary_rules', prop=PROP, rel=RELS[key], lang=key)
    if kind == 'unary':
        wd, I, table = c03.setup()
        c = gc.ApplyUnary(RELS[key], key)
        recs, npaths = verify_contract(I, c, PROP)
        if key == 'ja':      # the label clause is C04's; C14 claims targets-in-order and exception freedom
            pass
        return dict(job=f'unary-{key}', records=recs, paths=npaths)
    if kind == 'lemma':
        lt = c13.lemmas(w)
        return dict(job=key, records=verify_lemma(w, lt[key], PROP, lt))
    if kind == 'commute':
        from props import c06
        wd, I, table = c06.setup([('b', 'a\\b')])
        c = table['depccg/unification.py::Unification.__call__']
        recs, _ = verify_contract(I, c, PROP, only_case='b , a\\b')
        summ = list(uc._SUMMARIES.values())
        out = [x for x in recs if x['kind'] in ('inv-step',) and 'summary' not in x['name']][:0]
        if len(summ) != 1:
            raise CheckerError('loop summary of Unification.__call__ not available')
        s = summ[0]
        if s.get('unordered_uses', 0) == 0:
            out.append(dict(name=f'{PROP}/depccg/unification.py::Unification.__call__/commute@loop-over-shared-keys', kind='commute', verdict='discharged',
                            backend='pyvc-structural', ms=0, inputs=None, detail='the loop iterates over sorted(...): a deterministic order'))
        else:
            v, b, ms, model = engine.solve(s['commute'], [], inputs=s['commute_inputs'])
            rec = dict(name=f'{PROP}/depccg/unification.py::Unification.__call__/commute@loop-over-shared-keys', kind='commute', verdict=v, backend=b, ms=ms,
                       inputs=model, detail='two normal iterations over the unordered set of shared keys must commute (hash-seed independence)')
            if v == 'failed' and model:
                rec['replay'] = replay_commute(model)
                if rec['replay'].get('witness'):
                    rec['witness'] = rec['replay']['witness']
            out.append(rec)
        return dict(job='commute', records=out)
    if kind == 'scan':
        return dict(job='scan', records=purity_scan() + unordered_iteration_scan())
    raise CheckerError(kind)


def bounded(tier, seed):
    script = open(os.path.join(engine.VERIF, 'bounded', 'c14_real.py')).read()
    rc, out, err = engine.run_real(script, timeout=2400, env_extra=dict(VERIF_TIER=tier, VERIF_SEED=str(seed), VERIF_REPO=engine.REPO))
    try:
        return json.loads(out.strip().splitlines()[-1]), None
    except Exception:
        return None, f'CHECKER-ERROR bounded C14 run did not produce a result (rc={rc}): {err[-800:]}'


def main(tier='quick', seed=0):
    t0 = time.time()
    wd, I, table = c03.setup()
    jobs = []
    for lang, rel in RELS.items():
        for n in c03.combinator_names(I, rel):
            jobs.append(('sound', (lang, n)))
        jobs += [('apply', lang), ('unary', lang)]
    jobs += [('commute', 'x'), ('scan', 'x')] + [('lemma', n) for n in ('erase_idempotent', 'erase_absorbs_subset', 'erase_keeps_skeleton')]
    results = engine.run_jobs('props.c14', jobs)
    records, errors = [], []
    paths = 0
    for r in results:
        records.extend(r.get('records', []))
        if r.get('error'):
            errors.append(f"{r['error']} (job {r['job']})")
        paths += r.get('paths', 0)
    # the rule functions call Category / Feature methods through the contracts of depccg/cat.py: re-discharged here as well
    from props import c13
    crecs, cerrs, clib, cinl, cpaths, cimpls, _w = c13.deductive_records(PROP)
    records.extend(crecs)
    errors.extend(cerrs)
    paths += cpaths
    b, err = bounded(tier, seed)
    binfo = None
    if err:
        errors.append(err)
    else:
        for i, fl in enumerate(b['failures']):
            records.append(dict(name=f'{PROP}/bounded::{fl["kind"]}#{i}', kind='bounded', verdict='failed', backend='bounded', ms=0, inputs=None,
                                witness=fl.get('witness', fl), replay=dict(reproduced=True, stdout=json.dumps(fl)), detail=fl))
        binfo = dict(evaluations=b['evaluations'], distinct_nontrivial=b['distinct_nontrivial'], rule=b['rule'], label='bounded (never counted as proved)',
                     samples=b.get('samples', []))
    assumptions = [
        'CPython semantics of the encoded subset; z3 / cvc5; Unification through its contract (C06)',
        'exception freedom is proved for well-formed inputs (non-empty atom names, slashes / \\ |) over one feature system; for ja the first-argument feature of a unary-rule input is three-part',
        'purity: categories are frozen dataclasses (C13), Unification objects and result lists are allocated per call; the ast scan shows no store to module-level state and no use of id()/hash()/clock/random in cat.py, unification.py, grammar/*.py',
        'reproducibility: a deterministic program without identity-, hash- or order-dependent operations is a function of its inputs; the only iteration over an unordered collection is covered by the commute obligation (or iterates over sorted(...))',
        'nb-independence: from the apply_binary_rules postcondition (combinators are called on the nb-erased pair, gate on the (X,nb)-erased pair) and the erase lemmas',
    ]
    extra = dict(functions_under_contract=[f'{RELS[l]}::{n}' for l in RELS for n in c03.combinator_names(I, RELS[l])] +
                 [f'{RELS[l]}::apply_binary_rules' for l in RELS] + [f'{RELS[l]}::apply_unary_rules' for l in RELS] +
                 ['depccg/unification.py::Unification.__call__ (loop summary: commutation of iterations)'], paths=paths)
    return engine.finish(PROP, tier, seed, t0, records, errors, extra, assumptions, bounded=binfo)
