"""Deductive obligations of depccg/parsing.pyx (contracts/parsing_pyx.py), verified on the DePyx text of the file; used by C02 and C12."""
from vc.sorts import CheckerError, get_world
from vc.pyvc import Interp
from vc import engine
from vc.engine import verify_contract
from contracts import cat as catc, parsing_pyx as px

FUNCTIONS = {
    'retrieve_tree': ('C02', 'C12'),
    'scaffold': ('C12', 'C02'),
    'run.binary_callback': ('C12', 'C02'),
    'run.unary_callback': ('C12', 'C02'),
    'run.maybe_add_and_get': ('C02', 'C11'),
}


def contract_for(name):
    return {'retrieve_tree': px.RetrieveTree, 'scaffold': px.Scaffold, 'run.binary_callback': lambda: px.RulesCallback('binary'),
            'run.unary_callback': lambda: px.RulesCallback('unary'), 'run.maybe_add_and_get': px.MaybeAddAndGet}[name]()


def run_job(kind, key):
    prop, name = key
    w = get_world()
    catc.bind_world(w)
    table, impls, virtuals = catc.cat_contracts()
    I = Interp(w, table)
    px.install(I)
    if kind == 'sentence-loop':
        return dict(job=key, records=px.sentence_loop_records(prop))
    if kind == 'lemmas':
        return dict(job=key, records=px.pyx_lemmas(I, prop) + px.constructor_records(I, prop))
    c = contract_for(name)
    I.contracts[c.name] = c
    recs, npaths = verify_contract(I, c, prop)
    for r in recs:
        r['witness'] = dict(function=c.name)
    return dict(job=key, records=recs, paths=npaths, dropped=len(getattr(I, 'pyx_dropped', [])))


def records_for(prop):
    """(records, errors) of the parsing.pyx contracts that serve `prop`"""
    jobs = [('contract', (prop, n)) for n, props in FUNCTIONS.items() if prop in props]
    if prop in ('C02', 'C12'):
        jobs.append(('lemmas', (prop, 'nleaves-positive')))
    if prop == 'C11':
        jobs.append(('sentence-loop', (prop, 'run')))
    results = engine.run_jobs('props.pyx', jobs)
    records, errors = [], []
    for r in results:
        records.extend(r.get('records', []))
        if r.get('error'):
            errors.append(f"{r['error']} (job {r['job']})")
    return records, errors


FUNCTIONS_UNDER_CONTRACT = {
    'C02': ['depccg/parsing.pyx::retrieve_tree (DePyx text; structural induction over the item)', 'depccg/parsing.pyx::scaffold', 'depccg/parsing.pyx::run.binary_callback',
            'depccg/parsing.pyx::run.unary_callback', 'depccg/parsing.pyx::run.maybe_add_and_get (table invariant, ids only grow)'],
    'C12': ['depccg/parsing.pyx::retrieve_tree (labels and head flag from cache[(children ids)][rule_id])', 'depccg/parsing.pyx::scaffold (k-th result copied field by field)',
            'depccg/parsing.pyx::run.binary_callback / run.unary_callback (rule_id = position of the result in the grammar answer)'],
    'C11': ['depccg/parsing.pyx::run.maybe_add_and_get (ids handed out earlier keep their meaning)', 'depccg/parsing.pyx::run (sentence loop: exactly one result per sentence on every path; ast)'],
}

ASSUMPTIONS = [
    'parsing.pyx is verified on its DePyx text (vc/depyx.py: cimport / extern blocks deleted, C types, casts, & and exception specifications erased - re-extracted on every run); '
    'C-level values through assumed views: cell_item* as the datatype Item = leaf | unary | binary | final (fields as the struct declares them), pair<unsigned, unsigned> stores -1 as UINT_MAX, '
    'cache[0][key][k] is a record determined by (key.first, key.second, k), token_id[0] is one counter cell, vector::push_back copies the struct',
    'Tree.make_terminal / make_unary / make_binary build the node they are told to: constructor contracts, checked by executing the real depccg/tree.py constructors on symbolic arguments (constructor-contract obligations); bytes.decode inverts str.encode for utf-8',
    'items handed to retrieve_tree: a final item wraps an item that contains no final item (CxxVC: only the goal site creates final items); the induction principle over the item is the meta-rule',
]
